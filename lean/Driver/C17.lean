/-
  vd_c17 — replays the C17 harness's lines through the model (config emission, create/delete state
  machine, the model's reading of the generated text), compares, and evaluates the specification
  predicate on the implementation's own observations.

  Input (see harness/c17.cpp):
    T <Type> cfg=<f,…> other=<g,…>
    C <n> | <state>
    create <Type> <nameHex> <ioe> <tmplEnc> <attrsEnc> | now= parts= cfg= ok= parents= file= attrs= <state>
    delete <Type> <nameHex> <cascade> | found= ok= <state>
    (a delete line may end in ` thr=<Type>:<nameHex>`: the deactivation of that object is answered by an exception from an
     OnActiveChanged subscriber; the observation then starts with threw=<0|1>; a fault that fired is replayed in the model as `thr`)
    X <signal> <operation line>          the worker process died executing that operation
    (create lines may end in ` httpn`: request body without an "attrs" member; create/delete lines may end in ` http`: the call went through PUT/DELETE /v1/objects/… and HttpHandler::ProcessRequest)
    <state> = objs=<T:nameHex:api:active:hash:reg,…> items=<T:nameHex,…> files=<hex,…> glob=<hash>
  Output: MISMATCH / SPECFAIL / BADLINE lines and a final STATS line.
-/
import IcingaModel.Common.Proto
import IcingaModel.C17.Model
import IcingaModel.C17.Objects
import IcingaModel.C17.Spec

open Icinga Icinga.C17 Icinga.Proto

def S (s : String) : Str := s.toList
def showS (s : Str) : String := String.ofList s

def hexVal (c : Char) : Option Nat :=
  if '0' ≤ c ∧ c ≤ '9' then some (c.toNat - 48)
  else if 'a' ≤ c ∧ c ≤ 'f' then some (c.toNat - 87)
  else if 'A' ≤ c ∧ c ≤ 'F' then some (c.toNat - 55)
  else none

def unhexL : List Char → Option Str
  | [] => some []
  | a :: b :: r => do
    let x ← hexVal a
    let y ← hexVal b
    let t ← unhexL r
    pure (Char.ofNat (x * 16 + y) :: t)
  | _ => none

def unhex (s : String) : Option Str := if s == "-" then some [] else unhexL s.toList

def hexDigit (n : Nat) : Char := if n < 10 then Char.ofNat (48 + n) else Char.ofNat (87 + n)
def hexOf (s : Str) : String := String.ofList (s.flatMap (fun c => [hexDigit (c.toNat / 16 % 16), hexDigit (c.toNat % 16)]))

/-- strip trailing zeros of the fraction -/
def normDecF : Nat → Dec → Dec
  | 0, d => d
  | f + 1, d => if d.scale > 0 ∧ d.mant % 10 = 0 then normDecF f { d with mant := d.mant / 10, scale := d.scale - 1 } else d

def normDec (d : Dec) : Dec :=
  let d' := normDecF d.scale d
  if d'.mant = 0 then { neg := false, mant := 0, scale := 0 } else d'

/-- `-?digits(.digits)?` -/
def parseDecText (cs : List Char) : Option Dec :=
  let (neg, cs) := match cs with
    | '-' :: r => (true, r)
    | _ => (false, cs)
  let ip := cs.takeWhile isDigit
  let r := cs.dropWhile isDigit
  if ip.isEmpty then none
  else match r with
    | [] => some (normDec { neg := neg, mant := digitsVal ip, scale := 0 })
    | '.' :: fp => if fp.all isDigit && !fp.isEmpty then some (normDec { neg := neg, mant := digitsVal (ip ++ fp), scale := fp.length }) else none
    | _ => none

/-- the `enc` value encoding -/
def takeUntil (stop : Char) (cs : List Char) : List Char × List Char :=
  (cs.takeWhile (· ≠ stop), (cs.dropWhile (· ≠ stop)).drop 1)

mutual
partial def decV (cs : List Char) : Option (Value × List Char) :=
  match cs with
  | 'z' :: r => some (.empty, r)
  | 't' :: r => some (.bool true, r)
  | 'f' :: r => some (.bool false, r)
  | 'n' :: r =>
    let (a, b) := takeUntil ';' r
    (parseDecText a).map (fun d => (.num d, b))
  | 's' :: r =>
    let (a, b) := takeUntil ';' r
    (unhexL a).map (fun s => (.str s, b))
  | 'a' :: r =>
    let (a, b) := takeUntil ':' r
    match (String.ofList a).toNat? with
    | some n => (decVs n b).map (fun (xs, t) => (.arr xs, t))
    | none => none
  | 'd' :: r =>
    let (a, b) := takeUntil ':' r
    match (String.ofList a).toNat? with
    | some n => (decMs n b).map (fun (xs, t) => (.dict xs, t))
    | none => none
  | _ => none
partial def decVs (n : Nat) (cs : List Char) : Option (List Value × List Char) :=
  match n with
  | 0 => some ([], cs)
  | n + 1 => do
    let (v, r) ← decV cs
    let (vs, t) ← decVs n r
    pure (v :: vs, t)
partial def decMs (n : Nat) (cs : List Char) : Option (List (Str × Value) × List Char) :=
  match n with
  | 0 => some ([], cs)
  | n + 1 =>
    match cs with
    | 'k' :: r =>
      let (a, b) := takeUntil ';' r
      match unhexL a with
      | none => none
      | some k => do
        let (v, r2) ← decV b
        let (kvs, t) ← decMs n r2
        pure ((k, v) :: kvs, t)
    | _ => none
end

def decValue (s : String) : Option Value :=
  match decV s.toList with
  | some (v, []) => some v
  | _ => none

def decDict (s : String) : Option (List (Str × Value)) :=
  match decValue s with
  | some (.dict kvs) => some kvs
  | _ => none

def decStrArr (s : String) : Option (List Str) :=
  match decValue s with
  | some (.arr xs) => xs.mapM (fun v => match v with | .str t => some t | _ => none)
  | _ => none

def splitList (s : String) : List String := if s == "-" || s == "" then [] else s.splitOn ","

def parseKeyEnt (s : String) : Option Key :=
  match s.splitOn ":" with
  | [t, n] => (unhex n).map (fun n => ⟨S t, n⟩)
  | _ => none

def parseObjEnt (s : String) : Option OObj :=
  match s.splitOn ":" with
  | [t, n, a, ac, h, rg] => do
    let n ← unhex n
    let a ← parseBool? a
    let ac ← parseBool? ac
    let rg ← parseBool? rg
    pure { key := ⟨S t, n⟩, api := a, active := ac, hash := S h, reg := rg }
  | _ => none

def kvOf (ws : List String) : List (String × String) :=
  ws.filterMap (fun w => match w.splitOn "=" with
    | k :: v :: rest => some (k, String.intercalate "=" (v :: rest))
    | _ => none)

def getKV (kv : List (String × String)) (k : String) : Option String := (kv.find? (·.1 == k)).map (·.2)

def parseWorld (kv : List (String × String)) : Option World := do
  let objs ← (splitList (← getKV kv "objs")).mapM parseObjEnt
  let items ← (splitList (← getKV kv "items")).mapM parseKeyEnt
  let files ← (splitList (← getKV kv "files")).mapM unhex
  let glob ← getKV kv "glob"
  pure { objs := objs, items := items, files := files, glob := S glob }

def parseRes (s : String) : Option (Option Res) :=
  match s with
  | "1" => some (some .ok)
  | "0" => some (some .fail)
  | "x" => some (some .threw)
  | "-" => some none
  | "c" => some none      -- call skipped by the harness (would crash the process)
  | _ => none

/-- nearest binary64 to a positive decimal, as an exact decimal (what `strtod` returns for the literal) -/
def nearest64 (d : Dec) : Dec :=
  if d.mant = 0 then { neg := false, mant := 0, scale := 0 }
  else
    let p := d.mant
    let q := 10 ^ d.scale
    let e0 : Int := (Nat.log2 p : Int) - (Nat.log2 q : Int) - 52
    let ratio (e : Int) : Nat × Nat := if e ≥ 0 then (p, q * 2 ^ e.toNat) else (p * 2 ^ (-e).toNat, q)
    let pick := ([e0 - 2, e0 - 1, e0, e0 + 1, e0 + 2].find? (fun e => let (a, b) := ratio e; a / b < 2 ^ 53)).getD (e0 + 2)
    let e : Int := if pick < -1074 then -1074 else pick
    let (a, b) := ratio e
    let qn := a / b
    let rn := a % b
    let n := if 2 * rn > b || (2 * rn == b && qn % 2 == 1) then qn + 1 else qn
    if e ≥ 0 then normDec { neg := d.neg, mant := n * 2 ^ e.toNat, scale := 0 }
    else normDec { neg := d.neg, mant := n * 5 ^ (-e).toNat, scale := (-e).toNat }

mutual
partial def near64V : Value → Value
  | .num d => .num (nearest64 d)
  | .arr xs => .arr (xs.map near64V)
  | .dict kvs => .dict (kvs.map (fun kv => (kv.1, near64V kv.2)))
  | v => v
end

mutual
partial def hasNul : Value → Bool
  | .str s => s.contains chNUL
  | .arr xs => xs.any hasNul
  | .dict kvs => kvs.any (fun kv => kv.1.contains chNUL || hasNul kv.2)
  | _ => false
end

mutual
partial def hasLongNum : Value → Bool
  | .num d => (normDec d).scale > 6
  | .arr xs => xs.any hasLongNum
  | .dict kvs => kvs.any (fun kv => hasLongNum kv.2)
  | _ => false
end

/-- which recorded hazards (known_findings.json) the supplied input contains; appended to the clause name so
    that failures are grouped (and shrunk, and classified) per hazard combination -/
def hazards (i : CreateIn) : String :=
  let nul := hasNul (.dict (i.attrs.map (fun kv => (([] : Str), kv.2)))) || i.attrs.any (fun kv => kv.1.contains chNUL) ||
    i.name.contains chNUL || i.tmpl.any (·.contains chNUL)
  -- F-C17i: a FileLogger whose log file cannot be opened (`Start()` throws)
  let start := i.ty == S "FileLogger" && i.attrs.any (fun kv => kv.1 == S "path" &&
    (match kv.2 with | .str p => (S "/nonexistent-c17/").isPrefixOf p | _ => false))
  (if (i.attrs.any (fun kv => hasLongNum kv.2)) then "+num" else "") ++
  (if nul then "+nul" else "") ++
  (if start then "+start" else "")

structure DSt where
  types : List TypeInfo := []
  plurals : List (Str × Str) := []
  before : World := default
  st : St := ⟨[], [], [], [], []⟩
  deps : List (Key × Key) := []
  fileOf : List (Key × Str) := []
  /-- the live objects a create CALL of this case produced -/
  created : List Key := []
  caseNo : Nat := 0
  steps : Nat := 0
  creates : Nat := 0
  createdOk : Nat := 0
  cfgRejected : Nat := 0
  failed : Nat := 0
  dupRefused : Nat := 0
  ignored : Nat := 0
  deletes : Nat := 0
  deletedOk : Nat := 0
  delThrew : Nat := 0
  delRefusedNonApi : Nat := 0
  delRefusedDeps : Nat := 0
  cascades : Nat := 0
  httpOps : Nat := 0
  crashes : Nat := 0
  applyCreates : Nat := 0
  textIdentical : Nat := 0
  parsedOk : Nat := 0
  parsedBad : Nat := 0
  caseInteresting : Bool := false
  /-- a create of this case produced foreign statements or an object under another name (reported by the spec):
      the one-object state machine no longer describes the case, state comparison is suspended -/
  tainted : Bool := false
  nontrivial : Nat := 0
  mismatches : Nat := 0
  specfails : Nat := 0
  caseFailed : List String := []

def stOfWorld (w : World) (fileOf : List (Key × Str)) (deps : List (Key × Key)) : St :=
  { objs := w.objs.map (fun o => { key := o.key, api := o.api, active := o.active,
                                   file := ((fileOf.find? (·.1 = o.key)).map (·.2)).getD [] }),
    items := w.items, files := w.files, deps := deps, hostServices := [] }

def sortKeys (ks : List Key) : List String := (ks.map (fun k => showS k.ty ++ ":" ++ hexOf k.name)).toArray.qsort (· < ·) |>.toList

def viewSt (st : St) : List String × List String :=
  -- every object of the model can be looked up by its name (the object list IS the registry)
  ((st.objs.map (fun o => showS o.key.ty ++ ":" ++ hexOf o.key.name ++ ":" ++ showBool o.api ++ ":" ++ showBool o.active ++ ":" ++ showBool true)).toArray.qsort (· < ·) |>.toList,
   (st.files.map hexOf).toArray.qsort (· < ·) |>.toList)

def viewWorld (w : World) : List String × List String :=
  ((w.objs.map (fun o => showS o.key.ty ++ ":" ++ hexOf o.key.name ++ ":" ++ showBool o.api ++ ":" ++ showBool o.active ++ ":" ++ showBool o.reg)).toArray.qsort (· < ·) |>.toList,
   (w.files.map hexOf).toArray.qsort (· < ·) |>.toList)

def mismatch (d : DSt) (n : Nat) (op what : String) : IO DSt := do
  IO.println s!"MISMATCH line={n} case={d.caseNo} op={op} {what}"
  return { d with mismatches := d.mismatches + 1 }

def specfail (d : DSt) (n : Nat) (cl : String) : IO DSt := do
  if !d.caseFailed.contains cl then
    IO.println s!"SPECFAIL line={n} case={d.caseNo} clause={cl}"
  return { d with specfails := d.specfails + 1, caseFailed := cl :: d.caseFailed }

def handle (d : DSt) (n : Nat) (line : String) : IO DSt := do
  let ws := words line
  let (pre, post) := splitBar ws
  let kv := kvOf post
  match pre with
  | [] => return d
  | "T" :: ty :: rest =>
    let kv := kvOf rest
    let cfg := (splitList ((getKV kv "cfg").getD "-")).map S
    let other := (splitList ((getKV kv "other").getD "-")).map S
    return { d with types := { name := S ty, cfg := cfg, other := other } :: d.types,
                    plurals := (S ty, S ((getKV kv "plural").getD "?")) :: d.plurals }
  | "C" :: _ =>
    match parseWorld kv with
    | some w =>
      return { d with before := w, st := stOfWorld w [] [], deps := [], fileOf := [], created := [], caseNo := d.caseNo + 1,
                      caseInteresting := false, caseFailed := [], tainted := false }
    | none => IO.println s!"BADLINE line={n}"; return d
  | "X" :: _ :: rest =>
    -- the process executing the operations died in this operation
    let d := { d with crashes := d.crashes + 1 }
    -- F-C17h: a create request whose body has no "attrs" member
    specfail d n ("no_crash" ++ (if rest.head? == some "create" && rest.getLast? == some "httpn" then "+noattrs" else ""))
  | "create" :: ty :: nameH :: ioe :: tmplE :: attrsE :: via =>
    if via != [] && via != ["http"] && via != ["httpn"] then IO.println s!"BADLINE line={n}"; return d else
    let d := if via != [] then { d with httpOps := d.httpOps + 1 } else d
    let inp : Option CreateIn := do
      let name ← unhex nameH
      let ioe ← parseBool? ioe
      let tmpl ← decStrArr tmplE
      let attrs ← decDict attrsE
      pure { ty := S ty, plural := ((d.plurals.find? (·.1 = S ty)).map (·.2)).getD (S "?"), name := name, ioe := ioe, tmpl := tmpl, attrs := attrs }
    let obs : Option (CreateObs × List Key) := do
      let now ← (getKV kv "now") >>= (fun s => parseDecText s.toList)
      let parts ← match getKV kv "parts" with
        | some "-" => some none
        | some s => (decDict s).map some
        | none => none
      let cfg ← match getKV kv "cfg" with
        | some "!" => some none
        | some s => (unhex s).map some
        | none => none
      let res ← (getKV kv "ok") >>= parseRes
      let parents ← (splitList (← getKV kv "parents")).mapM parseKeyEnt
      let children ← (splitList ((getKV kv "children").getD "-")).mapM parseKeyEnt
      -- an object that depends on itself (F-C17g) is not one of its own generated children
      let self : Option Key := (unhex nameH).map (fun nm => (⟨S ty, nm⟩ : Key))
      let children := children.filter (fun c => some c != self)
      let file ← match getKV kv "file" with
        | some "-" => some none
        | some s => (unhex s).map some
        | none => none
      let attrs ← match getKV kv "attrs" with
        | some "-" => some none
        | some s => (decDict s).map some
        | none => none
      let after ← parseWorld kv
      pure ({ cfg := cfg, res := res, parts := parts, now := now, parents := parents, children := children,
              file := file, attrs := attrs, after := after }, parents)
    match inp, obs with
    | some i, some (o, parents) =>
      let k : Key := ⟨i.ty, i.name⟩
      let mut d := { d with steps := d.steps + 1, creates := d.creates + 1 }
      -- 1. the configuration text
      match d.types.find? (·.name = i.ty) with
      | none => IO.println s!"BADLINE line={n} unknown-type"; return d
      | some ti =>
        let mcfg := createObjectConfig ti i.name i.ioe i.tmpl i.attrs o.parts o.now
        -- compared by what the texts PARSE to (spacing, indentation, order of independent entries are the
        -- writer's business); byte identity is only counted
        let sameCfg : Bool := match mcfg, o.cfg with
          | none, none => true
          | some a, some b =>
            a == b || (match parseItem a, parseItem b with
              | some x, some y => itemSame x y
              | none, none => true
              | _, _ => false)
          | _, _ => false
        if mcfg == o.cfg then d := { d with textIdentical := d.textIdentical + 1 }
        if !sameCfg then
          d ← mismatch d n "config" s!"impl={(o.cfg.map hexOf).getD "!"} model={(mcfg.map hexOf).getD "!"}"
        -- 2. the state machine, with the outcome as the injected fault
        let existed := d.before.has k
        let present := o.after.has k
        let fault : Fault := match o.res with
          | some .ok => if present then .none else .ignored
          -- a failed call that nevertheless left the new object behind: the exception out of `ActivateItems`
          | some .fail => if present && !existed then .activateThrows else .commitFails
          | some .threw => .writeThrows
          | none => .pathBroken
        let path := o.file.getD (S "?")
        let apiO := ((o.after.find k).map (·.api)).getD true
        let (mst, mres) := if o.cfg.isNone then (d.st, Res.fail) else createObject d.st k path parents fault apiO o.children
        -- the state machine describes calls whose text is the one object statement; a text with foreign
        -- statements (reported by the spec as structure_preserved / others_untouched) is outside it
        let clean := match o.cfg with
          | some cfg => structurePreserved i o cfg
          | none => true
        let zombieParent := parents.any (fun p => !o.after.has p && o.after.objs.any (fun x => x.key.ty = p.ty))
        let parents := parents.filter (fun p => o.after.has p)
        let orphan := (o.res == some .ok && !present && o.after != d.before) || zombieParent
        if !clean || orphan then d := { d with tainted := true }
        if !d.tainted && o.cfg.isSome && some mres != o.res then
          d ← mismatch d n "create-result" s!"impl={repr o.res} model={repr mres}"
        if !d.tainted && viewSt mst != viewWorld o.after then
          d ← mismatch d n "create-state" s!"impl={viewWorld o.after} model={viewSt mst}"
        -- 3. the model's reading of the generated text vs the object the compiler built
        match o.cfg with
        | some cfg =>
          match parseItem cfg with
          | some it =>
            d := { d with parsedOk := d.parsedOk + 1 }
            match o.attrs, evalAssigns (canonAssigns it.assigns) [] with
            | some seen, some want =>
              if clean && o.res == some .ok && present && !existed && it.imports.isEmpty then
                for (kk, sv) in seen do
                  match lookupV kk want with
                  | some w =>
                    if !(Value.beq (near64V w) sv) && !hasNul w then
                      d ← mismatch d n "compiler" s!"key={hexOf kk}"
                  | none => pure ()
            | _, _ => pure ()
          | none => d := { d with parsedBad := d.parsedBad + 1 }
        | none => pure ()
        -- 4. specification on the implementation's observations
        match specCreate d.before i o with
        | some cl => d ← specfail d n (cl ++ hazards i)
        | none => pure ()
        -- bookkeeping
        if !o.children.isEmpty then d := { d with applyCreates := d.applyCreates + 1 }
        if o.cfg.isNone then d := { d with cfgRejected := d.cfgRejected + 1 }
        else if existed then d := { d with dupRefused := d.dupRefused + 1 }
        else if o.res == some .ok && present then d := { d with createdOk := d.createdOk + 1 }
        else if o.res == some .ok then d := { d with ignored := d.ignored + 1 }
        else d := { d with failed := d.failed + 1 }
        let deps := if present && !existed then parents.map (fun p => (k, p)) ++ (o.children.map (fun c => (c, k)) ++ d.deps) else d.deps
        let fileOf := match o.file with
          | some p => if present && !existed then (k, p) :: d.fileOf else d.fileOf
          | none => d.fileOf
        let created := if o.res == some .ok && present && !existed then k :: d.created else d.created
        return { d with before := o.after, deps := deps, fileOf := fileOf, created := created, st := stOfWorld o.after fileOf deps }
    | _, _ => IO.println s!"BADLINE line={n}"; return d
  | "delete" :: ty :: nameH :: casc :: via0 =>
    -- optional last token `thr=<Type>:<nameHex>`: the deactivation of that object is answered by an exception
    let thrTok : Option String := match via0.getLast? with
      | some t => if t.startsWith "thr=" then some (t.drop 4).toString else none
      | none => none
    let via := if thrTok.isSome then via0.dropLast else via0
    if via != [] && via != ["http"] then IO.println s!"BADLINE line={n}"; return d else
    let d := if via == ["http"] then { d with httpOps := d.httpOps + 1 } else d
    let parsed : Option (Key × Bool × Bool × Option Res × World × Option Key) := do
      let name ← unhex nameH
      let c ← parseBool? casc
      let found ← (getKV kv "found") >>= parseBool?
      let res ← (getKV kv "ok") >>= parseRes
      let after ← parseWorld kv
      let thr ← match thrTok with
        | none => some none
        | some t => do
          let f ← parseKeyEnt t
          let fired ← (getKV kv "threw") >>= parseBool?
          pure (if fired then some f else none)
      pure (⟨S ty, name⟩, c, found, res, after, thr)
    match parsed with
    | some (k, c, found, res, after, thr) =>
      let mut d := { d with steps := d.steps + 1, deletes := d.deletes + 1 }
      if thr.isSome then d := { d with delThrew := d.delThrew + 1 }
      if found then
        -- the ORDER in which `DependencyGraph::GetChildren` hands out the dependents is the implementation's business
        -- (oracle); it shows only when a fault ends the loop (0ce9ca7): the dependents the implementation got rid of
        -- came before the one that failed, so the model visits them first
        -- … then the one whose deletion failed (the object named by the fault, or an object it depends on), and only then
        -- the dependents the implementation never reached
        let failing : List Key := match thr with
          | some f => dependentsF (d.st.objs.length + 1) (d.st.deps.map (fun e => (e.2, e.1))) [f]
          | none => []
        let depsO := d.st.deps.filter (fun e => !after.has e.1) ++
          d.st.deps.filter (fun e => after.has e.1 && failing.contains e.1) ++
          d.st.deps.filter (fun e => after.has e.1 && !failing.contains e.1)
        let (mst, mres) := deleteObject { d.st with deps := depsO } k c thr
        if !d.tainted && some mres != res then
          d ← mismatch d n "delete-result" s!"impl={repr res} model={repr mres}"
        if !d.tainted && viewSt mst != viewWorld after then
          d ← mismatch d n "delete-state" s!"impl={viewWorld after} model={viewSt mst}"
      match specDelete d.before k c found res d.created d.fileOf d.deps after thr with
      | some cl => d ← specfail d n cl
      | none => pure ()
      if found then
        let api := ((d.before.find k).map (·.api)).getD false
        let kids := d.deps.any (fun e => e.2 = k && d.before.has e.1)
        if res == some .ok then
          d := { d with deletedOk := d.deletedOk + 1 }
          if kids then d := { d with cascades := d.cascades + 1 }
        else if !api then d := { d with delRefusedNonApi := d.delRefusedNonApi + 1 }
        else if kids && !c then d := { d with delRefusedDeps := d.delRefusedDeps + 1 }
        if !d.caseInteresting && (kids || !api) then
          d := { d with caseInteresting := true, nontrivial := d.nontrivial + 1 }
      -- an object whose deletion was aborted after its deactivation no longer refers to anything (its `Stop()` has
      -- untracked its references): it is nobody's dependent any more
      let deps := d.deps.filter (fun e => after.has e.1 && after.has e.2 && ((after.find e.1).map (·.active)).getD false)
      let fileOf := d.fileOf.filter (fun e => after.has e.1)
      let created := d.created.filter (fun e => after.has e)
      return { d with before := after, deps := deps, fileOf := fileOf, created := created, st := stOfWorld after fileOf deps }
    | none => IO.println s!"BADLINE line={n}"; return d
  | _ => IO.println s!"BADLINE line={n}"; return d

def main : IO Unit := do
  let stdin ← IO.getStdin
  let d ← foldLines stdin handle ({} : DSt)
  IO.println s!"STATS cases={d.caseNo} steps={d.steps} creates={d.creates} created={d.createdOk} cfg_rejected={d.cfgRejected} create_failed={d.failed} dup_refused={d.dupRefused} ignored={d.ignored} deletes={d.deletes} deleted={d.deletedOk} del_threw={d.delThrew} refused_non_api={d.delRefusedNonApi} refused_deps={d.delRefusedDeps} cascades={d.cascades} http_ops={d.httpOps} crashes={d.crashes} apply_generated={d.applyCreates} text_identical={d.textIdentical} text_parsed={d.parsedOk} text_unparsed={d.parsedBad} nontrivial={d.nontrivial} mismatches={d.mismatches} specfails={d.specfails}"

/-
  vd_c05 — replays the harness's operation lines through the C05 model, compares the observations and
  evaluates the specification predicate on the implementation's own trace.

  Input lines (stdin), times relative to the case (see harness/c05.cpp):
    C <kind h|s> <prod 0|1>
    A <id> <fixed> <start> <end> <dur> <trigBy> <owner> <now> | <obs>
    R <state> <te> <now> | <obs>
    T <now> <fired 0|1: the start timer was among the due timers (oracle input)> | <obs>
    X <id> <reason 1 user|2 owner> <now> | <obs>
    P <paused 0|1> <now> | <obs>
    <obs> = <rc> <depth> <inDowntime> <n> (<id> <trigger>)*n <m> (<ev> <id> <count>)*m
  Output lines:
    MISMATCH line=<n> case=<k> impl=<...> model=<...>
    SPECFAIL line=<n> case=<k> clause=<name>
    BADLINE line=<n>
    STATS cases=.. steps=.. adds=.. results=.. pumps=.. removes=.. triggered=.. cascades=.. expired=.. refused=..
          startreq=.. endreq=.. nontrivial=.. mismatches=.. specfails=..
-/
import IcingaModel.Common.Proto
import IcingaModel.C05.Model
import IcingaModel.C05.Spec

open Icinga Icinga.C05 Icinga.Proto

structure DSt where
  st : St := initSt .service
  sp : SpecSt := specInit .service
  haveCase : Bool := false
  caseNo : Nat := 0
  steps : Nat := 0
  adds : Nat := 0
  results : Nat := 0
  pumps : Nat := 0
  removes : Nat := 0
  pauses : Nat := 0
  timerFired : Nat := 0
  triggered : Nat := 0
  cascades : Nat := 0
  expired : Nat := 0
  refused : Nat := 0
  startReq : Nat := 0
  endReq : Nat := 0
  caseFailed : Bool := false
  caseMismatch : Bool := false
  caseNontrivial : Bool := false
  nontrivial : Nat := 0
  mismatches : Nat := 0
  specfails : Nat := 0

def showObs (o : Obs) : String :=
  let ds := " ".intercalate (o.dts.map (fun p => s!"{p.1}:{p.2}"))
  let es := " ".intercalate (o.evs.map (fun e => s!"{e.1}/{e.2.1}x{e.2.2}"))
  s!"rc={o.rc},depth={o.depth},in={showBool o.inDt},dts=[{ds}],evs=[{es}]"

def takePairs : Nat → List String → Option (List (Nat × Int) × List String)
  | 0, ws => some ([], ws)
  | n + 1, a :: b :: ws => do
    let i ← parseNat? a
    let t ← parseInt? b
    let (r, rest) ← takePairs n ws
    pure ((i, t) :: r, rest)
  | _, _ => none

def takeTriples : Nat → List String → Option (List (Nat × Nat × Nat) × List String)
  | 0, ws => some ([], ws)
  | n + 1, a :: b :: c :: ws => do
    let e ← parseNat? a
    let i ← parseNat? b
    let k ← parseNat? c
    let (r, rest) ← takeTriples n ws
    pure ((e, i, k) :: r, rest)
  | _, _ => none

def parseObs (ws : List String) : Option Obs :=
  match ws with
  | rc :: dp :: ind :: n :: rest => do
    let rc ← parseNat? rc
    let dp ← parseNat? dp
    let ind ← parseBool? ind
    let n ← parseNat? n
    let (dts, rest) ← takePairs n rest
    match rest with
    | m :: rest => do
      let m ← parseNat? m
      let (evs, rest) ← takeTriples m rest
      if rest.isEmpty then pure { rc := rc, depth := dp, inDt := ind, dts := dts, evs := evs } else none
    | [] => none
  | _ => none

def parseOp (pre : List String) : Option Op :=
  match pre with
  | ["A", id, fx, st, en, du, tb, ow, nw] => do
    let id ← parseNat? id
    let fx ← parseBool? fx
    let st ← parseInt? st
    let en ← parseInt? en
    let du ← parseInt? du
    let tb ← parseNat? tb
    let ow ← parseBool? ow
    let nw ← parseInt? nw
    pure (.add { id := id, fixed := fx, start := st, fin := en, duration := du, trigBy := tb, owner := ow } nw)
  | ["R", s, te, nw] => do
    let s ← parseNat? s
    let te ← parseInt? te
    let nw ← parseInt? nw
    if s ≤ 3 then pure (.result s te nw) else none
  | ["T", nw, f] => do
    let nw ← parseInt? nw
    let f ← parseBool? f
    pure (.pump nw f)
  | ["X", id, rs, nw] => do
    let id ← parseNat? id
    let rs ← parseNat? rs
    let nw ← parseInt? nw
    if rs == 1 then pure (.remove id true nw) else if rs == 2 then pure (.remove id false nw) else none
  | ["P", b, nw] => do
    let b ← parseBool? b
    let nw ← parseInt? nw
    pure (.setPaused b nw)
  | _ => none

/-- Resynchronise the model on the implementation after a mismatch is not possible in general (the
    observation does not carry the whole state); the rest of such a case is still compared, but only
    the first mismatch of a case is reported. -/
def handle (d : DSt) (n : Nat) (line : String) : IO DSt := do
  let ws := words line
  match ws with
  | [] => return d
  | "C" :: k :: _ =>
    match (if k == "h" then some Kind.host else if k == "s" then some Kind.service else none) with
    | some k =>
      return { d with st := initSt k, sp := specInit k, haveCase := true, caseNo := d.caseNo + 1,
                      caseFailed := false, caseMismatch := false, caseNontrivial := false }
    | none => IO.println s!"BADLINE line={n}"; return d
  | _ =>
    let (pre, post) := splitBar ws
    match parseOp pre, parseObs post with
    | some op, some io =>
      if !d.haveCase then
        IO.println s!"BADLINE line={n}"; return d
      let p := stepObs d.st op
      let mo := p.2.canon
      let io := io.canon
      let mut d := { d with steps := d.steps + 1 }
      if mo != io then
        if !d.caseMismatch then
          IO.println s!"MISMATCH line={n} case={d.caseNo} impl={showObs io} model={showObs mo}"
        d := { d with mismatches := d.mismatches + 1, caseMismatch := true }
      -- the specification on the implementation's own observation
      match specStep d.sp op io with
      | some cl =>
        if !d.caseFailed then
          -- detail for grouping failures: the operation letter and, per known-defect class, whether
          -- its narrow signature is present (the check re-derives the class from the minimised witness)
          IO.println s!"SPECFAIL line={n} case={d.caseNo} clause={cl.name} op={pre.headD "?"}"
        d := { d with specfails := d.specfails + 1, caseFailed := true }
      | none => pure ()
      d := { d with sp := specNext d.sp op io }
      -- histogram
      d := match op with
        | .add _ _ => { d with adds := d.adds + 1 }
        | .result _ _ _ => { d with results := d.results + 1 }
        | .pump _ f => { d with pumps := d.pumps + 1, timerFired := d.timerFired + (if f then 1 else 0) }
        | .remove _ _ _ => { d with removes := d.removes + 1 }
        | .setPaused _ _ => { d with pauses := d.pauses + 1 }
      let cnt := fun (ev : Nat) => ((io.evs.filter (fun e => e.1 == ev)).map (·.2.2)).sum
      let trigIds := (io.evs.filter (fun e => e.1 == 3)).length
      let isPump := match op with | .pump _ _ => true | _ => false
      d := { d with triggered := d.triggered + cnt 3, startReq := d.startReq + cnt 1, endReq := d.endReq + cnt 2,
                    cascades := d.cascades + (if trigIds ≥ 2 then 1 else 0),
                    expired := d.expired + (if isPump then cnt 4 else 0),
                    refused := d.refused + (if io.rc == 2 then 1 else 0) }
      if (cnt 3 > 0 || cnt 4 > 0) && !d.caseNontrivial then
        d := { d with caseNontrivial := true, nontrivial := d.nontrivial + 1 }
      return { d with st := p.1 }
    | _, _ => IO.println s!"BADLINE line={n}"; return d

def main : IO Unit := do
  let stdin ← IO.getStdin
  let d ← foldLines stdin handle ({} : DSt)
  IO.println s!"STATS cases={d.caseNo} steps={d.steps} adds={d.adds} results={d.results} pumps={d.pumps} removes={d.removes} pauses={d.pauses} timerfired={d.timerFired} triggered={d.triggered} cascades={d.cascades} expired={d.expired} refused={d.refused} startreq={d.startReq} endreq={d.endReq} nontrivial={d.nontrivial} mismatches={d.mismatches} specfails={d.specfails}"

/-
  vd_c11 — replays the harness's lines through the C11 model (`relay`), compares what the node did, and evaluates
  the specification predicate `specCase` on the implementation's own observations.

  Input lines (stdin), see harness/c11.cpp:
    T <self> <alloc> <nz> <p..> <nep> <z..> | <iteration order of every zone's endpoints>
    R <conn> <client> <fromzone> <objzone> <kind> <log> | s=<eps> k=<eps> p=<0|1> oz=<zone|-> ts=<0|1> old=<n> bad=<n>
    D <conn> <from> <originzone> <objzone> <kind> | a=<0|1> s=<eps> p=<0|1> oz=<zone|-> ts=<0|1> old=<n> bad=<n> m=<ep>
    M <a> <b> <conn of a> <conn of b> | ma=<ep> mb=<ep>      both identities asked for their zone master (`specMasterPair`)
    E <conn> <from> <originzone> <objzone> <method> <var> | a= s= p= oz= ts= old= bad= x= m=
        one network step through a REAL cluster event handler; compared with `reRelay`, `specCase` with the origin of the wire message
    P <objzone> <kind> <del> <target> | p= r= x=             the replay path; compared with `replaySends`, `specReplay`
    L <conn> <client> <fromzone> <objzone> <kind> <target> <pre> <post> | s= k= p= lp= r= x=
        log positions across a reconnect (real SetLogPositionHandler, relay, RemoveClient/AddClient, ReplayLog); compared with `logRun`,
        `specLog` on what the reconnecting endpoint was handed
    Q <a> <b> <objzone> <kind> <target> <conn a> <conn b> | sa= pa= ra= ab= sb= pb= rb= x=
        the two members of a zone and one event; compared with `pairRun`, `specPair` on the copies handed over by the two together
    N <orig> <objzone> <kind> <matrix> <mode> | proc= disc= pers= sched= left= x=
        a whole propagation on the real code; compared with `start` / `deliver` along the same schedule, `specNet` / `specComplete` on the
        implementation's own history
    H <method> <passesOrigin> <o|n> / H rows <k>             handler table extracted from clusterevents.cpp, compared with `handlers`
        one network step through the real MessageHandler; compared with the model's `deliver` (originOf, accept, relay)
  Output lines:
    MISMATCH line=<n> case=<k> op=<sent|skipped|persist|originzone|ts|old|bad|order> impl=<..> model=<..>
    SPECFAIL line=<n> case=<k> clause=<name>
    BADLINE line=<n>
    STATS cases=.. steps=.. nontrivial=.. <branch histogram>
  The order reported on the T line is tried first; where the observation differs, every arrangement of every zone's
  endpoint set is tried (the code may iterate them in any order: allowed set, not single answer) and the case counts as
  `order_free` when one explains it; only otherwise a MISMATCH is printed.
  `case` numbers the T lines (a case = one node identity with its R lines); `steps` counts the R lines.

  With the argument `sim` the driver instead runs the NETWORK model on every topology of the input (T lines only):
  all originators x object zones x connectivity patterns (seeded) x delivery orders (FIFO, LIFO, seeded random),
  and evaluates `specNet` on the final state - a test of the composition theorems' statements, not a proof.
-/
import IcingaModel.Common.Proto
import IcingaModel.C11.Model
import IcingaModel.C11.Spec
import Std.Data.HashSet

open Icinga Icinga.C11 Icinga.Proto

structure TopoTxt where
  self : Ep
  parents : Array (Option Zone)
  globals : Array Bool
  zoneOf : Array Zone
  order : Array (List Ep)
  allParents : Array (List Zone) := #[]

def TopoTxt.topo (t : TopoTxt) (conn : Ep → Ep → Bool) (syncing : Ep → Ep → Bool := fun _ _ => false) : Topo :=
  { parent := fun z => match t.parents[z]? with | some p => p | none => none,
    isGlobal := fun z => match t.globals[z]? with | some g => g | none => false,
    zones := List.range t.parents.size,
    zoneOf := fun e => match t.zoneOf[e]? with | some z => z | none => t.parents.size,
    eps := fun _ z => match t.order[z]? with | some l => l | none => [],
    conn := conn, syncing := syncing }

def parseList (s : String) : Option (List Nat) :=
  if s == "-" then some [] else (s.splitOn ",").mapM parseNat?

def insertSorted (x : Nat) : List Nat → List Nat
  | [] => [x]
  | y :: ys => if x ≤ y then x :: y :: ys else y :: insertSorted x ys

def sortNat (l : List Nat) : List Nat := l.foldr insertSorted []

def showList (l : List Nat) : String :=
  if l.isEmpty then "-" else ",".intercalate (l.map toString)

def showOpt : Option Nat → String
  | none => "-"
  | some z => toString z

def parseTopo (pre post : List String) : Option TopoTxt := do
  match pre with
  | self :: _alloc :: nz :: rest =>
    let self ← parseNat? self
    let nz ← parseNat? nz
    if rest.length < nz + 1 then none
    let ps := rest.take nz
    let entries ← ps.mapM (fun p =>
      if p == "-" then some (none, false)
      else if p == "g" then some (none, true)
      else (parseNat? p).map (fun v => (some v, false)))
    let nep ← parseNat? (rest.getD nz "")
    let zs ← (rest.drop (nz + 1)).mapM parseNat?
    let orderToks := post.takeWhile (· ≠ ";")
    let parentToks := (post.dropWhile (· ≠ ";")).drop 1
    if zs.length != nep || orderToks.length != nz || (!parentToks.isEmpty && parentToks.length != nz) then none
    let order ← orderToks.mapM parseList
    let aps ← parentToks.mapM parseList
    pure { self := self, parents := (entries.map (·.1)).toArray, globals := (entries.map (·.2)).toArray,
           zoneOf := zs.toArray, order := order.toArray, allParents := aps.toArray }
  | _ => none

/-- the order the implementation reported must be an arrangement of exactly the configured members -/
def orderOk (t : TopoTxt) : Bool :=
  (List.range t.parents.size).all (fun z =>
    let members := (List.range t.zoneOf.size).filter (fun e => t.zoneOf[e]? == some z)
    sortNat (match t.order[z]? with | some l => l | none => []) == members)

def insertAll (x : Nat) : List Nat → List (List Nat)
  | [] => [[x]]
  | y :: ys => (x :: y :: ys) :: (insertAll x ys).map (y :: ·)

def perms : List Nat → List (List Nat)
  | [] => [[]]
  | x :: xs => (perms xs).flatMap (insertAll x)

/-- every arrangement of every zone's endpoint set (the code is free to iterate a `std::set<Endpoint::Ptr>` - or a
    rewritten container - in any order: DESIGN.md 0.3 "allowed sets"); capped -/
def allOrders (t : TopoTxt) : List (Array (List Ep)) :=
  let step := fun (acc : List (Array (List Ep))) (l : List Ep) =>
    ((perms l).flatMap (fun p => acc.map (fun a => a.push p))).take 20000
  t.order.toList.foldl step [#[]]

def isConnCh (c : Char) : Bool := c == '1' || c == '2' || c == 's' || c == 't'
def isSyncCh (c : Char) : Bool := c == 's' || c == 't'

def kvOf (ws : List String) (k : String) : Option String :=
  (ws.find? (fun w => w.startsWith (k ++ "="))).map (fun w => (w.drop (k.length + 1)).toString)

structure DSt where
  topo : Option TopoTxt := none
  topoTxt : String := ""
  caseNo : Nat := 0
  steps : Nat := 0
  mismatches : Nat := 0
  specfails : Nat := 0
  sends : Nat := 0
  skips : Nat := 0
  persisted : Nat := 0
  noTarget : Nat := 0          -- nothing sent, nothing skipped, not persisted
  bSelf : Nat := 0
  bDisc : Nat := 0
  bRelayed : Nat := 0
  bClient : Nat := 0
  bFromZone : Nat := 0
  bMaster : Nat := 0
  bSent : Nat := 0
  unrelated : Nat := 0
  globalObj : Nat := 0
  masterCases : Nat := 0
  originZoneSet : Nat := 0
  twoConn : Nat := 0
  parentChains : Nat := 0
  masterPairs : Nat := 0
  syncingCases : Nat := 0
  orderFree : Nat := 0           -- cases that agree with the model under another arrangement of the endpoint sets only
  dSteps : Nat := 0
  dAccepted : Nat := 0
  dDiscarded : Nat := 0
  dOriginFromField : Nat := 0    -- FromZone taken from the originZone field (sender is a zone peer)
  seen : Std.HashSet UInt64 := {}
  nontrivial : Nat := 0
  eSteps : Nat := 0              -- E lines: network steps through the real cluster event handlers
  eProcessed : Nat := 0
  eRelayed : Nat := 0            -- … that queued the event for somebody
  eMethods : List String := []   -- methods seen processed AND relayed
  pSteps : Nat := 0              -- P lines: the replay path
  pPersisted : Nat := 0
  pReplayed : Nat := 0
  pDeleted : Nat := 0
  lSteps : Nat := 0              -- L lines: log positions across a reconnect
  lPersisted : Nat := 0
  lReplayed : Nat := 0
  lServedLogged : Nat := 0       -- … the reconnecting endpoint was connected, deliberately skipped, and the event was logged
  lServedOldReport : Nat := 0    -- … and it then reported an OLDER position before it reconnected
  qSteps : Nat := 0              -- Q lines: two members of a zone and one event
  qBoth : Nat := 0               -- … the event reached the second member
  qCopies : Nat := 0             -- … the reconnecting endpoint got exactly one copy from the two
  qDouble : Nat := 0             -- … more than one
  nSteps : Nat := 0              -- N lines: whole propagations on the real code
  nDeliveries : Nat := 0
  nComplete : Nat := 0           -- … that met the completeness sentence's hypothesis
  nMaxProcessed : Nat := 0
  hRows : Nat := 0               -- rows of the handler table extracted from the source

/-- which guard decided for endpoint `e` of zone `cz` (for the branch histogram; replays the loop's `relayed`) -/
def histZone (T : Topo) (self : Ep) (o : Origin) (m : Option Ep) (cz : Zone) (d : DSt) : DSt :=
  let step := fun (acc : Bool × DSt) (e : Ep) =>
    let (relayed, d) := acc
    if e == self then (relayed, { d with bSelf := d.bSelf + 1 })
    else if !T.conn self e then (relayed, { d with bDisc := d.bDisc + 1 })
    else if relayed && cz != T.zoneOf self then (relayed, { d with bRelayed := d.bRelayed + 1 })
    else if o.client == some e then (relayed, { d with bClient := d.bClient + 1 })
    else if o.fromZone == some cz then (relayed, { d with bFromZone := d.bFromZone + 1 })
    else if m != some self && m != some e then (relayed, { d with bMaster := d.bMaster + 1 })
    else (true, { d with bSent := d.bSent + 1 })
  ((T.eps self cz).foldl step (false, d)).2

def hist (T : Topo) (self : Ep) (o : Origin) (objZone : Option Zone) (d : DSt) : DSt :=
  let tz := targetZone T self objZone
  let m := getMaster T self
  let d := if T.isGlobal tz then { d with globalObj := d.globalObj + 1 } else d
  let d := if m == some self then { d with masterCases := d.masterCases + 1 } else d
  (tz :: allParents T maxDepth tz).foldl (fun d z =>
    if !related T self z then { d with unrelated := d.unrelated + 1 }
    else (targetZones T self z).foldl (fun d cz => histZone T self o m cz d) d) d

def handle (d : DSt) (n : Nat) (line : String) : IO DSt := do
  let ws := words line
  match ws with
  | [] => return d
  | "T" :: rest =>
    let (pre, post) := splitBar rest
    match parseTopo pre post with
    | some t =>
      let mut d := { d with topo := some t, topoTxt := " ".intercalate pre, caseNo := d.caseNo + 1 }
      if !orderOk t then
        IO.println s!"MISMATCH line={n} case={d.caseNo} op=order impl={" ".intercalate post} model=arrangement-of-members"
        d := { d with mismatches := d.mismatches + 1 }
      -- Zone::GetAllParents() of every zone against the model's walk along `parent` (zone.cpp:24-46)
      if !t.allParents.isEmpty then
        let T0 := t.topo (fun _ _ => false)
        for z in List.range t.parents.size do
          let impl := t.allParents.getD z []
          let model := allParents T0 maxDepth z
          if impl != model then
            IO.println s!"MISMATCH line={n} case={d.caseNo} op=all_parents zone={z} impl={showList impl} model={showList model}"
            d := { d with mismatches := d.mismatches + 1 }
          d := { d with parentChains := d.parentChains + 1 }
      return d
    | none => IO.println s!"BADLINE line={n}"; return d
  | "R" :: rest =>
    let (pre, post) := splitBar rest
    match d.topo, pre with
    | some t, [conn, client, fz, oz, _kind, log] =>
      let connA := conn.toList.toArray
      let client? : Option (Option Ep) :=
        if client == "n" || client == "-" || client == "a" then some none else (parseNat? client).map some
      let fz? : Option (Option Zone) := if fz == "-" then some none else (parseNat? fz).map some
      let oz? : Option (Option Zone) := if oz == "-" then some none else (parseNat? oz).map some
      let obsOz? : Option (Option Zone) := match kvOf post "oz" with
        | some "-" => some none
        | some s => (parseNat? s).map some
        | none => none
      match client?, fz?, oz?, parseBool? log, (kvOf post "s").bind parseList, (kvOf post "k").bind parseList,
            (kvOf post "p").bind parseBool?, obsOz?, kvOf post "ts", kvOf post "old", kvOf post "bad" with
      | some cl, some fz, some oz, some log, some sent, some skipped, some persist, some obsOz, some ts, some old, some bad =>
        if connA.size != t.zoneOf.size then
          IO.println s!"BADLINE line={n}"; return d
        let connF := fun (_ : Ep) (e : Ep) => match connA[e]? with | some c => isConnCh c | none => false
        let syncF := fun (_ : Ep) (e : Ep) => match connA[e]? with | some c => isSyncCh c | none => false
        let T := t.topo connF syncF
        let self := t.self
        let obsMaster : Option Ep := (kvOf post "m").bind parseNat?
        let o : Origin := ⟨cl, fz⟩
        let c : Case := ⟨self, o, oz, log⟩
        let r := relay T self o oz log
        let mut d := { d with steps := d.steps + 1 }
        let mSent := sortNat (queued T self r)
        let mSkipped := sortNat r.skipped
        let agrees := fun (T : Topo) (r : Result) => sortNat (queued T self r) == sent && sortNat r.skipped == skipped && r.persist == persist && r.originZone == obsOz
        if !agrees T r then
          -- the model returns the allowed set: some arrangement of the endpoint sets must explain the observation
          if (allOrders t).any (fun ord => agrees ({ t with order := ord }.topo connF syncF) (relay ({ t with order := ord }.topo connF syncF) self o oz log)) then
            d := { d with orderFree := d.orderFree + 1 }
          else
            if mSent != sent then
              IO.println s!"MISMATCH line={n} case={d.caseNo} op=sent impl={showList sent} model={showList mSent}"
              d := { d with mismatches := d.mismatches + 1 }
            if mSkipped != skipped then
              IO.println s!"MISMATCH line={n} case={d.caseNo} op=skipped impl={showList skipped} model={showList mSkipped}"
              d := { d with mismatches := d.mismatches + 1 }
            if r.persist != persist then
              IO.println s!"MISMATCH line={n} case={d.caseNo} op=persist impl={showBool persist} model={showBool r.persist}"
              d := { d with mismatches := d.mismatches + 1 }
            if r.originZone != obsOz then
              IO.println s!"MISMATCH line={n} case={d.caseNo} op=originzone impl={showOpt obsOz} model={showOpt r.originZone}"
              d := { d with mismatches := d.mismatches + 1 }
        if ts != "1" then
          IO.println s!"MISMATCH line={n} case={d.caseNo} op=ts impl={ts} model=1"
          d := { d with mismatches := d.mismatches + 1 }
        -- SyncSendMessage's newest-connection rule: an endpoint with two connections (created at different times) gets the
        -- message on the newer one only; `old` counts the copies found on the older ones
        let stampsOf := fun (e : Ep) => match connA[e]? with
          | some '2' => [1, 2] | some 't' => [1, 2] | some '1' => [2] | some 's' => [2] | _ => []
        let mOld := r.sent.foldl (fun acc e => acc + ((syncSend (syncF self e) (stampsOf e)).filter (fun t => t != maxStamp (stampsOf e))).length) 0
        let mNewest := sortNat (r.sent.filter (fun e => (syncSend (syncF self e) (stampsOf e)).contains (maxStamp (stampsOf e))))
        if old != toString mOld || (mNewest != mSent) then
          IO.println s!"MISMATCH line={n} case={d.caseNo} op=old impl={old} model={mOld}"
          d := { d with mismatches := d.mismatches + 1 }
        if obsMaster.isSome && obsMaster != getMaster T self then
          IO.println s!"MISMATCH line={n} case={d.caseNo} op=master impl={showOpt obsMaster} model={showOpt (getMaster T self)}"
          d := { d with mismatches := d.mismatches + 1 }
        if connA.any isSyncCh then d := { d with syncingCases := d.syncingCases + 1 }
        if bad != "0" then
          IO.println s!"MISMATCH line={n} case={d.caseNo} op=bad impl={bad} model=0"
          d := { d with mismatches := d.mismatches + 1 }
        -- the property on the implementation's own observation
        match specCase maxDepth T c { sent := sent, persist := persist, originZone := obsOz, extraCopies := (parseNat? old).getD 1, master := obsMaster } with
        | some cl =>
          IO.println s!"SPECFAIL line={n} case={d.caseNo} clause={cl.name}"
          d := { d with specfails := d.specfails + 1 }
        | none => pure ()
        -- statistics
        d := hist T self o oz d
        d := { d with sends := d.sends + sent.length, skips := d.skips + skipped.length,
                      persisted := d.persisted + (if persist then 1 else 0),
                      originZoneSet := d.originZoneSet + (if obsOz.isSome then 1 else 0),
                      twoConn := d.twoConn + (if sent.any (fun e => connA[e]? == some '2') then 1 else 0) }
        if sent.isEmpty && skipped.isEmpty && !persist then
          d := { d with noTarget := d.noTarget + 1 }
        else
          let key := hash (d.topoTxt ++ "|" ++ " ".intercalate pre)
          if !d.seen.contains key then
            d := { d with seen := d.seen.insert key, nontrivial := d.nontrivial + 1 }
        return d
      | _, _, _, _, _, _, _, _, _, _, _ => IO.println s!"BADLINE line={n}"; return d
    | _, _ => IO.println s!"BADLINE line={n}"; return d
  | "M" :: rest =>
    let (pre, post) := splitBar rest
    match d.topo, pre with
    | some t, [a, b, ca, cb] =>
      match parseNat? a, parseNat? b, (kvOf post "ma").bind parseNat?, (kvOf post "mb").bind parseNat? with
      | some a, some b, some ma, some mb =>
        let caA := ca.toList.toArray
        let cbA := cb.toList.toArray
        if caA.size != t.zoneOf.size || cbA.size != t.zoneOf.size then
          IO.println s!"BADLINE line={n}"; return d
        let view := fun (s : Ep) => if s == a then caA else cbA
        let T := t.topo (fun s e => e != s && (match (view s)[e]? with | some c => isConnCh c | none => false))
                        (fun s e => e != s && (match (view s)[e]? with | some c => isSyncCh c | none => false))
        let mut d := { d with masterPairs := d.masterPairs + 1, steps := d.steps + 1 }
        if getMaster T a != some ma || getMaster T b != some mb then
          IO.println s!"MISMATCH line={n} case={d.caseNo} op=master-pair impl={ma},{mb} model={showOpt (getMaster T a)},{showOpt (getMaster T b)}"
          d := { d with mismatches := d.mismatches + 1 }
        match specMasterPair T a b (some ma) (some mb) with
        | some cl =>
          IO.println s!"SPECFAIL line={n} case={d.caseNo} clause={cl.name}"
          d := { d with specfails := d.specfails + 1 }
        | none => pure ()
        return d
      | _, _, _, _ => IO.println s!"BADLINE line={n}"; return d
    | _, _ => IO.println s!"BADLINE line={n}"; return d
  | "D" :: rest =>
    let (pre, post) := splitBar rest
    match d.topo, pre with
    | some t, [conn, frm, ozf, oz, _kind] =>
      let connA := conn.toList.toArray
      let ozf? : Option (Option Zone) := if ozf == "-" then some none else (parseNat? ozf).map some
      let obsOz? : Option (Option Zone) := match kvOf post "oz" with
        | some "-" => some none
        | some s => (parseNat? s).map some
        | none => none
      match parseNat? frm, ozf?, parseNat? oz, (kvOf post "a").bind parseNat?, (kvOf post "s").bind parseList,
            (kvOf post "p").bind parseBool?, obsOz?, kvOf post "ts", kvOf post "old", kvOf post "bad" with
      | some frm, some ozf, some oz, some acc, some sent, some persist, some obsOz, some ts, some old, some bad =>
        if connA.size != t.zoneOf.size then
          IO.println s!"BADLINE line={n}"; return d
        let connF := fun (_ : Ep) (e : Ep) => match connA[e]? with | some c => isConnCh c | none => false
        let syncF := fun (_ : Ep) (e : Ep) => match connA[e]? with | some c => isSyncCh c | none => false
        let T := t.topo connF syncF
        let self := t.self
        let obsMaster : Option Ep := (kvOf post "m").bind parseNat?
        let msg : Msg := ⟨self, frm, ozf⟩
        -- the model's `deliver` on a network whose only in-flight message is `msg`
        let net : Net := { inflight := [msg], processed := [], accepted := [], persisted := [], discarded := [] }
        let outcome := fun (T : Topo) =>
          let net' := deliver T oz net 0
          let mAcc := net'.processed.length
          let mOz : Option Zone := if mAcc == 1 then (originOf T msg).fromZone else none
          -- what is actually queued: SyncSendMessage leaves out the endpoints that are `syncing`
          (mAcc, sortNat ((net'.inflight.map (·.to)).filter (fun e => !T.syncing self e)), !net'.persisted.isEmpty, mOz)
        let (mAcc, mSent, mPersist, mOz) := outcome T
        let mut d := { d with dSteps := d.dSteps + 1, steps := d.steps + 1 }
        if (mAcc, mSent, mPersist, mOz) != (acc, sent, persist, obsOz) then
          if (allOrders t).any (fun ord => outcome ({ t with order := ord }.topo connF syncF) == (acc, sent, persist, obsOz)) then
            d := { d with orderFree := d.orderFree + 1 }
          else
            if mAcc != acc then
              IO.println s!"MISMATCH line={n} case={d.caseNo} op=accept impl={acc} model={mAcc}"
              d := { d with mismatches := d.mismatches + 1 }
            if mSent != sent then
              IO.println s!"MISMATCH line={n} case={d.caseNo} op=step-sent impl={showList sent} model={showList mSent}"
              d := { d with mismatches := d.mismatches + 1 }
            if mPersist != persist then
              IO.println s!"MISMATCH line={n} case={d.caseNo} op=step-persist impl={showBool persist} model={showBool mPersist}"
              d := { d with mismatches := d.mismatches + 1 }
            if mOz != obsOz then
              IO.println s!"MISMATCH line={n} case={d.caseNo} op=step-originzone impl={showOpt obsOz} model={showOpt mOz}"
              d := { d with mismatches := d.mismatches + 1 }
        if ts != "1" || old != "0" || bad != "0" then
          IO.println s!"MISMATCH line={n} case={d.caseNo} op=step-queue impl=ts:{ts},old:{old},bad:{bad} model=ts:1,old:0,bad:0"
          d := { d with mismatches := d.mismatches + 1 }
        if obsMaster.isSome && obsMaster != getMaster T self then
          IO.println s!"MISMATCH line={n} case={d.caseNo} op=master impl={showOpt obsMaster} model={showOpt (getMaster T self)}"
          d := { d with mismatches := d.mismatches + 1 }
        if connA.any isSyncCh then d := { d with syncingCases := d.syncingCases + 1 }
        -- the per-node sentences on the re-relay of an accepted event (origin as the real MessageHandler computed it)
        if acc == 1 then
          match specCase maxDepth T ⟨self, originOf T msg, some oz, true⟩
              { sent := sent, persist := persist, originZone := obsOz, extraCopies := (parseNat? old).getD 1, master := obsMaster } with
          | some cl =>
            IO.println s!"SPECFAIL line={n} case={d.caseNo} clause={cl.name}"
            d := { d with specfails := d.specfails + 1 }
          | none => pure ()
        -- the cluster-wide sentences on this step: an accepted event is never handed back to the sender or its zone
        if acc == 1 && sent.any (fun e => e == frm || (T.zoneOf frm != T.zoneOf self && T.zoneOf e == T.zoneOf frm)) then
          IO.println s!"SPECFAIL line={n} case={d.caseNo} clause=second_hop_no_echo"
          d := { d with specfails := d.specfails + 1 }
        d := { d with dAccepted := d.dAccepted + (if acc == 1 then 1 else 0), dDiscarded := d.dDiscarded + (if acc == 1 then 0 else 1),
                      dOriginFromField := d.dOriginFromField + (if T.zoneOf frm == T.zoneOf self && ozf.isSome then 1 else 0) }
        let key := hash (d.topoTxt ++ "|D " ++ " ".intercalate pre)
        if acc == 1 && !sent.isEmpty && !d.seen.contains key then
          d := { d with seen := d.seen.insert key, nontrivial := d.nontrivial + 1 }
        return d
      | _, _, _, _, _, _, _, _, _, _ => IO.println s!"BADLINE line={n}"; return d
    | _, _ => IO.println s!"BADLINE line={n}"; return d
  | "E" :: rest =>
    let (pre, post) := splitBar rest
    match d.topo, pre with
    | some t, [conn, frm, ozf, oz, method, _var] =>
      let connA := conn.toList.toArray
      let ozf? : Option (Option Zone) := if ozf == "-" then some none else (parseNat? ozf).map some
      let oz? : Option (Option Zone) := if oz == "-" then some none else (parseNat? oz).map some
      -- `!`: the queued copies disagree on the field
      let obsOz? : Option (Option (Option Zone)) := match kvOf post "oz" with
        | some "-" => some (some none)
        | some "!" => some none
        | some s => (parseNat? s).map (fun z => some (some z))
        | none => none
      match parseNat? frm, ozf?, oz?, findHandler method, (kvOf post "a").bind parseNat?, (kvOf post "s").bind parseList,
            (kvOf post "p").bind parseBool?, obsOz?, kvOf post "ts", kvOf post "old", kvOf post "bad" with
      | some frm, some ozf, some oz, some h, some acc, some sent, some persist, some obsOz, some ts, some old, some bad =>
        if connA.size != t.zoneOf.size then
          IO.println s!"BADLINE line={n}"; return d
        let connF := fun (_ : Ep) (e : Ep) => match connA[e]? with | some c => isConnCh c | none => false
        let syncF := fun (_ : Ep) (e : Ep) => match connA[e]? with | some c => isSyncCh c | none => false
        let T := t.topo connF syncF
        let self := t.self
        let obsMaster : Option Ep := (kvOf post "m").bind parseNat?
        let msg : Msg := ⟨self, frm, ozf⟩
        let mut d := { d with eSteps := d.eSteps + 1, steps := d.steps + 1 }
        if acc == 1 then
          -- the model's re-relay of the processed event
          let agrees := fun (T : Topo) =>
            let r := reRelay T h msg oz
            sortNat (queued T self r) == sent && some r.originZone == (if sent.isEmpty then some r.originZone else obsOz) && (!r.persist || persist)
          if !agrees T then
            if (allOrders t).any (fun ord => agrees ({ t with order := ord }.topo connF syncF)) then
              d := { d with orderFree := d.orderFree + 1 }
            else
              let r := reRelay T h msg oz
              if sortNat (queued T self r) != sent then
                IO.println s!"MISMATCH line={n} case={d.caseNo} op=event-sent method={method} impl={showList sent} model={showList (sortNat (queued T self r))}"
                d := { d with mismatches := d.mismatches + 1 }
              if !sent.isEmpty && some r.originZone != obsOz then
                IO.println s!"MISMATCH line={n} case={d.caseNo} op=event-originzone method={method} impl={(kvOf post "oz").getD "?"} model={showOpt r.originZone}"
                d := { d with mismatches := d.mismatches + 1 }
              if r.persist && !persist then
                IO.println s!"MISMATCH line={n} case={d.caseNo} op=event-persist method={method} impl=0 model=1"
                d := { d with mismatches := d.mismatches + 1 }
        else if !sent.isEmpty then
          IO.println s!"MISMATCH line={n} case={d.caseNo} op=event-relayed-unprocessed method={method} impl={showList sent} model=-"
          d := { d with mismatches := d.mismatches + 1 }
        if ts != "1" || bad != "0" then
          IO.println s!"MISMATCH line={n} case={d.caseNo} op=event-queue method={method} impl=ts:{ts},bad:{bad} model=ts:1,bad:0"
          d := { d with mismatches := d.mismatches + 1 }
        -- the property on what the REAL handler queued, with the origin the wire message defines.  A node that did not
        -- process the event owes nothing (completeness clauses off); what it queued nevertheless must still be safe.
        if acc == 1 || !sent.isEmpty then
          let c : Case := ⟨self, originOf T msg, h.objZone oz, acc == 1⟩
          let obsOzField : Option Zone := match obsOz with | some z => z | none => none
          let o : Obs := { sent := sent, persist := persist, originZone := if sent.isEmpty then (originOf T msg).fromZone else obsOzField,
                           extraCopies := (parseNat? old).getD 1, master := obsMaster }
          let verdict := if !sent.isEmpty && obsOz.isNone then some Clause.origin_zone_copied else specCase maxDepth T c o
          match verdict with
          | some cl =>
            if acc == 1 || cl != .forwarded_when_reachable then
              IO.println s!"SPECFAIL line={n} case={d.caseNo} clause={cl.name}@{method}"
              d := { d with specfails := d.specfails + 1 }
          | none => pure ()
          if sent.any (fun e => e == frm || (T.zoneOf frm != T.zoneOf self && T.zoneOf e == T.zoneOf frm)) then
            IO.println s!"SPECFAIL line={n} case={d.caseNo} clause=second_hop_no_echo@{method}"
            d := { d with specfails := d.specfails + 1 }
        if connA.any isSyncCh then d := { d with syncingCases := d.syncingCases + 1 }
        d := { d with eProcessed := d.eProcessed + (if acc == 1 then 1 else 0) }
        if acc == 1 && !sent.isEmpty then
          d := { d with eRelayed := d.eRelayed + 1, eMethods := if d.eMethods.contains method then d.eMethods else method :: d.eMethods }
          let key := hash (d.topoTxt ++ "|E " ++ " ".intercalate pre)
          if !d.seen.contains key then
            d := { d with seen := d.seen.insert key, nontrivial := d.nontrivial + 1 }
        return d
      | _, _, _, _, _, _, _, _, _, _, _ => IO.println s!"BADLINE line={n}"; return d
    | _, _ => IO.println s!"BADLINE line={n}"; return d
  | "P" :: rest =>
    let (pre, post) := splitBar rest
    match d.topo, pre with
    | some t, [oz, kind, del, target] =>
      let oz? : Option (Option Zone) := if oz == "-" then some none else (parseNat? oz).map some
      match oz?, parseBool? del, parseNat? target, (kvOf post "p").bind parseBool?, (kvOf post "r").bind parseNat?, (kvOf post "x").bind parseNat? with
      | some oz, some del, some target, some persist, some replayed, some others =>
        let self := t.self
        -- the node sees nobody while it relays; then `target` connects
        let T := t.topo (fun _ _ => false)
        let ro : RecObj := if kind == "n" then .absent else if del then .deleted else .present oz
        let mPersist := (relay T self Origin.loc oz true).persist
        let mReplayed := if mPersist && replaySends T self ro target then 1 else 0
        let mut d := { d with pSteps := d.pSteps + 1, steps := d.steps + 1 }
        if mPersist != persist then
          IO.println s!"MISMATCH line={n} case={d.caseNo} op=replay-persist impl={showBool persist} model={showBool mPersist}"
          d := { d with mismatches := d.mismatches + 1 }
        if mReplayed != replayed then
          IO.println s!"MISMATCH line={n} case={d.caseNo} op=replay impl={replayed} model={mReplayed}"
          d := { d with mismatches := d.mismatches + 1 }
        if others != 0 then
          IO.println s!"MISMATCH line={n} case={d.caseNo} op=replay-others impl={others} model=0"
          d := { d with mismatches := d.mismatches + 1 }
        match specReplay maxDepth T self (kind != "n") oz target (replayed != 0) with
        | some cl =>
          IO.println s!"SPECFAIL line={n} case={d.caseNo} clause={cl.name}"
          d := { d with specfails := d.specfails + 1 }
        | none => pure ()
        d := { d with pPersisted := d.pPersisted + (if persist then 1 else 0), pReplayed := d.pReplayed + (if replayed != 0 then 1 else 0),
                      pDeleted := d.pDeleted + (if del && persist then 1 else 0) }
        if replayed != 0 then
          let key := hash (d.topoTxt ++ "|P " ++ " ".intercalate pre)
          if !d.seen.contains key then
            d := { d with seen := d.seen.insert key, nontrivial := d.nontrivial + 1 }
        return d
      | _, _, _, _, _, _ => IO.println s!"BADLINE line={n}"; return d
    | _, _ => IO.println s!"BADLINE line={n}"; return d
  | "L" :: rest =>
    -- log positions across a reconnect: SetLogPositionHandler, the skipped endpoints of RelayMessageOne, ReplayLog
    let (pre, post) := splitBar rest
    match d.topo, pre with
    | some t, [conn, client, fz, oz, kind, target, rpre, rpost] =>
      let connA := conn.toList.toArray
      let client? : Option (Option Ep) := if client == "n" || client == "-" then some none else (parseNat? client).map some
      let fz? : Option (Option Zone) := if fz == "-" then some none else (parseNat? fz).map some
      let oz? : Option (Option Zone) := if oz == "-" then some none else (parseNat? oz).map some
      let ts : Int := 1000
      let pos? : String → Option (List Int) := fun s =>
        if s == "-" then some [] else s.toList.mapM (fun ch => if ch == 'b' then some (ts - 60) else if ch == 'e' then some ts else if ch == 'a' then some (ts + 1) else none)
      let lp? : Option Int := match kvOf post "lp" with
        | some "z" => some 0
        | some s => if s.startsWith "-" then (parseNat? (s.drop 1).toString).map (fun k => ts - (k : Int)) else (parseNat? s).map (fun k => ts + (k : Int))
        | none => none
      match client?, fz?, oz?, parseNat? target, pos? rpre, pos? rpost, (kvOf post "s").bind parseList, (kvOf post "k").bind parseList,
            (kvOf post "p").bind parseBool?, lp?, (kvOf post "r").bind parseNat?, (kvOf post "x").bind parseNat? with
      | some cl, some fz, some oz, some target, some rpre, some rpost, some sent, some skipped, some persist, some lp, some copies, some others =>
        if connA.size != t.zoneOf.size then
          IO.println s!"BADLINE line={n}"; return d
        let connF := fun (_ : Ep) (e : Ep) => match connA[e]? with | some c => isConnCh c | none => false
        let syncF := fun (_ : Ep) (e : Ep) => match connA[e]? with | some c => isSyncCh c | none => false
        let T := t.topo connF syncF
        let self := t.self
        let o : Origin := ⟨cl, fz⟩
        let c : Case := ⟨self, o, oz, true⟩
        let ro : RecObj := if kind == "n" then .absent else .present oz
        let run := fun (T : Topo) => logRun T self o oz true target rpre rpost ts ro
        let agrees := fun (T : Topo) => let m := run T
          sortNat (queued T self m.result) == sent && sortNat m.result.skipped == skipped && m.result.persist == persist &&
          m.lpos == lp && m.copies == copies
        let mut d := { d with lSteps := d.lSteps + 1, steps := d.steps + 1 }
        if !agrees T then
          if (allOrders t).any (fun ord => agrees ({ t with order := ord }.topo connF syncF)) then
            d := { d with orderFree := d.orderFree + 1 }
          else
            let m := run T
            if sortNat (queued T self m.result) != sent then
              IO.println s!"MISMATCH line={n} case={d.caseNo} op=log-sent impl={showList sent} model={showList (sortNat (queued T self m.result))}"
              d := { d with mismatches := d.mismatches + 1 }
            if sortNat m.result.skipped != skipped then
              IO.println s!"MISMATCH line={n} case={d.caseNo} op=log-skipped impl={showList skipped} model={showList (sortNat m.result.skipped)}"
              d := { d with mismatches := d.mismatches + 1 }
            if m.result.persist != persist then
              IO.println s!"MISMATCH line={n} case={d.caseNo} op=log-persist impl={showBool persist} model={showBool m.result.persist}"
              d := { d with mismatches := d.mismatches + 1 }
            if m.lpos != lp then
              IO.println s!"MISMATCH line={n} case={d.caseNo} op=log-position impl={lp - ts} model={m.lpos - ts}"
              d := { d with mismatches := d.mismatches + 1 }
            if m.copies != copies then
              IO.println s!"MISMATCH line={n} case={d.caseNo} op=log-replay impl={copies} model={m.copies}"
              d := { d with mismatches := d.mismatches + 1 }
        if others != 0 then
          IO.println s!"MISMATCH line={n} case={d.caseNo} op=log-others impl={others} model=0"
          d := { d with mismatches := d.mismatches + 1 }
        -- the property on the implementation's own observation
        match specLog maxDepth T c target (rpre ++ rpost) ts { sent := sent, persist := persist, copies := copies } with
        | some cl =>
          IO.println s!"SPECFAIL line={n} case={d.caseNo} clause={cl.name}"
          d := { d with specfails := d.specfails + 1 }
        | none => pure ()
        let served := concernedB maxDepth T c target && connF self target && !syncF self target && !sent.contains target
        d := { d with lPersisted := d.lPersisted + (if persist then 1 else 0), lReplayed := d.lReplayed + (if copies != 0 then 1 else 0),
                      lServedLogged := d.lServedLogged + (if served && persist then 1 else 0),
                      lServedOldReport := d.lServedOldReport + (if served && persist && rpost.getLast? == some (ts - 60) then 1 else 0) }
        if persist then
          let key := hash (d.topoTxt ++ "|L " ++ " ".intercalate pre)
          if !d.seen.contains key then
            d := { d with seen := d.seen.insert key, nontrivial := d.nontrivial + 1 }
        return d
      | _, _, _, _, _, _, _, _, _, _, _, _ => IO.println s!"BADLINE line={n}"; return d
    | _, _ => IO.println s!"BADLINE line={n}"; return d
  | "Q" :: rest =>
    -- the two members of a zone, one event, one endpoint that reconnects to both
    let (pre, post) := splitBar rest
    match d.topo, pre with
    | some t, [a, b, oz, _kind, target, ca, cb] =>
      match parseNat? a, parseNat? b, parseNat? oz, parseNat? target, (kvOf post "sa").bind parseList, (kvOf post "pa").bind parseBool?,
            (kvOf post "ra").bind parseNat?, (kvOf post "ab").bind parseNat?, (kvOf post "sb").bind parseList, (kvOf post "pb").bind parseBool?,
            (kvOf post "rb").bind parseNat?, (kvOf post "x").bind parseNat? with
      | some a, some b, some oz, some target, some sa, some pa, some ra, some ab, some sb, some pb, some rb, some others =>
        let caA := ca.toList.toArray
        let cbA := cb.toList.toArray
        if caA.size != t.zoneOf.size || cbA.size != t.zoneOf.size then
          IO.println s!"BADLINE line={n}"; return d
        let view := fun (s : Ep) => if s == a then caA else cbA
        let connF := fun (s e : Ep) => e != s && (match (view s)[e]? with | some c => isConnCh c | none => false)
        let ts : Int := 1000
        let agrees := fun (T : Topo) => let m := pairRun T a b oz target ts
          sortNat (queued T a m.a.result) == sa && m.a.result.persist == pa && m.a.copies == ra &&
          (match m.b with
           | some l => ab == 1 && sortNat (queued T b l.result) == sb && l.result.persist == pb && l.copies == rb
           | none => (ab == 0 && sb.isEmpty && !pb && rb == 0))
        let T := t.topo connF
        let mut d := { d with qSteps := d.qSteps + 1, steps := d.steps + 1 }
        if !agrees T then
          if (allOrders t).any (fun ord => agrees ({ t with order := ord }.topo connF)) then
            d := { d with orderFree := d.orderFree + 1 }
          else
            let m := pairRun T a b oz target ts
            let mb := match m.b with | some l => s!"sb={showList (sortNat (queued T b l.result))} pb={showBool l.result.persist} rb={l.copies}" | none => "b-not-reached"
            IO.println s!"MISMATCH line={n} case={d.caseNo} op=pair impl={" ".intercalate post} model=sa={showList (sortNat (queued T a m.a.result))} pa={showBool m.a.result.persist} ra={m.a.copies} {mb}"
            d := { d with mismatches := d.mismatches + 1 }
        if others != 0 then
          IO.println s!"MISMATCH line={n} case={d.caseNo} op=pair-others impl={others} model=0"
          d := { d with mismatches := d.mismatches + 1 }
        let o : PairObs := { sentA := sa, replayA := ra, sentB := sb, replayB := rb }
        match specPair maxDepth T a b oz target o with
        | some cl =>
          IO.println s!"SPECFAIL line={n} case={d.caseNo} clause={cl.name}"
          d := { d with specfails := d.specfails + 1 }
        | none => pure ()
        d := { d with qBoth := d.qBoth + (if ab == 1 then 1 else 0), qCopies := d.qCopies + (if o.copies target == 1 then 1 else 0),
                      qDouble := d.qDouble + (if o.copies target > 1 then 1 else 0) }
        if o.copies target != 0 then
          let key := hash (d.topoTxt ++ "|Q " ++ " ".intercalate pre)
          if !d.seen.contains key then
            d := { d with seen := d.seen.insert key, nontrivial := d.nontrivial + 1 }
        return d
      | _, _, _, _, _, _, _, _, _, _, _, _ => IO.println s!"BADLINE line={n}"; return d
    | _, _ => IO.println s!"BADLINE line={n}"; return d
  | "N" :: rest =>
    -- a whole propagation on the real code, node by node; compared with `start` / `deliver`, `specNet` / `specComplete` on the
    -- implementation's own history
    let (pre, post) := splitBar rest
    match d.topo, pre with
    | some t, [orig, oz, _kind, matrix, _mode] =>
      let rows := (matrix.splitOn "/").map (fun r => r.toList.toArray) |>.toArray
      let sched? : Option (List (Nat × Nat)) := match kvOf post "sched" with
        | some "-" => some []
        | some s => (s.splitOn ",").mapM (fun p => match p.splitOn "." with
            | [a, b] => match parseNat? a, parseNat? b with | some a, some b => some (a, b) | _, _ => none
            | _ => none)
        | none => none
      match parseNat? orig, parseNat? oz, (kvOf post "proc").bind parseList, (kvOf post "disc").bind parseNat?, (kvOf post "pers").bind parseList,
            sched?, (kvOf post "left").bind parseNat?, (kvOf post "x").bind parseNat? with
      | some orig, some oz, some proc, some disc, some pers, some sched, some left, some others =>
        let nep := t.zoneOf.size
        if rows.size != nep || rows.any (fun r => r.size != nep) then
          IO.println s!"BADLINE line={n}"; return d
        let connF := fun (s e : Ep) => e != s && (match rows[s]? with | some r => r[e]? == some '1' | none => false)
        let runModel := fun (T : Topo) => sched.foldl (fun (acc : Option Net) (p : Nat × Nat) => match acc with
            | none => none
            | some net => match net.inflight.findIdx? (fun m => m.to == p.1 && m.frm == p.2) with
              | some i => some (deliver T oz net i)
              | none => none) (some (start T orig oz))
        let agrees := fun (T : Topo) => match runModel T with
          | some net => net.processed == proc && net.discarded.length == disc && sortNat net.persisted == pers && net.inflight.length == left
          | none => false
        let T := t.topo connF
        let mut d := { d with nSteps := d.nSteps + 1, steps := d.steps + 1, nDeliveries := d.nDeliveries + sched.length }
        if !agrees T then
          if (allOrders t).any (fun ord => agrees ({ t with order := ord }.topo connF)) then
            d := { d with orderFree := d.orderFree + 1 }
          else
            let ms := match runModel T with
              | some net => s!"proc={showList net.processed} disc={net.discarded.length} pers={showList (sortNat net.persisted)} left={net.inflight.length}"
              | none => "a-delivery-the-model-has-no-message-for"
            IO.println s!"MISMATCH line={n} case={d.caseNo} op=net impl={" ".intercalate post} model={ms}"
            d := { d with mismatches := d.mismatches + 1 }
        if others != 0 then
          IO.println s!"MISMATCH line={n} case={d.caseNo} op=net-others impl={others} model=0"
          d := { d with mismatches := d.mismatches + 1 }
        -- the cluster-wide sentences on the implementation's own history (inside the property's quantifier: at most two endpoints
        -- per zone, symmetric connectivity)
        let allEps := List.range nep
        let nz := t.parents.size
        let inScope := (List.range nz).all (fun z => (allEps.filter (fun e => t.zoneOf[e]? == some z)).length ≤ 2) &&
          allEps.all (fun a => allEps.all (fun b => connF a b == connF b a))
        let hist : Net := { inflight := List.replicate left default, processed := proc, accepted := [], persisted := pers,
                            discarded := List.replicate disc default }
        if inScope then
          match specNet T allEps orig oz hist with
          | some cl =>
            IO.println s!"SPECFAIL line={n} case={d.caseNo} clause=net_{cl.name}"
            d := { d with specfails := d.specfails + 1 }
          | none => pure ()
          if left == 0 && mastersConnectedB T allEps (List.range nz) && netEntitledB T (T.zoneOf orig) oz (T.zoneOf orig) then
            d := { d with nComplete := d.nComplete + 1 }
            if !specComplete T allEps (List.range nz) orig oz hist then
              IO.println s!"SPECFAIL line={n} case={d.caseNo} clause=net_incomplete_when_connected"
              d := { d with specfails := d.specfails + 1 }
        d := { d with nMaxProcessed := max d.nMaxProcessed proc.length }
        if proc.length > 1 then
          let key := hash (d.topoTxt ++ "|N " ++ " ".intercalate pre)
          if !d.seen.contains key then
            d := { d with seen := d.seen.insert key, nontrivial := d.nontrivial + 1 }
        return d
      | _, _, _, _, _, _, _, _ => IO.println s!"BADLINE line={n}"; return d
    | _, _ => IO.println s!"BADLINE line={n}"; return d
  | "H" :: rest =>
    -- a row of the handler table as the translator reads it from lib/icinga/clusterevents.cpp
    match rest with
    | [method, passes, sec] =>
      let d := { d with hRows := d.hRows + 1 }
      let impl := s!"{passes},{sec}"
      match findHandler method with
      | some h =>
        let model := s!"{if h.passesOrigin then 1 else 0},{match h.sec with | .object => "o" | .none => "n"}"
        if impl != model then
          IO.println s!"MISMATCH line={n} case={d.caseNo} op=handler-table method={method} impl={impl} model={model}"
          return { d with mismatches := d.mismatches + 1 }
        return d
      | none =>
        IO.println s!"MISMATCH line={n} case={d.caseNo} op=handler-table method={method} impl={impl} model=absent"
        return { d with mismatches := d.mismatches + 1 }
    | ["rows", k] =>
      if parseNat? k != some handlers.length || d.hRows != handlers.length then
        IO.println s!"MISMATCH line={n} case={d.caseNo} op=handler-table method=* impl={k} model={handlers.length}"
        return { d with mismatches := d.mismatches + 1 }
      return d
    | _ => IO.println s!"BADLINE line={n}"; return d
  | _ => IO.println s!"BADLINE line={n}"; return d

/-! ### network simulation (`sim`) -/

structure Lcg where
  s : UInt64

def Lcg.next (g : Lcg) : Lcg × Nat :=
  let s := g.s * 6364136223846793005 + 1442695040888963407
  (⟨s⟩, (s >>> 33).toNat)

structure SimSt where
  topos : Nat := 0
  runs : Nat := 0
  deliveries : Nat := 0
  fails : Nat := 0
  maxProcessed : Nat := 0
  complete : Nat := 0         -- runs that meet the hypotheses of the completeness sentence
  beyondScope : Nat := 0      -- topologies with more than two endpoints in some zone (outside the property's quantifier)
  beyondScopeDups : Nat := 0  -- runs on those in which some endpoint processed the event twice (expected; informational)
  incomplete : Nat := 0       -- … in which an entitled endpoint did not process the event
  nontrivial : Nat := 0

/-- run to quiescence with the delivery order given by `mode` (0 FIFO, 1 LIFO, else seeded random) -/
def runAll (T : Topo) (oz : Zone) (mode : Nat) : Nat → Lcg → Net → Net × Nat
  | 0, _, n => (n, 0)
  | k + 1, g, n =>
    if n.inflight.isEmpty then (n, 0)
    else
      let (g, r) := g.next
      let i := if mode == 0 then 0 else if mode == 1 then n.inflight.length - 1 else r % n.inflight.length
      let (n', c) := runAll T oz mode k g (deliver T oz n i)
      (n', c + 1)

def simTopo (t : TopoTxt) (line : Nat) (seed : Nat) (npat : Nat) (st : SimSt) : IO SimSt := do
  let nep := t.zoneOf.size
  let nz := t.parents.size
  let allEps := List.range nep
  let inScope := (List.range nz).all (fun z => (allEps.filter (fun e => t.zoneOf[e]? == some z)).length ≤ 2)
  let mut st := { st with topos := st.topos + 1, beyondScope := st.beyondScope + (if inScope then 0 else 1) }
  let mut g : Lcg := ⟨(seed * 1000003 + line).toUInt64⟩
  -- connectivity patterns: everything connected, then seeded symmetric random ones
  for pat in List.range npat do
    let mut bits : Array Bool := Array.replicate (nep * nep) true
    if pat > 0 then
      for a in allEps do
        for b in allEps do
          if a < b then
            let (g', r) := g.next
            g := g'
            let v := r % 4 != 0 || pat == 1 && r % 2 == 0
            bits := bits.set! (a * nep + b) v
            bits := bits.set! (b * nep + a) v
    let bitsF := bits
    -- every node iterates the endpoints of a zone in its own order: reverse the reported order on odd nodes
    let T : Topo := { t.topo (fun a b => a != b && bitsF.getD (a * nep + b) false) with
      eps := fun self z => match t.order[z]? with
        | some l => if (self + pat) % 2 == 1 then l.reverse else l
        | none => [] }
    for orig in allEps do
      for oz in List.range nz do
        for mode in List.range 4 do
          let (g', _) := g.next
          g := g'
          let (fin, dl) := runAll T oz mode (4 * nep + 8) g (start T orig oz)
          st := { st with runs := st.runs + 1, deliveries := st.deliveries + dl,
                          maxProcessed := max st.maxProcessed fin.processed.length,
                          nontrivial := st.nontrivial + (if fin.processed.length > 2 then 1 else 0) }
          let bad := if !fin.inflight.isEmpty then some "not_quiescent" else (specNet T allEps orig oz fin).map (·.name)
          match bad with
          | some cl =>
            if inScope then
              st := { st with fails := st.fails + 1 }
              IO.println s!"SIMFAIL line={line} clause={cl} pattern={pat} orig={orig} objzone={oz} mode={mode} processed={showList fin.processed}"
            else
              st := { st with beyondScopeDups := st.beyondScopeDups + 1 }
          | none => pure ()
          -- completeness under the property's connectivity hypothesis (always met by pattern 0)
          if inScope && mastersConnectedB T allEps (List.range nz) && netEntitledB T (T.zoneOf orig) oz (T.zoneOf orig) then
            st := { st with complete := st.complete + 1 }
            if !specComplete T allEps (List.range nz) orig oz fin then
              st := { st with incomplete := st.incomplete + 1, fails := st.fails + 1 }
              IO.println s!"SIMFAIL line={line} clause=incomplete_when_connected pattern={pat} orig={orig} objzone={oz} mode={mode} processed={showList fin.processed}"
  return st

def handleSim (seed : Nat) (npat : Nat) (st : SimSt) (n : Nat) (line : String) : IO SimSt := do
  match words line with
  | "T" :: rest =>
    let (pre, post) := splitBar rest
    match parseTopo pre post with
    | some t => simTopo t n seed npat st
    | none => IO.println s!"BADLINE line={n}"; return st
  | _ => return st

def main (args : List String) : IO Unit := do
  let stdin ← IO.getStdin
  match args with
  | "sim" :: rest =>
    let seed := (rest.head?.bind parseNat?).getD 1
    let npat := ((rest.drop 1).head?.bind parseNat?).getD 6
    let st ← foldLines stdin (handleSim seed npat) ({} : SimSt)
    IO.println s!"SIMSTATS topologies={st.topos} runs={st.runs} deliveries={st.deliveries} fails={st.fails} complete_checked={st.complete} incomplete={st.incomplete} beyond_scope_topologies={st.beyondScope} beyond_scope_duplicates={st.beyondScopeDups} max_processed={st.maxProcessed} nontrivial={st.nontrivial}"
  | _ =>
    let d ← foldLines stdin handle ({} : DSt)
    IO.println s!"STATS cases={d.caseNo} steps={d.steps} nontrivial={d.nontrivial} sends={d.sends} skips={d.skips} persisted={d.persisted} no_target={d.noTarget} b_self={d.bSelf} b_disconnected={d.bDisc} b_second_endpoint={d.bRelayed} b_origin_client={d.bClient} b_origin_zone={d.bFromZone} b_not_master={d.bMaster} b_sent={d.bSent} unrelated_zone={d.unrelated} global_object={d.globalObj} as_master={d.masterCases} origin_zone_set={d.originZoneSet} newest_of_two={d.twoConn} net_steps={d.dSteps} net_accepted={d.dAccepted} net_discarded={d.dDiscarded} net_origin_from_field={d.dOriginFromField} order_free={d.orderFree} syncing_cases={d.syncingCases} master_pairs={d.masterPairs} parent_chains={d.parentChains} event_steps={d.eSteps} event_processed={d.eProcessed} event_relayed={d.eRelayed} event_methods_relayed={d.eMethods.length} replay_steps={d.pSteps} replay_persisted={d.pPersisted} replay_replayed={d.pReplayed} replay_deleted_persisted={d.pDeleted} log_steps={d.lSteps} log_persisted={d.lPersisted} log_replayed={d.lReplayed} log_served_and_logged={d.lServedLogged} log_served_logged_old_report={d.lServedOldReport} pair_steps={d.qSteps} pair_both={d.qBoth} pair_one_copy={d.qCopies} pair_double={d.qDouble} real_propagations={d.nSteps} real_deliveries={d.nDeliveries} real_complete_checked={d.nComplete} real_max_processed={d.nMaxProcessed} handler_rows={d.hRows} mismatches={d.mismatches} specfails={d.specfails}"

/-
  vd_c10 — replays the joined output of the two node processes of harness/c10.cpp through the C10 model
  (one `Node` per process), compares every observation and evaluates the specification predicate
  (`specStep`, the one the theorems are about) per object on the implementation's own observations.

  Input lines (names hex encoded, `-` = empty):
    C <layout N|S|P> <nExtra> <nameA> <nameB> <zone1> <zone2> [<extra>...]
    O <type> <ha> <active> <name>
    H <name>            | <sdbm> | <sdbm>
    B <node> <start>    | <obsA> | <obsB>        obs = `-` (node not started) or `p:pc:rc:sp:ex:st,...` per object
    K <node> <peer> <up> [<conn#>] | <obsA> | <obsB>     connection number conn# (default 0) attached / removed
    S <node> <start>    | <obsA> | <obsB>        restart through the state file
    U <node> <now>      | <obsA> | <obsB>
    X <node> <obj> <now>| <obsA> | <obsB>        two overlapping authority runs = one
    N <node> <now>      | <obsA> | <obsB>        notification requested
    D <node> <obj> <now>| <obsA> | <obsB>        object <obj> due for a check   (F: the same, its command held in flight until R)
    A <node> <obj> <now>| <obsA> | <obsB>        object <obj> deleted and created anew at runtime
    G <node> <obj> <now> [<how>] | <obsA> | <obsB>   object <obj> (a checkable) has to request a notification itself: suppressed-notifications
                                                     timer with one pending / acknowledgement / processed check result with a hard state change
    R <node> <now>      | <obsA> | <obsB>        held check released
    E <node> <peer> <b> | <obsA> | <obsB>        local endpoint state other than "connected" scrambled
    T <node> <now>      | f=<seq> <obs>... | f=- <obs>     seq over a (authority timer) / n (notification timer), or -
  Output: MISMATCH / SPECFAIL / BADLINE lines and a final STATS line.
-/
import IcingaModel.Common.Proto
import IcingaModel.C10.Model
import IcingaModel.C10.Spec

open Icinga Icinga.C10 Icinga.Proto

def hexVal (c : Char) : Option Nat :=
  if '0' ≤ c && c ≤ '9' then some (c.toNat - '0'.toNat)
  else if 'a' ≤ c && c ≤ 'f' then some (c.toNat - 'a'.toNat + 10)
  else none

def unhexAux : List Char → List UInt8 → Option (List UInt8)
  | [], acc => some acc.reverse
  | [_], _ => none
  | a :: b :: rest, acc =>
    match hexVal a, hexVal b with
    | some x, some y => unhexAux rest (UInt8.ofNat (x * 16 + y) :: acc)
    | _, _ => none

def unhex (s : String) : Option Name :=
  if s == "-" then some [] else unhexAux s.toList []

structure ImplObj where
  o : Obj
  setp : Nat
  deriving DecidableEq

def parseObj (s : String) : Option ImplObj :=
  match s.splitOn ":" with
  | [p, pc, rc, sp, ex, st] => do
    let p ← parseBool? p
    let pc ← parseNat? pc
    let rc ← parseNat? rc
    let sp ← parseNat? sp
    let ex ← parseNat? ex
    let st ← parseNat? st
    pure { o := { paused := p, pauses := pc, resumes := rc, execs := ex, stash := st }, setp := sp }
  | [p, pc, rc, sp, ex, st, rq] => do
    let p ← parseBool? p
    let pc ← parseNat? pc
    let rc ← parseNat? rc
    let sp ← parseNat? sp
    let ex ← parseNat? ex
    let st ← parseNat? st
    let rq ← parseNat? rq
    pure { o := { paused := p, pauses := pc, resumes := rc, execs := ex, stash := st, reqs := rq }, setp := sp }
  | _ => none

/-- `none` = unparsable, `some none` = node not started, `some (some l)` = observation. -/
def parseObs (s : String) : Option (Option (List ImplObj)) :=
  if s == "-" then some none
  else (s.splitOn ",").mapM parseObj |>.map some

def showObjs (l : List Obj) : String :=
  ",".intercalate (l.map fun o => s!"{showBool o.paused}:{o.pauses}:{o.resumes}:{o.pauses + o.resumes}:{o.execs}:{o.stash}:{o.reqs}")

def showImpl (l : List ImplObj) : String :=
  ",".intercalate (l.map fun i => s!"{showBool i.o.paused}:{i.o.pauses}:{i.o.resumes}:{i.setp}:{i.o.execs}:{i.o.stash}:{i.o.reqs}")

structure DSt where
  layout : Layout := .noZone
  layoutCh : String := "N"
  names : List Name := []           -- endpoint names: A, B, extras
  nExtra : Nat := 0
  cfgs : Array ObjCfg := #[]
  nodeA : Option Node := none
  nodeB : Option Node := none
  specs : Array SpecSt := #[]
  specOn : Bool := false
  caseNo : Nat := 0
  caseFailed : Bool := false
  caseSplit : Bool := false
  notes : List String := []         -- disagreements found while interpreting an event, printed by `finish`
  -- statistics
  steps : Nat := 0
  updates : Nat := 0
  timerFired : Nat := 0
  timerIdle : Nat := 0
  boots : Nat := 0
  links : Nat := 0
  hashes : Nat := 0
  hashNeg : Nat := 0
  objects : Nat := 0
  vKeep : Nat := 0
  vTrue : Nat := 0
  vFalse : Nat := 0
  settledRows : Nat := 0
  races : Nat := 0
  requests : Nat := 0
  ntimers : Nat := 0
  dues : Nat := 0
  notifExecs : Nat := 0
  checkExecs : Nat := 0
  silentChecks : Nat := 0
  releases : Nat := 0
  held : Nat := 0
  creates : Nat := 0
  fires : Nat := 0
  firesOnPaused : Nat := 0
  endpointScrambles : Nat := 0
  stateRestarts : Nat := 0
  specOffCases : Nat := 0
  extraConns : Nat := 0
  closedOneOfSeveral : Nat := 0
  casesN : Nat := 0
  casesS : Nat := 0
  casesP : Nat := 0
  casesExtra : Nat := 0
  objChecks : Nat := 0
  nontrivial : Nat := 0
  mismatches : Nat := 0
  specfails : Nat := 0

def sideIdx : Side → Nat | .A => 0 | .B => 1

def zoneFor (d : DSt) (s : Side) : Option (List Name) :=
  match d.layoutCh with
  | "N" => none
  | "S" => some [d.names.getD (sideIdx s) []]
  | _ => some d.names

def mkNode (d : DSt) (s : Side) (start : Int) : Node :=
  { zone := zoneFor d s, self := d.names.getD (sideIdx s) [], clients := [], start := start,
    objs := d.cfgs.toList.map fresh, updated := false, endpoint := d.layoutCh != "N" }

/-- Restart through the state file: new objects, the attributes with the `state` flag restored from the old ones. -/
def mkNodeFrom (d : DSt) (s : Side) (start : Int) (old : Option Node) (keeps : List Bool) : Node :=
  match old with
  | none => mkNode d s start
  | some o => { mkNode d s start with
      objs := List.zipWith (fun (cx : ObjCfg × Obj) k => restart cx.1 cx.2 k) (d.cfgs.toList.zip o.objs) keeps }

def getNode (d : DSt) : Side → Option Node | .A => d.nodeA | .B => d.nodeB
def setNode (d : DSt) (s : Side) (n : Option Node) : DSt :=
  match s with | .A => { d with nodeA := n } | .B => { d with nodeB := n }

def parseSide (s : String) : Option Side :=
  if s == "A" then some .A else if s == "B" then some .B else none

/-- Compare one node's model state with the implementation's observation. -/
def cmpNode (d : DSt) (n : Nat) (tag : String) (m : Option Node) (io : Option (List ImplObj)) : IO DSt := do
  match m, io with
  | none, none => return d
  | some node, some il =>
    let ok := node.objs.length == il.length &&
      -- compared: paused, #Pause(), #Resume(), #command executions.  NOT compared (internal bookkeeping the property does
      -- not speak about, DESIGN.md §0.3): the number of SetPaused notifications and the length of the stash
      (List.zipWith (fun (o : Obj) (i : ImplObj) =>
        o.paused == i.o.paused && o.pauses == i.o.pauses && o.resumes == i.o.resumes && o.execs == i.o.execs &&
        o.reqs == i.o.reqs) node.objs il).all id
    if ok then return { d with objChecks := d.objChecks + il.length }
    else
      IO.println s!"MISMATCH line={n} case={d.caseNo} node={tag} impl={showImpl il} model={showObjs node.objs}"
      return { d with mismatches := d.mismatches + 1 }
  | _, _ =>
    IO.println s!"MISMATCH line={n} case={d.caseNo} node={tag} started-differs"
    return { d with mismatches := d.mismatches + 1 }

/-- Verdict histogram of one authority run (model side, for the evidence). -/
def countVerdicts (d : DSt) (node : Node) (now : Int) : DSt := Id.run do
  let mut d := d
  for c in d.cfgs do
    if touched c then
      match authority node.zone node.self (connectedTo node.clients) node.start now c.name with
      | .keep => d := { d with vKeep := d.vKeep + 1 }
      | .set true => d := { d with vTrue := d.vTrue + 1 }
      | .set false => d := { d with vFalse := d.vFalse + 1 }
      | .undefined => pure ()
  return d

/-- Specification on the implementation's observations, object by object. -/
def runSpec (d : DSt) (n : Nat) (ef : Nat → Ev) (ia ib : Option (List ImplObj)) : IO DSt := do
  if !d.specOn then return d
  let mut d := d
  let mut specs := d.specs
  let mut anySettled := false
  let mut aAct := false
  let mut aPau := false
  for i in [0:d.cfgs.size] do
    let some c := d.cfgs[i]? | continue
    let some sp := specs[i]? | continue
    -- the stash length is internal bookkeeping: the specification sees the observations without it
    let oa := match ia with | some l => (l[i]?.map (fun x => { x.o with stash := 0 })).getD (fresh c) | none => fresh c
    let ob := match ib with | some l => (l[i]?.map (fun x => { x.o with stash := 0 })).getD (fresh c) | none => fresh c
    let e := ef i
    let (r, sp') := specStep d.layout c sp e oa ob
    -- evidence: work events that hit a paused object
    let prevOwn := match e.side with | .A => sp.a.prev | .B => sp.b.prev
    let isWork := match e with | .request _ => c.kind == .notification | .ntimer _ => c.kind == .notification | .due _ => c.kind == .checkable | .fire _ => c.kind == .checkable | _ => false
    if isWork && prevOwn.paused then d := { d with silentChecks := d.silentChecks + 1 }
    specs := specs.setIfInBounds i sp'
    if touched c && sp'.a.mode == .paired && sp'.b.mode == .paired then
      anySettled := true
      if oa.paused then aPau := true else aAct := true
    match r with
    | some cl =>
      if !d.caseFailed then
        IO.println s!"SPECFAIL line={n} case={d.caseNo} clause={cl.name} obj={i}"
      d := { d with specfails := d.specfails + 1, caseFailed := true }
    | none => pure ()
  d := { d with specs := specs }
  if anySettled then d := { d with settledRows := d.settledRows + 1 }
  if aAct && aPau && !d.caseSplit then
    d := { d with caseSplit := true, nontrivial := d.nontrivial + 1 }
  return d

def stripF (ws : List String) : Option Bool × List String :=
  match ws with
  | "f=1" :: r => (some true, r)
  | "f=0" :: r => (some false, r)
  | _ => (none, ws)

/-- Split `a b | c d | e f` at the bars. -/
def split3 (ws : List String) : List String × List String × List String :=
  let (p, r) := splitBar ws
  let (a, b) := splitBar r
  (p, a, b)

/-- Interpret one event line on the model: new driver state and the event as the specification sees it. -/
def applyEvent (d : DSt) (s : Side) (op : String) (pre : List String) (own : Option (List ImplObj) := none) :
    Option (DSt × (Nat → Ev)) :=
  let all (r : Option (DSt × Ev)) : Option (DSt × (Nat → Ev)) := r.map fun (d, e) => (d, fun _ => e)
  match op, pre with
  | "X", [_, _, _idx, now] =>
    -- two overlapping UpdateObjectAuthority() runs are ONE authority decision
    match parseInt? now, getNode d s with
    | some now, some node =>
      let d := countVerdicts d node now
      let d := setNode d s (some (node.update d.cfgs.toList now))
      some ({ d with updates := d.updates + 1, races := d.races + 1 }, fun _ => Ev.upd s now)
    | some _, none => some (d, fun _ => Ev.idle s)
    | none, _ => none
  | "N", [_, _, _now] =>
    match getNode d s with
    | some node =>
      let d := setNode d s (some (node.request d.cfgs.toList))
      some ({ d with requests := d.requests + 1 }, fun _ => Ev.request s)
    | none => some (d, fun _ => Ev.idle s)
  | "R", [_, _, _now] => some ({ d with releases := d.releases + 1 }, fun _ => Ev.idle s)
  -- local endpoint state other than "connected": no part of the model, must change nothing
  | "E", [_, _, _peer, _bits] => some ({ d with endpointScrambles := d.endpointScrambles + 1 }, fun _ => Ev.idle s)
  | "F", [_, _, idx, _now] =>
    -- a due check whose command is held in flight: for the property the same as D
    match parseNat? idx, getNode d s with
    | some idx, some node =>
      let d := setNode d s (some (node.due d.cfgs.toList idx))
      some ({ d with dues := d.dues + 1, held := d.held + 1 }, fun i => if i == idx then Ev.due s else Ev.idle s)
    | some _, none => some (d, fun _ => Ev.idle s)
    | none, _ => none
  | "D", [_, _, idx, _now] =>
    match parseNat? idx, getNode d s with
    | some idx, some node =>
      let d := setNode d s (some (node.due d.cfgs.toList idx))
      some ({ d with dues := d.dues + 1 }, fun i => if i == idx then Ev.due s else Ev.idle s)
    | some _, none => some (d, fun _ => Ev.idle s)
    | none, _ => none
  | "A", [_, _, idx, _now] =>
    -- the object is created at runtime: a new object; the model's stash of the old one goes with it
    match parseNat? idx, getNode d s with
    | some idx, some node =>
      let d := setNode d s (some (node.create d.cfgs.toList idx))
      some ({ d with creates := d.creates + 1 }, fun i => if i == idx then Ev.create s else Ev.idle s)
    | some _, none => some (d, fun _ => Ev.idle s)
    | none, _ => none
  | "G", _ :: _ :: idx :: _now :: _how =>
    -- how the checkable comes to request a notification itself (suppressed-notifications timer, acknowledgement, processed check
    -- result) makes no difference to the property: the member in charge of the checkable requests it, once, and no other
    match parseNat? idx, getNode d s with
    | some idx, some node =>
      let onPaused := match node.objs[idx]? with | some o => o.paused | none => false
      let d := setNode d s (some (node.fire d.cfgs.toList idx))
      some ({ d with fires := d.fires + 1, firesOnPaused := d.firesOnPaused + (if onPaused then 1 else 0) },
        fun i => if i == idx then Ev.fire s else Ev.idle s)
    | some _, none => some (d, fun _ => Ev.idle s)
    | none, _ => none
  | "Ta", [now] =>
    match parseInt? now, getNode d s with
    | some now, some node =>
      let d := countVerdicts d node now
      let d := setNode d s (some (node.update d.cfgs.toList now))
      some ({ d with updates := d.updates + 1, timerFired := d.timerFired + 1 }, fun _ => Ev.upd s now)
    | _, _ => none
  | "Tn", [_] =>
    match getNode d s with
    | some node =>
      let d := setNode d s (some (node.ntimer d.cfgs.toList))
      some ({ d with ntimers := d.ntimers + 1 }, fun _ => Ev.ntimer s)
    | none => none
  | "T-", [_] => some ({ d with timerIdle := d.timerIdle + 1 }, fun _ => Ev.idle s)
  | "S", [_, _, st] =>
    match parseInt? st with
    | some st =>
      -- a node that was not running has no state file: a plain start
      match getNode d s with
      | none =>
        let d := setNode d s (some (mkNode d s st))
        some ({ d with boots := d.boots + 1 }, fun _ => Ev.boot s st false)
      | some old =>
        -- oracle input (the property does not say which internal bookkeeping survives a restart): did the state file's entry
        -- find its object again?  (An object whose name is not valid UTF-8 does not: the file is JSON.)  Read off the stash.
        let stashes : List Nat := match own with | some l => l.map (·.o.stash) | none => old.objs.map (·.stash)
        let keeps := List.zipWith (fun (x : Obj) (k : Nat) => x.stash == k) old.objs stashes
        let bad := (List.zipWith (fun (x : Obj) (k : Nat) => k != 0 && k != x.stash) old.objs stashes).any id
        let d := if bad then { d with notes := "what=stash-after-restore" :: d.notes } else d
        let d := setNode d s (some (mkNodeFrom d s st (some old) keeps))
        some ({ d with boots := d.boots + 1, stateRestarts := d.stateRestarts + 1 }, fun i => Ev.boot s st (keeps.getD i false))
    | none => none
  | _, _ => all <| match op, pre with
  | "B", [_, _, st] =>
    match parseInt? st with
    | some st =>
      let d := setNode d s (some (mkNode d s st))
      some ({ d with boots := d.boots + 1 }, Ev.boot s st false)
    | none => none
  | "K", _ :: _ :: peer :: up :: rest =>
    let cn : Option Nat := match rest with | [] => some 0 | [c] => parseNat? c | _ => none
    match parseNat? peer, parseBool? up, cn with
    | some peer, some up, some cn =>
      let d := { d with links := d.links + 1 }
      match getNode d s with
      | some node =>
        if d.layoutCh != "N" && peer < d.names.length && peer != sideIdx s then
          let pn := d.names.getD peer []
          let node' := node.link pn cn up
          let d := if up && connectedTo node.clients pn && node'.clients.length > node.clients.length
            then { d with extraConns := d.extraConns + 1 } else d
          let d := if !up && connectedTo node'.clients pn && node'.clients.length < node.clients.length
            then { d with closedOneOfSeveral := d.closedOneOfSeveral + 1 } else d
          let d := setNode d s (some node')
          -- a further member of the zone (one that never runs as a process) becomes visible: from here on the case is outside the
          -- two-member specification (theorem `unseen_members_do_not_matter` covers it up to here); the model comparison goes on
          let d := if peer ≥ 2 && up then { d with specOn := false, specOffCases := d.specOffCases + (if d.specOn then 1 else 0) } else d
          if peer == 1 - sideIdx s then some (d, Ev.link s cn up) else some (d, Ev.idle s)
        else some (d, Ev.idle s)
      | none => some (d, Ev.idle s)
    | _, _, _ => none
  | "U", [_, _, now] =>
    match parseInt? now, getNode d s with
    | some now, some node =>
      let d := countVerdicts d node now
      let d := setNode d s (some (node.update d.cfgs.toList now))
      some ({ d with updates := d.updates + 1 }, Ev.upd s now)
    | some _, none => some (d, Ev.idle s)
    | none, _ => none
  | _, _ => none

/-- Compare both nodes, run the specification, resynchronise the model on the implementation after a
    disagreement (so that one divergence is reported once). -/
def finish (d : DSt) (n : Nat) (ef : Nat → Ev) (ia ib : Option (List ImplObj)) : IO DSt := do
  let mut d := d
  for note in d.notes do
    IO.println s!"MISMATCH line={n} case={d.caseNo} {note}"
    d := { d with mismatches := d.mismatches + 1 }
  d := { d with notes := [] }
  d ← cmpNode d n "A" d.nodeA ia
  d ← cmpNode d n "B" d.nodeB ib
  d ← runSpec d n ef ia ib
  let resync (m : Option Node) (io : Option (List ImplObj)) : Option Node :=
    match m, io with
    | some node, some il => some { node with objs := List.zipWith (fun (m : Obj) (i : ImplObj) => { i.o with stash := m.stash }) node.objs il }
    | m, _ => m
  return { d with nodeA := resync d.nodeA ia, nodeB := resync d.nodeB ib }

def handle (d : DSt) (n : Nat) (line : String) : IO DSt := do
  let ws := words line
  let bad : IO DSt := do IO.println s!"BADLINE line={n}"; return d
  match ws with
  | [] => return d
  | "C" :: lay :: nx :: rest =>
    match parseNat? nx, rest.mapM unhex with
    | some nx, some ns =>
      if ns.length != 4 + nx then bad else
      let eps := (ns.take 2) ++ (ns.drop 4)
      let layout := match lay with | "N" => Layout.noZone | "S" => Layout.single | _ => Layout.pair
      let eps := if lay == "P" then eps else eps.take 2
      let d := { d with layout := layout, layoutCh := lay, names := eps, nExtra := (if lay == "P" then nx else 0),
                        cfgs := #[], nodeA := none, nodeB := none, specs := #[],
                        specOn := true, caseNo := d.caseNo + 1, caseFailed := false, caseSplit := false }
      let d := match lay with
        | "N" => { d with casesN := d.casesN + 1 }
        | "S" => { d with casesS := d.casesS + 1 }
        | _ => if nx > 0 then { d with casesExtra := d.casesExtra + 1 } else { d with casesP := d.casesP + 1 }
      return d
    | _, _ => bad
  | ["O", ty, ha, act, nm] =>
    match parseBool? ha, parseBool? act, unhex nm with
    | some ha, some act, some nm =>
      let kind := if ty == "n" then Kind.notification else if ty == "h" || ty == "s" then Kind.checkable else Kind.other
      let c : ObjCfg := { name := nm, runOnce := !ha, active := act, kind := kind }
      return { d with cfgs := d.cfgs.push c, specs := d.specs.push (specInit c), objects := d.objects + 1 }
    | _, _, _ => bad
  | "H" :: nm :: rest =>
    let (_, a, b) := split3 ("H" :: nm :: rest)
    match unhex nm, a, b with
    | some nm, [ha], [hb] =>
      let m := toString (sdbm nm).toNat
      let d := { d with hashes := d.hashes + 1, hashNeg := d.hashNeg + (if nm.any (fun c => c.toNat ≥ 128) then 1 else 0) }
      if ha != m || hb != m then
        IO.println s!"MISMATCH line={n} case={d.caseNo} what=sdbm implA={ha} implB={hb} model={m}"
        return { d with mismatches := d.mismatches + 1 }
      else return d
    | _, _, _ => bad
  | op :: sd :: rest0 =>
    let (pre, a, b) := split3 (op :: sd :: rest0)
    match parseSide sd with
    | none => bad
    | some s =>
      let d := { d with steps := d.steps + 1 }
      if op == "T" then
        -- `f=<seq> obs...` on the addressed node, `f=- obs` on the other one
        let (own, oth) := match s with | .A => (a, b) | .B => (b, a)
        match own, oth, pre with
        | fseq :: obsOwn, [_, obsOth], [_, _, now] =>
          let seq := (fseq.drop 2).toString.toList
          match obsOwn.mapM parseObs, parseObs obsOth with
          | some ownL, some io =>
            let subs : List (String × Option (List ImplObj)) :=
              if seq == ['-'] then ownL.map (fun o => ("T-", o))
              else List.zipWith (fun ch o => ("T" ++ ch.toString, o)) seq ownL
            if subs.isEmpty || (seq != ['-'] && seq.length != ownL.length) then bad else
            let mut d := d
            for (sub, iown) in subs do
              let (ia, ib) := match s with | .A => (iown, io) | .B => (io, iown)
              match applyEvent d s sub [now] with
              | none => IO.println s!"BADLINE line={n}"
              | some (d0, ef) => d ← finish d0 n ef ia ib
            return d
          | _, _ => bad
        | _, _, _ => bad
      else
        match a, b with
        | [oa], [ob] =>
          match parseObs oa, parseObs ob with
          | some ia, some ib =>
            match applyEvent d s op pre (match s with | .A => ia | .B => ib) with
            | none => bad
            | some (d0, ef) => finish d0 n ef ia ib
          | _, _ => bad
        | _, _ => bad
  | _ => bad

def main : IO Unit := do
  let stdin ← IO.getStdin
  let d ← foldLines stdin handle ({} : DSt)
  IO.println s!"STATS cases={d.caseNo} steps={d.steps} updates={d.updates} timer_fired={d.timerFired} timer_idle={d.timerIdle} boots={d.boots} links={d.links} hashes={d.hashes} hashes_with_negative_char={d.hashNeg} objects={d.objects} object_observations={d.objChecks} verdict_keep={d.vKeep} verdict_true={d.vTrue} verdict_false={d.vFalse} settled_rows={d.settledRows} races={d.races} requests={d.requests} notification_timer_runs={d.ntimers} due_checks={d.dues} work_events_on_paused_object={d.silentChecks} checks_held_in_flight={d.held} runtime_creations={d.creates} suppressed_timer_runs_with_pending={d.fires} suppressed_timer_runs_on_paused_checkable={d.firesOnPaused} endpoint_state_scrambles={d.endpointScrambles} restarts_via_state_file={d.stateRestarts} further_connections_attached={d.extraConns} one_of_several_connections_closed={d.closedOneOfSeveral} cases_nozone={d.casesN} cases_single={d.casesS} cases_pair={d.casesP} cases_pair_extra={d.casesExtra} cases_pair_extra_left_to_model_comparison={d.specOffCases} nontrivial={d.nontrivial} mismatches={d.mismatches} specfails={d.specfails}"

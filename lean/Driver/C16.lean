/-
  vd_c16 — replays the harness's lines through the C16 model, compares the observations and evaluates the
  specification predicates on the implementation's own observations.

  Input lines (stdin), see harness/c16.cpp and the header of IcingaModel/C16/Spec.lean:
    C <n> <tag>                                       | boundH=<names> boundS=<names>   (names EvaluateFilter binds, by reflection)
    K <NAME> <val>
    U <name> <val>                                    (top-level `var`, captured by rules with u=<name,..>)
    H <name> <os> <groups> <arr> <dict> <mix> [j=<pec>]
    S <host> <short> <os> <groups> <arr> <dict> <mix> [j=<pec>]   (joins set: check_period, event_command, command_endpoint)
    O <i> <dsl text ...>                              | h=<bits> s=<bits>          (oracle: value of atom i per target)
    R <id> <src> <tgt> <name> <for> <fk> <fv> <bodyhost> [a=<expr>].. [i=<expr>].. [u=<name,..>]..
        the a= / i= tokens are the `assign where` / `ignore where` statements of the rule body, in source order
    L <concs> [q][x] [late=<h>,<h>!<s>..]             | p1=<res> w1=<res> [p16=<res> w16=<res>] [q1=<res>] [x1=<res>] [l1=<res>]
        l1: the named hosts (with their services) and services committed in a second stage, same process
        q1 / x1: the permuted text (rules reversed, statements inside each rule reversed, objects reversed) as written / wrapped
    A <H|S> <expr> <fv> [p=<expr>]                    | ... pb=<bits>   (restricted ApiUser: truth of the permission filter per object)
    A <H|S> <expr> <fv>                               | fast=<ares> slow=<ares> dups=<n> nf=<n> ns=<n> qf=<cnt> qs=<cnt> af=<cnt> as=<cnt>
        nf/ns: entries GetFilterTargets returned (-1: raised); qf/qs, af/as: entries of `results` of GET /v1/objects/<type> and
        POST /v1/actions/reschedule-check through HttpHandler::ProcessRequest (e<status>: status other than 200)
  Output lines:
    MISMATCH line=<n> case=<k> what=<...> impl=<...> model=<...>
    SPECFAIL line=<n> case=<k> clause=<name>
    BADLINE line=<n>
    STATS cases=.. steps=.. ...
-/
import Std.Data.HashSet
import IcingaModel.Common.Proto
import IcingaModel.C16.Model
import IcingaModel.C16.Spec

open Icinga Icinga.C16 Icinga.Proto

/-! ### parsing -/

def parseVal (s : String) : Option Val :=
  match s.toList with
  | ['T'] => some (.bool true)
  | ['F'] => some (.bool false)
  | ['N'] => some .empty
  | '\'' :: cs => some (.str (String.ofList cs))
  | '#' :: cs => (String.ofList cs).toInt?.map Val.num
  | _ => none

def showVal : Val → String
  | .empty => "-"
  | .bool true => "T"
  | .bool false => "F"
  | .num n => s!"#{n}"
  | .str s => "'" ++ s
  | _ => "?"

def splitC (s : String) : List String := if s == "" then [] else s.splitOn ","

def parseVals (s : String) : Option (List Val) :=
  if s == "e" then some [] else (splitC s).mapM parseVal

def parseKVs (s : String) : Option (List (String × Val)) :=
  if s == "e" then some [] else
  (splitC s).mapM fun kv =>
    match kv.splitOn "=" with
    | k :: rest => if rest.isEmpty then none else (parseVal ("=".intercalate rest)).map fun v => (k, v)
    | _ => none

/-- `vars.arr` / `vars.dict` / `vars.mix` of an inventory object as the value a `for` term sees -/
structure VarsRec where
  arr : ForVal := .other
  dict : ForVal := .other
  mix : ForVal := .other

def parseVarsRec (arr dict mix : String) : Option VarsRec := do
  let a ← if arr == "-" then some ForVal.other else (parseVals arr).map ForVal.arr
  let d ← if dict == "-" then some ForVal.other else (parseKVs dict).map ForVal.dict
  let m ← if mix == "-" then some ForVal.other
          else if mix.startsWith "a:" then (parseVals (mix.drop 2).toString).map ForVal.arr
          else if mix.startsWith "d:" then (parseKVs (mix.drop 2).toString).map ForVal.dict
          else none
  return { arr := a, dict := d, mix := m }

def takeUntilSemi : List Char → List Char → Option (String × List Char)
  | [], _ => none
  | ';' :: rest, acc => some (String.ofList acc.reverse, rest)
  | c :: rest, acc => takeUntilSemi rest (c :: acc)

def parseExprF : Nat → List Char → Option (Expr × List Char)
  | 0, _ => none
  | fuel + 1, cs =>
    match cs with
    | 'T' :: r => some (.lit (.bool true), r)
    | 'F' :: r => some (.lit (.bool false), r)
    | 'N' :: r => some (.lit .empty, r)
    | '\'' :: r => (takeUntilSemi r []).map fun (s, r') => (.lit (.str s), r')
    | '#' :: r => (takeUntilSemi r []).bind fun (s, r') => s.toInt?.map fun n => (.lit (.num n), r')
    | '$' :: r => (takeUntilSemi r []).map fun (s, r') => (.var s, r')
    | '@' :: r => (takeUntilSemi r []).bind fun (s, r') => s.toNat?.map fun n => (.other n, r')
    | '(' :: r => parseExprF fuel r
    | '!' :: r => (parseExprF fuel r).map fun (a, r') => (.not a, r')
    | c :: r =>
      let mk : Option (Expr → Expr → Expr) :=
        if c == '.' then some Expr.idx else if c == '=' then some Expr.eq else if c == '~' then some Expr.ne
        else if c == '&' then some Expr.and else if c == '|' then some Expr.or else none
      match mk with
      | none => none
      | some f =>
        (parseExprF fuel r).bind fun (a, r1) => (parseExprF fuel r1).map fun (b, r2) => (f a b, r2)
    | [] => none

def parseExpr (s : String) : Option Expr :=
  match parseExprF (s.length + 1) s.toList with
  | some (e, []) => some e
  | _ => none

def parseSrc : String → Option SrcType
  | "S" => some .service | "N" => some .notification | "D" => some .dependency | "T" => some .scheduledDowntime
  | _ => none

def srcName : SrcType → String
  | .service => "Service" | .notification => "Notification" | .dependency => "Dependency"
  | .scheduledDowntime => "ScheduledDowntime"

def parseSrcName : String → Option SrcType
  | "Service" => some .service | "Notification" => some .notification | "Dependency" => some .dependency
  | "ScheduledDowntime" => some .scheduledDowntime | _ => none

def parseTgt : String → Option TgtType
  | "H" => some .host | "S" => some .service | _ => none

/-- `1` truthy, `0` falsy, `E` raised -/
def parseTri (s : String) (n : Nat) : Option (List (Option Val)) :=
  if s == "-" then (if n == 0 then some [] else none) else
  let cs := s.toList
  if cs.length != n then none else
  cs.mapM fun c => if c == '1' then some (some (.bool true)) else if c == '0' then some (some (.bool false))
                   else if c == 'E' then some none else none

def sortStrs (l : List String) : List String := l.mergeSort (fun a b => decide (a ≤ b))

def dedup (l : List String) : List String := l.foldr (fun s acc => if acc.contains s then acc else s :: acc) []

def kvOf (ws : List String) (key : String) : Option String :=
  ws.findSome? fun w => if w.startsWith (key ++ "=") then some ((w.drop (key.length + 1)).toString) else none

/-! ### driver state -/

structure RuleRec where
  id : Nat
  rule : Rule
  bodyHost : Bool
  stmts : List Stmt := []

structure DSt where
  consts : List (String × Val) := []
  uvars : List (String × Val) := []
  joins : List (Val × String) := []
  navH : List String := defaultNavNames .host
  navS : List String := defaultNavNames .service
  hosts : List (String × VarsRec) := []
  services : List ((String × String) × VarsRec) := []
  atoms : List (Nat × List (Option Val) × List (Option Val)) := []
  rules : List RuleRec := []
  caseNo : Nat := 0
  caseHash : UInt64 := 7
  caseNontrivial : Bool := false
  seen : Std.HashSet UInt64 := {}
  nontrivial : Nat := 0
  steps : Nat := 0
  loads : Nat := 0
  loadRuns : Nat := 0
  rulesTargeted : Nat := 0
  rulesRegular : Nat := 0
  rulesFor : Nat := 0
  rulesShadow : Nat := 0
  rulesIgnore : Nat := 0
  createdIndexed : Nat := 0
  createdByIndex : Nat := 0
  rejIndexed : Nat := 0
  rejPlain : Nat := 0
  diverge : Nat := 0
  specSilent : Nat := 0
  cascade : Nat := 0
  cascadeCreated : Nat := 0
  rulesUse : Nat := 0
  boundChecked : Nat := 0
  navDiffers : Nat := 0
  apiCollide : Nat := 0
  apiCollideNav : Nat := 0
  apiCollideRecognised : Nat := 0
  api : Nat := 0
  apiFast : Nat := 0
  apiFastNonEmpty : Nat := 0
  apiDups : Nat := 0
  apiErr : Nat := 0
  apiDiverge : Nat := 0
  apiCounts : Nat := 0
  apiHttpDown : Nat := 0
  apiMultFast : Nat := 0
  permRuns : Nat := 0
  permModelDiffers : Nat := 0
  rulesInterleaved : Nat := 0
  rulesMultiStmt : Nat := 0
  lateRuns : Nat := 0
  lateOnlyRules : Nat := 0
  lateOnlyIndexed : Nat := 0
  leakCases : Nat := 0
  leakReads : Nat := 0
  apiPerm : Nat := 0
  apiPermSkipped : Nat := 0
  apiPermDeniedNamed : Nat := 0
  evals : Nat := 0
  mismatches : Nat := 0
  specfails : Nat := 0
  badlines : Nat := 0

def closeCase (d : DSt) : DSt :=
  if d.caseNontrivial && !d.seen.contains d.caseHash then
    { d with seen := d.seen.insert d.caseHash, nontrivial := d.nontrivial + 1, caseNontrivial := false }
  else { d with caseNontrivial := false }

def bad (d : DSt) (n : Nat) : IO DSt := do
  IO.println s!"BADLINE line={n}"
  return { d with badlines := d.badlines + 1 }

def inventory (d : DSt) : Inventory :=
  { hosts := d.hosts.map (·.1), services := d.services.map (·.1) }

def indexOf? {α : Type} [BEq α] (l : List α) (a : α) : Option Nat :=
  let i := l.findIdx (· == a)
  if i < l.length then some i else none

/-- The `World` of the case: globals are the `K` constants; an atom's value on a target is the recorded
    oracle bit; every field access the model does not decide raises (the generator emits none outside atoms, except `__name`). -/
def world (d : DSt) : World :=
  { globals := fun x => d.consts.lookup x
    other := fun t _ _ i =>
      match d.atoms.lookup i with
      | none => none
      | some (hb, sb) =>
        match t with
        | .host n => ((indexOf? (d.hosts.map (·.1)) n).bind fun k => hb[k]?).join
        | .service h s => ((indexOf? (d.services.map (·.1)) (h, s)).bind fun k => sb[k]?).join
        | _ => none
    field := fun c i =>
      match c, i with
      | .host n, .str "__name" => some (.str n)
      | .service h s, .str "__name" => some (.str (h ++ "!" ++ s))
      | _, _ => none
    nav := fun t n =>
      let j := (d.joins.lookup t).getD ""
      if n == "check_command" then .object "CheckCommand" "dummy"
      else if n == "check_period" && j.contains 'p' then .object "TimePeriod" "tp"
      else if n == "event_command" && j.contains 'e' then .object "EventCommand" "ecmd"
      else if n == "command_endpoint" && j.contains 'c' then .object "Endpoint" "ep"
      else .empty
    navNames := fun ty => match ty with
      | .host => d.navH
      | .service => d.navS }

def varsOfHost (d : DSt) (n : String) : VarsRec := (d.hosts.lookup n).getD {}
def varsOfService (d : DSt) (h s : String) : VarsRec := (d.services.lookup (h, s)).getD {}

def pick (which : String) (v : VarsRec) : ForVal :=
  if which == "arr" then v.arr else if which == "dict" then v.dict else v.mix

def mkFterm (d : DSt) (tok : String) : Option (Option (Val → ForVal)) :=
  if tok == "-" then some none
  else if tok.startsWith "L:" then (parseVals (tok.drop 2).toString).map fun l => some fun _ => .arr l
  else if tok.startsWith "M:" then (parseKVs (tok.drop 2).toString).map fun l => some fun _ => .dict l
  else if tok == "arr" || tok == "dict" || tok == "mix" then
    some (some fun t => match t with
      | .host n => pick tok (varsOfHost d n)
      | .service h s => pick tok (varsOfService d h s)
      | _ => .other)
  else if tok == "harr" || tok == "hdict" || tok == "hmix" then
    let w := (tok.drop 1).toString
    some (some fun t => match t with
      | .host n => pick w (varsOfHost d n)
      | .service h _ => pick w (varsOfHost d h)
      | _ => .other)
  else none

def ruleOf (d : DSt) (id : Nat) : Option RuleRec := d.rules.find? (·.id == id)

/-- canonical text of a created object, as the harness prints it -/
def showCreated (d : DSt) (c : Created) : String :=
  let e := render c
  let bodyHost := match ruleOf d c.rule with
    | some rr => rr.bodyHost
    | none => false
  let hn := if bodyHost then "'" ++ targetHostName c.target else "-"
  let sn := if bodyHost then (match targetServiceName c.target with | some s => "'" ++ s | none => "-") else "-"
  s!"{srcName e.src}/{e.name}/{showVal e.k}/{showVal e.v}/{hn}/{sn}"

def depParent : String := "zp"

def isSelfDep (c : Created) : Bool := c.src == .dependency && c.target == .host depParent

def hasDup : List String → Bool
  | [] => false
  | x :: xs => xs.contains x || hasDup xs

def objKey (s : String) : String := "/".intercalate ((s.splitOn "/").take 2)

/-- two expected objects of the same type and name ("re-defined", configitem.cpp Register): outside the model -/
def dupNames (exp : List ObjObs) : Bool := hasDup (exp.map fun o => srcName o.src ++ "/" ++ o.name)

/-- The model's answer as text; a Dependency of `zp` on itself is a cycle (C07) and two created objects of the
    same type and name are a re-definition: the load is rejected. -/
def showLoad (d : DSt) : LoadResult → String
  | .rejected => "rejected"
  | .accepted l =>
    if l.any isSelfDep then "rejected" else
    let ss := sortStrs (l.map (showCreated d))
    if hasDup (ss.map objKey) then "rejected" else
    "ok:" ++ (if ss.isEmpty then "-" else ",".intercalate ss)

def normObj (s : String) : String :=
  "/".intercalate ((s.splitOn "/").map fun f => if f == "N" then "-" else f)

def normRes (s : String) : String :=
  if s.startsWith "ok:" then
    let body := (s.drop 3).toString
    if body == "-" then s else "ok:" ++ ",".intercalate (sortStrs ((body.splitOn ",").map normObj))
  else s

def parseObjObs (s : String) : Option ObjObs :=
  match s.splitOn "/" with
  | [ty, name, k, v, hn, sn] => do
    let src ← parseSrcName ty
    let kv ← if k == "-" then some Val.empty else parseVal k
    let vv ← if v == "-" then some Val.empty else parseVal v
    let str? (x : String) : Option (Option String) :=
      if x == "-" || x == "N" then some none else
      match parseVal x with
      | some (.str s) => some (some s)
      | _ => none
    let h ← str? hn
    let sv ← str? sn
    return { src := src, name := name, k := kv, v := vv, hn := h, sn := sv }
  | _ => none

def parseObs (s : String) : Option Obs :=
  if s == "rejected" then some none
  else if s.startsWith "ok:" then
    let body := (s.drop 3).toString
    if body == "-" then some (some []) else ((body.splitOn ",").mapM parseObjObs).map some
  else none

/-- an `assign where` written below an `ignore where` of the same rule -/
def assignAfterIgnore : List Stmt → Bool
  | [] => false
  | .ignore _ :: rest => rest.any (fun s => match s with | .assign _ => true | _ => false) || assignAfterIgnore rest
  | _ :: rest => assignAfterIgnore rest

/-! ### the `L` line -/

/-- the variables an expression reads -/
def exprVars : Expr → List String
  | .var x => [x]
  | .idx a b | .eq a b | .ne a b | .and a b | .or a b => exprVars a ++ exprVars b
  | .not a => exprVars a
  | _ => []

def parseLate (pre : List String) : Option Late :=
  match kvOf pre "late" with
  | none => some ⟨[], []⟩
  | some v =>
    let toks := splitC v
    let hs := toks.filter fun t => !t.contains '!'
    let ss := toks.filterMap fun t => match t.splitOn "!" with
      | [h, sv] => some (h, sv)
      | _ => none
    if toks.isEmpty || hs.length + ss.length != toks.length then none else some ⟨hs, ss⟩

def handleL (d : DSt) (n : Nat) (pre post : List String) : IO DSt := do
  let w := world d
  let inv := inventory d
  let rules : Rules := d.rules.map fun rr => (rr.id, rr.rule)
  let mIdx := indexedFull w rules inv
  let mPlain := plainFull w rules inv
  let sIdx := showLoad d mIdx
  let sPlain := showLoad d mPlain
  -- the cascade: services created by `apply Service` rules that are targets of `to Service` rules
  let nCreatedSvc := (createdServices (indexedOutcomes w rules inv)).length
  let isCascade := nCreatedSvc > 0 && d.rules.any (fun rr => rr.rule.tgt == .service)
  let mut d := { d with steps := d.steps + 1, loads := d.loads + 1,
                        cascade := d.cascade + (if isCascade then 1 else 0),
                        cascadeCreated := d.cascadeCreated + (if isCascade then nCreatedSvc else 0) }
  -- statistics of the case
  for rr in d.rules do
    let r := rr.rule
    let tgtd := (targetedNames r).isSome
    d := { d with rulesTargeted := d.rulesTargeted + (if tgtd then 1 else 0),
                  rulesRegular := d.rulesRegular + (if tgtd then 0 else 1),
                  rulesFor := d.rulesFor + (if r.fterm.isSome then 1 else 0),
                  rulesIgnore := d.rulesIgnore + (if r.ignore.isEmpty then 0 else 1),
                  rulesUse := d.rulesUse + (if r.scope.isEmpty then 0 else 1),
                  rulesMultiStmt := d.rulesMultiStmt + (if rr.stmts.length ≥ 2 then 1 else 0),
                  rulesInterleaved := d.rulesInterleaved + (if assignAfterIgnore rr.stmts then 1 else 0),
                  rulesShadow := d.rulesShadow + (if r.fkvar == "host" || r.fkvar == "service" || r.fvvar == "host" || r.fvvar == "service" then 1 else 0) }
  d := { d with evals := d.evals + (plainOutcomes w rules (extend inv (plainOutcomes w rules inv))).length }
  match mIdx with
  | .accepted l =>
    let byIndex := l.filter fun c => match ruleOf d c.rule with
      | some rr => (targetedNames rr.rule).isSome
      | none => false
    d := { d with createdIndexed := d.createdIndexed + l.length, createdByIndex := d.createdByIndex + byIndex.length }
    if !byIndex.isEmpty || l.length > 0 then d := { d with caseNontrivial := true }
  | .rejected => d := { d with rejIndexed := d.rejIndexed + 1 }
  match mPlain with
  | .rejected => d := { d with rejPlain := d.rejPlain + 1 }
  | _ => pure ()
  if sIdx != sPlain then d := { d with diverge := d.diverge + 1, caseNontrivial := true }
  -- correspondence
  let check (d : DSt) (key what model : String) : IO DSt := do
    match kvOf post key with
    | none => return d
    | some impl =>
      let d := { d with loadRuns := d.loadRuns + 1 }
      if normRes impl != model then
        IO.println s!"MISMATCH line={n} case={d.caseNo} what={what} impl={normRes impl} model={model}"
        return { d with mismatches := d.mismatches + 1 }
      return d
  d ← check d "p1" "load_plain" sIdx
  d ← check d "w1" "load_wrap" sPlain
  d ← check d "p16" "load_plain16" sIdx
  d ← check d "w16" "load_wrap16" sPlain
  -- the same configuration written in another order
  let hasPerm := (kvOf post "q1").isSome || (kvOf post "x1").isSome
  let sPermIdx := if hasPerm then showLoad d (indexedFull w (permRules rules) (permInv inv)) else ""
  let sPermPlain := if hasPerm then showLoad d (plainFull w (permRules rules) (permInv inv)) else ""
  if hasPerm then
    d := { d with permRuns := d.permRuns + 1,
                  permModelDiffers := d.permModelDiffers + (if sPermIdx != sIdx || sPermPlain != sPlain then 1 else 0) }
  d ← check d "q1" "load_perm" sPermIdx
  d ← check d "x1" "load_permwrap" sPermPlain
  -- the same configuration committed in two stages
  let late? := parseLate pre
  if late?.isNone then return (← bad d n)
  let late := late?.getD ⟨[], []⟩
  if (kvOf post "l1").isSome then
    let firstStage := indexedFullOutcomes w rules (earlyInv inv late)
    let secondStage := indexedFullOutcomes w rules (lateInv inv late)
    let createdBy (os : List Outcome) (id : Nat) : Bool := os.any fun o => match o with
      | .create c => c.rule == id
      | _ => false
    -- rules without any match in the first stage that create an object in the second
    let lateOnly := d.rules.filter fun rr => !createdBy firstStage rr.id && createdBy secondStage rr.id
    d := { d with lateRuns := d.lateRuns + 1, lateOnlyRules := d.lateOnlyRules + lateOnly.length,
                  lateOnlyIndexed := d.lateOnlyIndexed + (lateOnly.filter fun rr => (targetedNames rr.rule).isSome).length }
    d ← check d "l1" "load_staged" (showLoad d (indexedStaged w rules inv late))
  -- a global constant that shares its name with a loop / closure variable of a rule, and the rules that read it
  let localNames := d.rules.flatMap fun rr => [rr.rule.fkvar, rr.rule.fvvar] ++ rr.rule.scope.map (·.1)
  let shared := (d.consts.map (·.1)).filter fun c => c != "" && localNames.contains c
  if !shared.isEmpty then
    let reads := d.rules.filter fun rr =>
      ((rr.rule.assign ++ rr.rule.ignore).flatMap exprVars).any fun x =>
        shared.contains x && x != rr.rule.fkvar && x != rr.rule.fvvar && !(rr.rule.scope.map (·.1)).contains x
    d := { d with leakCases := d.leakCases + 1, leakReads := d.leakReads + reads.length }
  -- the specification on the implementation's observations
  match (kvOf post "p1").bind parseObs, (kvOf post "w1").bind parseObs with
  | some p1, some w1 =>
    let p16 := (kvOf post "p16").bind parseObs
    let w16 := (kvOf post "w16").bind parseObs
    if (kvOf post "p16").isSome && p16.isNone || (kvOf post "w16").isSome && w16.isNone then return (← bad d n)
    let q1 := (kvOf post "q1").bind parseObs
    let x1 := (kvOf post "x1").bind parseObs
    if (kvOf post "q1").isSome && q1.isNone || (kvOf post "x1").isSome && x1.isNone then return (← bad d n)
    let l1 := (kvOf post "l1").bind parseObs
    if (kvOf post "l1").isSome && l1.isNone then return (← bad d n)
    let obs : LoadObs := { plain1 := p1, wrap1 := w1, plain16 := p16, wrap16 := w16, perm1 := q1, permWrap1 := x1, late1 := l1 }
    if (expectedObjs w rules inv).isNone then d := { d with specSilent := d.specSilent + 1 }
    match specLoad w rules inv (fun exp => selfDependency depParent exp || dupNames exp) obs with
    | some cl =>
      IO.println s!"SPECFAIL line={n} case={d.caseNo} clause={cl.name}"
      d := { d with specfails := d.specfails + 1 }
    | none => pure ()
    return d
  | _, _ => bad d n

/-! ### the `A` line -/

def nameOfTarget : Val → String := targetName

def parseTargetName (ty : TgtType) (s : String) : Option Val :=
  match ty with
  | .host => some (.host s)
  | .service =>
    match s.splitOn "!" with
    | [h, sv] => some (.service h sv)
    | _ => none

def showApi : Option (List Val) → String
  | none => "err"
  | some l => let ss := sortStrs (dedup (l.map nameOfTarget)); "ok:" ++ (if ss.isEmpty then "-" else ",".intercalate ss)

def parseApi (ty : TgtType) (s : String) : Option (Option (List Val)) :=
  if s == "err" then some none
  else if s.startsWith "ok:" then
    let body := (s.drop 3).toString
    if body == "-" then some (some []) else ((body.splitOn ",").mapM (parseTargetName ty)).map some
  else none

def dedupVals (l : List Val) : List Val := l.foldr (fun v acc => if acc.contains v then acc else v :: acc) []

def showCounts (c : ApiCounts) : String :=
  let f (o : Option Nat) : String := match o with | none => "e" | some k => toString k
  s!"nf:{f c.nf},ns:{f c.ns},qf:{f c.qf},qs:{f c.qs},af:{f c.af},as:{f c.asl}"

def handleA (d : DSt) (n : Nat) (pre post : List String) : IO DSt := do
  match pre with
  | _ :: tyS :: exprS :: fvS :: permToks =>
    let fv? : Option (Option (List (String × Val))) := if fvS == "-" then some none else (parseKVs fvS).map some
    -- p=<expr>: the ApiUser's permission filter; which objects it admits is the oracle input pb=<bits>
    let permOk := match permToks with
      | [] => true
      | [t] => t.startsWith "p=" && (parseExpr (t.drop 2).toString).isSome && (kvOf post "pb").isSome
      | _ => false
    if !permOk then return (← bad d n)
    match parseTgt tyS, parseExpr exprS, fv?, kvOf post "fast", kvOf post "slow" with
    | some ty, some e, some fv, some ifast, some islow =>
      let w := world d
      let inv0 := inventory d
      let restricted := !permToks.isEmpty
      let bits := ((kvOf post "pb").getD "-").toList
      let nT := (targets inv0 ty).length
      if restricted && !(bits == ['-'] && nT == 0 || bits.length == nT && bits.all fun c => c == '0' || c == '1' || c == 'E') then
        return (← bad d n)
      -- `E`: the permission filter raises on that object (`perm t = none`)
      let permRaises := restricted && bits.contains 'E'
      let permO : Val → Option Bool := fun t =>
        match indexOf? (targets inv0 ty) t with
        | some k => (match bits[k]? with | some '1' => some true | some '0' => some false | _ => none)
        | none => some false
      let perm : Val → Bool := fun t => !restricted || permO t == some true
      let mfast := if restricted then apiTargetsP w fv ty e inv0 permO else apiTargets w fv ty e inv0
      let mslow := if restricted then apiSlowP w fv ty e inv0 permO else apiSlow w fv ty e inv0
      -- the inventory the query ranges over: the objects the permission filter admits (`specApiPerm`)
      let inv := if restricted then restrictInv inv0 perm else inv0
      let recognised := match ty with
        | .host => (getTargetHosts (apiConsts fv) e).isSome
        | .service => (getTargetServices (apiConsts fv) e).isSome
      let dups := ((kvOf post "dups").bind String.toNat?).getD 0
      let collide := fvarsCollide w ty fv
      let collideNav := (fv.getD []).any fun p => (w.navNames ty).contains p.1
      let deniedNamed := restricted && ((apiTargets w fv ty e inv0).getD []).any (fun t => !perm t) &&
        (match ty with
         | .host => (getTargetHosts (apiConsts fv) e).isSome
         | .service => (getTargetServices (apiConsts fv) e).isSome) && !fvarsCollide w ty fv
      let mut d := { d with steps := d.steps + 1, api := d.api + 1, apiDups := d.apiDups + (if dups > 0 then 1 else 0),
                            apiPerm := d.apiPerm + (if restricted then 1 else 0),
                            apiPermSkipped := d.apiPermSkipped + (if permRaises then 1 else 0),
                            apiPermDeniedNamed := d.apiPermDeniedNamed + (if deniedNamed then 1 else 0),
                            apiFast := d.apiFast + (if recognised then 1 else 0),
                            evals := d.evals + (targets inv ty).length,
                            apiCollide := d.apiCollide + (if collide then 1 else 0),
                            apiCollideNav := d.apiCollideNav + (if collideNav then 1 else 0),
                            apiCollideRecognised := d.apiCollideRecognised + (if collide && recognised then 1 else 0) }
      if recognised && (mfast.map (·.length)).getD 0 > 0 then
        d := { d with apiFastNonEmpty := d.apiFastNonEmpty + 1, caseNontrivial := true }
      if mslow.isNone then d := { d with apiErr := d.apiErr + 1 }
      -- proved equal as sets (api_fast_path_eq_plain, api_permission_fast_path_partial) unless the permission filter raises (F-C16e)
      if showApi mfast != showApi mslow && !permRaises then d := { d with apiDiverge := d.apiDiverge + 1 }
      if ifast != showApi mfast then
        IO.println s!"MISMATCH line={n} case={d.caseNo} what=api_fast impl={ifast} model={showApi mfast}"
        d := { d with mismatches := d.mismatches + 1 }
      -- Where the permission filter raises on some object (the F-C16e shape) WHICH path a query takes is observable.  The property
      -- demands that both paths agree (that disagreement is F-C16e, reported by the spec clause), not which path a syntactic form
      -- takes: a sound recogniser extension may answer the wrapped filter from the index too.  In exactly that shape the wrapped
      -- query may therefore show either the evaluated answer or the fast-path answer; everything else stays strict.
      let slowViaIndex := permRaises && islow != showApi mslow && islow == showApi mfast
      let mslowE := if slowViaIndex then mfast.map dedupVals else mslow
      if islow != showApi mslowE then
        IO.println s!"MISMATCH line={n} case={d.caseNo} what=api_slow impl={islow} model={showApi mslow}"
        d := { d with mismatches := d.mismatches + 1 }
      -- how many entries came back, from GetFilterTargets and through the real handlers
      let cnt (key : String) : Option (Option Nat) :=   -- outer none: absent / unparsable
        match kvOf post key with
        | none => none
        | some v => if v.startsWith "e" || v == "-1" then some none else v.toNat?.map some
      let counts? : Option ApiCounts :=
        match cnt "nf", cnt "ns", cnt "qf", cnt "qs", cnt "af", cnt "as" with
        | some nf, some ns, some qf, some qs, some af, some as' => some { nf := nf, ns := ns, qf := qf, qs := qs, af := af, asl := as' }
        | _, _, _, _, _, _ => none
      let httpDown := ["qf", "qs", "af", "as"].any fun k => kvOf post k == some "x"
      if (kvOf post "nf").isSome && counts?.isNone && !httpDown then return (← bad d n)
      if httpDown then d := { d with apiHttpDown := d.apiHttpDown + 1 }
      let mc : ApiCounts := { nf := mfast.map List.length, ns := mslow.map List.length, qf := queryResults mfast,
                              qs := queryResults mslow, af := actionResults mfast, asl := actionResults mslow }
      -- The counts are compared with the model only as far as the property constrains them.  How often the fast path lists an
      -- object follows the recogniser (the transcription: once per disjunct, F-C16d); an implementation that lists every object
      -- once, or whose recogniser accepts more shapes (so that even the wrapped filter is answered from the index), is not a
      -- disagreement.  What every implementation must satisfy: a count is an error exactly when the query raises, and is at
      -- least the number of distinct objects returned.
      let onceF := mfast.map dedupVals
      let atLeast (c lo : Option Nat) : Bool :=
        match c, lo with
        | none, none => true
        | some k, some a => a ≤ k
        | _, _ => false
      match counts? with
      | some c =>
        d := { d with apiCounts := d.apiCounts + 1,
                      apiMultFast := d.apiMultFast + (if mc.nf != mc.ns then 1 else 0) }
        let ok := atLeast c.nf (onceF.map List.length) && atLeast c.ns (mslowE.map List.length) &&
                  atLeast c.qf (queryResults onceF) && atLeast c.qs (queryResults mslowE) &&
                  atLeast c.af (actionResults onceF) && atLeast c.asl (actionResults mslowE)
        if !ok then
          IO.println s!"MISMATCH line={n} case={d.caseNo} what=api_counts impl={showCounts c} model={showCounts mc}"
          d := { d with mismatches := d.mismatches + 1 }
      | none => pure ()
      match parseApi ty ifast, parseApi ty islow with
      | some f, some s =>
        let ao : ApiObs := { fast := f, slow := s, counts := counts? }
        match (if restricted then specApiPerm w fv ty e inv0 permO ao else specApi w fv ty e inv ao) with
        | some cl =>
          -- F-C16e: the permission filter raises on an object; evaluation fails, the fast path did not look at that object -
          -- exactly as the model says, or in some other way
          let shapeP := if cl == .apiFastpathIndependent && permRaises then
              (if ifast == showApi mfast && islow == showApi mslow then " shape=perm_raises" else " shape=other") else ""
          -- F-C16d: the multiplicity clause fails exactly as the model (one entry per disjunct that names an existing
          -- object) says, or in some other way
          let shape := if cl == .apiMultiplicityIndependent then
              (if counts? == some mc then " shape=per_disjunct" else " shape=other") else ""
          IO.println s!"SPECFAIL line={n} case={d.caseNo} clause={cl.name}{shape}{shapeP}"
          d := { d with specfails := d.specfails + 1 }
        | none => pure ()
        return d
      | _, _ => bad d n
    | _, _, _, _, _ => bad d n
  | _ => bad d n

/-! ### the other lines -/

def parseJoins : List String → Option String
  | [] => some ""
  | [t] => if t.startsWith "j=" && ((t.drop 2).toString.toList.all fun c => c == 'p' || c == 'e' || c == 'c')
           then some (t.drop 2).toString else none
  | _ => none

def handleR (d : DSt) (n : Nat) (pre : List String) : IO DSt := do
  match pre with
  | _ :: idS :: srcS :: tgtS :: name :: forS :: fk :: fv :: bh :: exprs =>
    let assign := exprs.filterMap fun x => if x.startsWith "a=" then some (x.drop 2).toString else none
    let ignore := exprs.filterMap fun x => if x.startsWith "i=" then some (x.drop 2).toString else none
    let uses := (exprs.filterMap fun x => if x.startsWith "u=" then some (splitC (x.drop 2).toString) else none).flatten
    if assign.length + ignore.length + (exprs.filter (·.startsWith "u=")).length != exprs.length then return (← bad d n)
    if uses.any (fun u => (d.uvars.lookup u).isNone) then return (← bad d n)
    let scope := uses.filterMap fun u => (d.uvars.lookup u).map fun v => (u, v)
    -- the statements of the rule body in source order
    let stmts? : Option (List Stmt) := (exprs.filter fun x => x.startsWith "a=" || x.startsWith "i=").mapM fun x =>
      (parseExpr (x.drop 2).toString).map fun e => if x.startsWith "a=" then Stmt.assign e else Stmt.ignore e
    match idS.toNat?, parseSrc srcS, parseTgt tgtS, mkFterm d forS, stmts?, parseBool? bh with
    | some id, some src, some tgt, some fterm, some stmts, some bodyHost =>
      let loop : Option Loop := fterm.map fun f =>
        { term := f, kvar := if fk == "-" then "" else fk, vvar := if fv == "-" then "" else fv }
      if fterm.isNone && (fk != "-" || fv != "-") then return (← bad d n)
      let r0 : Rule := { src := src, tgt := tgt, name := name, assign := [], ignore := [], loop := loop, scope := scope }
      let r := r0.withStmts stmts
      return { d with rules := d.rules ++ [{ id := id, rule := r, bodyHost := bodyHost, stmts := stmts }] }
    | _, _, _, _, _, _ => bad d n
  | _ => bad d n

def handle (d : DSt) (n : Nat) (line : String) : IO DSt := do
  -- the O line carries free text: split at the bar first
  let parts := line.splitOn " | "
  let ws := words (parts.headD "")
  let post := words (" | ".intercalate (parts.drop 1))
  match ws with
  | [] => return d
  | "C" :: _ =>
    let d := closeCase d
    let mut d := { d with consts := [], uvars := [], joins := [], hosts := [], services := [], atoms := [], rules := [],
                          navH := defaultNavNames .host, navS := defaultNavNames .service,
                          caseNo := d.caseNo + 1, caseHash := 7 }
    -- the names FilterUtility::EvaluateFilter binds, read from the implementation's type reflection: the navigation
    -- field names are an input of the model (`World.navNames`); what the model relies on (`NavOk`: obj and the type
    -- name are bound, `host`/`service` denote the target) is checked here
    for (key, ty) in [("boundH", TgtType.host), ("boundS", TgtType.service)] do
      match kvOf post key with
      | none => pure ()
      | some impl =>
        let names := splitC impl
        let navs := (names.erase "obj").erase (lcName ty)
        d := { d with boundChecked := d.boundChecked + 1 }
        let ok := names.contains "obj" && names.contains (lcName ty) &&
          (match ty with
           | .host => !navs.contains "host"
           | .service => navs.contains "host" && !navs.contains "service")
        if !ok then
          IO.println s!"MISMATCH line={n} case={d.caseNo} what=bound_names_{key} impl={impl} model=obj,{lcName ty},<navigation fields; host/service denote the target>"
          d := { d with mismatches := d.mismatches + 1 }
        else
          d := match ty with
            | .host => { d with navH := navs }
            | .service => { d with navS := navs }
        if sortStrs navs != sortStrs (defaultNavNames ty) then d := { d with navDiffers := d.navDiffers + 1 }
    return d
  | w0 :: _ =>
    if w0.startsWith "#" || w0 == "STATS" then return d
    let d := { d with caseHash := mixHash d.caseHash (hash (" ".intercalate ws)) }
    match ws with
    | ["K", name, v] =>
      match parseVal v with
      | some val => return { d with consts := d.consts ++ [(name, val)] }
      | none => bad d n
    | ["U", name, v] =>
      match parseVal v with
      | some val => return { d with uvars := d.uvars ++ [(name, val)] }
      | none => bad d n
    | "H" :: name :: _os :: _groups :: arr :: dict :: mix :: rest =>
      match parseVarsRec arr dict mix, parseJoins rest with
      | some vr, some j => return { d with hosts := d.hosts ++ [(name, vr)], joins := d.joins ++ [(Val.host name, j)] }
      | _, _ => bad d n
    | "S" :: host :: short :: _os :: _groups :: arr :: dict :: mix :: rest =>
      match parseVarsRec arr dict mix, parseJoins rest with
      | some vr, some j =>
        return { d with services := d.services ++ [((host, short), vr)], joins := d.joins ++ [(Val.service host short, j)] }
      | _, _ => bad d n
    | "O" :: iS :: _ =>
      match iS.toNat?, kvOf post "h", kvOf post "s" with
      | some i, some hb, some sb =>
        match parseTri hb d.hosts.length, parseTri sb d.services.length with
        | some h, some s => return { d with atoms := d.atoms ++ [(i, h, s)] }
        | _, _ => bad d n
      | _, _, _ => bad d n
    | "R" :: _ => handleR d n ws
    | "L" :: _ => handleL d n ws post
    | "A" :: _ => handleA d n ws post
    | _ => bad d n

def main : IO Unit := do
  let stdin ← IO.getStdin
  let d ← foldLines stdin handle ({} : DSt)
  let d := closeCase d
  IO.println s!"STATS cases={d.caseNo} steps={d.steps} loads={d.loads} load_runs={d.loadRuns} evaluations={d.evals} rules_targeted={d.rulesTargeted} rules_regular={d.rulesRegular} rules_for={d.rulesFor} rules_ignore={d.rulesIgnore} rules_loopvar_shadow={d.rulesShadow} created={d.createdIndexed} created_by_index={d.createdByIndex} rejected_indexed={d.rejIndexed} rejected_plain={d.rejPlain} model_index_vs_plain_diverge={d.diverge} spec_silent={d.specSilent} cascade_cases={d.cascade} cascade_services={d.cascadeCreated} rules_use={d.rulesUse} bound_checked={d.boundChecked} nav_names_differ_from_default={d.navDiffers} api_collide={d.apiCollide} api_collide_nav={d.apiCollideNav} api_collide_recognised={d.apiCollideRecognised} api={d.api} api_recognised={d.apiFast} api_fast_nonempty={d.apiFastNonEmpty} api_dups={d.apiDups} api_err={d.apiErr} api_model_diverge={d.apiDiverge} api_counts={d.apiCounts} api_http_unavailable={d.apiHttpDown} api_model_fast_multiplicity_differs={d.apiMultFast} perm_runs={d.permRuns} perm_model_differs={d.permModelDiffers} rules_multi_stmt={d.rulesMultiStmt} rules_assign_after_ignore={d.rulesInterleaved} late_runs={d.lateRuns} late_only_rules={d.lateOnlyRules} late_only_indexed_rules={d.lateOnlyIndexed} shared_name_cases={d.leakCases} shared_name_reads={d.leakReads} api_perm={d.apiPerm} api_perm_raises={d.apiPermSkipped} api_perm_denied_named={d.apiPermDeniedNamed} nontrivial={d.nontrivial} mismatches={d.mismatches} specfails={d.specfails} badlines={d.badlines}"

/-
  vd_c14 — replays the harness's lines through the C14 models (modify/restore, state-file round trip,
  atomic replacement), compares the observations and evaluates the specification predicates of
  IcingaModel/C14/Spec.lean on the implementation's own observations.

  Input lines: see harness/c14.cpp (C M, M, R, I, S, W, K, L).  A *case* starts at every `C M`, `I`, `S` and `W` line.
  Output:
    MISMATCH line=<n> case=<k> op=<M|R|S|W|K|L> what=<...>
    SPECFAIL line=<n> case=<k> clause=<name> tags=<t1+t2|none>
    BADLINE line=<n>
    STATS cases=.. steps=.. <histogram> nontrivial=.. mismatches=.. specfails=..
-/
import IcingaModel.Common.Proto
import IcingaModel.C14.Model
import IcingaModel.C14.Serial
import IcingaModel.C14.AtomicFile
import IcingaModel.C14.Spec
import Std.Data.HashSet

open Icinga Icinga.C14 Icinga.C20 Icinga.Proto

/-! ### decoding of the line protocol -/

/-- Numbers are kept as the token the implementation printed. -/
abbrev Tok := List UInt8

def tokCodec : NumCodec Tok := { fmt := id, parse := fun bs => if bs.isEmpty then none else some bs }

abbrev V := JValue Tok

def hexNib (c : Char) : Option Nat :=
  if '0' ≤ c ∧ c ≤ '9' then some (c.toNat - 48)
  else if 'a' ≤ c ∧ c ≤ 'f' then some (c.toNat - 87) else none

def unhexAux : List Char → Array UInt8 → Option (Array UInt8)
  | [], acc => some acc
  | [_], _ => none
  | a :: b :: r, acc =>
    match hexNib a, hexNib b with
    | some x, some y => unhexAux r (acc.push (UInt8.ofNat (x * 16 + y)))
    | _, _ => none

def unhex (s : String) : Option Bytes :=
  if s == "-" || s == "" then some [] else (unhexAux s.toList #[]).map Array.toList

def unhexText (s : String) : Option (List Char) := do
  let bs ← unhex s
  let str ← String.fromUTF8? (ByteArray.mk bs.toArray)
  pure str.toList

def unhexJson (s : String) : Option V := do
  let bs ← unhex s
  jsonDecode tokCodec bs

def hashStr (h : UInt64) (s : String) : UInt64 := mixHash h (hash s)

/-! ### observations -/

def origOfJson : V → Option (Option (Orig Tok))
  | .null => some none
  | .obj kvs => some (some (kvs.map (fun e => (splitDots e.1, e.2))))
  | _ => none

def origToJson : Option (Orig Tok) → V
  | none => .null
  | some g => .obj (g.map (fun e => (joinPath e.1, e.2)))

def errName : Except Err (Obj Tok) → String
  | .ok _ => "ok"
  | .error e => s!"err{e.toNat}"

/-- `SetField` of a typed field converts Empty to the type's zero (`String` "", `double` 0); the tree
    model has no field types, so the driver applies that conversion to the model's result. -/
def coerceTyped (fields : Dict Tok) : Dict Tok :=
  fields.map (fun e =>
    match e.2 with
    | .null => if e.1 == "notes".toList then (e.1, JValue.str []) else if e.1 == "check_interval".toList then (e.1, JValue.num [48]) else e
    | _ => e)

def showPath (p : Path) : String := String.ofList (joinPath p)

structure WInfo where
  n : Nat
  renameIdx : Option Nat

structure DSt where
  caseNo : Nat := 0
  steps : Nat := 0
  -- current M case
  obj : Obj Tok := { fields := [], original := none }
  track : Track Tok := {}
  reactivated : Nat := 0  -- restores of a whole attribute after which the modifications subsumed by it were outstanding again
  tags : List String := []
  caseFailed : Bool := false
  caseHash : UInt64 := 7
  caseNontrivial : Bool := false
  inM : Bool := false
  -- K
  words : List (String × WInfo) := []
  -- counters
  mCases : Nat := 0
  mOps : Nat := 0
  rOps : Nat := 0
  mErr : Nat := 0
  rChecked : Nat := 0     -- restores of a modified path (the spec clause was evaluated)
  sCases : Nat := 0
  sTypeKey : Nat := 0     -- S cases whose state holds a dictionary with an unregistered `type`
  sMods : Nat := 0
  sTooDeep : Nat := 0
  stateFileMax : Nat := 0
  sRestored : Nat := 0
  sNumText : Nat := 0     -- S cases with a modified number whose config text does not read back identically
  sKeyText : Nat := 0     -- S cases with a modified value holding a dictionary key whose config text does not read back
  sNotification : Nat := 0
  sDowntime : Nat := 0
  sUser : Nat := 0
  sComment : Nat := 0
  sObjInArr : Nat := 0    -- S cases whose pinned state holds a typed object inside an array (PerfdataValue in performance_data)
  sRestoredAbove : Nat := 0  -- S cases that restored an attribute above a still outstanding nested modification
  killsNoPrev : Nat := 0  -- kills of a write onto a path that did not exist before
  killsCreate : Nat := 0  -- of these: inside ConfigObjectUtility::CreateObject (a runtime object's config file)
  sWriterKeys : Nat := 0  -- S cases whose modified values hold a dictionary key that is not a plain identifier
  iCases : Nat := 0       -- inventories (reflection types) checked against the pinned attribute list
  iPinned : Nat := 0      -- pinned attributes looked up in an inventory
  gPinned : Nat := 0      -- pinned attributes compared through their getters across a restart
  wCases : Nat := 0
  kills : Nat := 0
  killOld : Nat := 0
  killNew : Nat := 0
  fMkstemp : Nat := 0
  fChmod : Nat := 0
  fWrite : Nat := 0
  fWritePartial : Nat := 0
  fFsync : Nat := 0
  fClose : Nat := 0
  fRename : Nat := 0
  fUnlink : Nat := 0
  fEnd : Nat := 0
  leftovers : Nat := 0
  leftoversAfter : Nat := 0
  seen : Std.HashSet UInt64 := {}
  nontrivial : Nat := 0
  mismatches : Nat := 0
  specfails : Nat := 0

def addTag (d : DSt) (t : String) : DSt := if d.tags.contains t then d else { d with tags := d.tags ++ [t] }

def tagStr (ts : List String) : String := if ts.isEmpty then "none" else "+".intercalate ts

/-- Close the running case: count it as non-trivial if it is and its operations were not seen before. -/
def closeCase (d : DSt) : DSt :=
  if d.caseNontrivial && !d.seen.contains d.caseHash then
    { d with seen := d.seen.insert d.caseHash, nontrivial := d.nontrivial + 1, caseNontrivial := false }
  else { d with caseNontrivial := false }


/-- Descriptive tags of a modify (for the classifiers of known findings; not part of the spec). -/
def properPrefixes (p : Path) : List Path := (List.range p.length).drop 1 |>.map (fun n => p.take n)

def modifyTags (d : DSt) (p : Path) (v : V) : DSt := Id.run do
  let mut d := d
  let old := getPath d.obj.fields p
  if old.isNone then d := addTag d "absent"
  if p.length > 1 then
    match old with
    | some (.obj okvs) =>
      d := addTag d "olddict"
      if okvs.isEmpty then d := addTag d "oldemptydict"
      if okvs.any (fun e => e.1.contains '.') then d := addTag d "dotkey"
      match v with
      | .obj vkvs => if vkvs.any (fun e => !dHas e.1 okvs) then d := addTag d "newkeys"
      | _ => pure ()
    | _ => pure ()
  if (properPrefixes p).any (fun q => (gLookup q d.track.ghost).isSome) then d := addTag d "below"
  if d.track.ghost.any (fun e => strictBelow p e.1) then d := addTag d "above"
  if (gLookup p d.track.ghost).isSome then d := addTag d "again"
  if p.any (fun k => k.isEmpty) then d := addTag d "emptytoken"
  return d

def restoreTags (d : DSt) (p : Path) : DSt := Id.run do
  let mut d := d
  if p.length == 1 && d.track.ghost.any (fun e => strictBelow p e.1) then d := addTag d "toprestore"
  if (gLookup p d.track.ghost).isNone then d := addTag d "restoreunmodified"
  return d

def handleMR (d : DSt) (n : Nat) (isM : Bool) (p : Path) (v : V) (post : List String) : IO DSt := do
  match post with
  | [okS, fh, oh] =>
    match parseBool? okS, unhexJson fh, (unhexJson oh) >>= origOfJson with
    | some ok, some (.obj nowFields), some nowOrig =>
      let mut d := { d with steps := d.steps + 1 }
      d := if isM then { d with mOps := d.mOps + 1 } else { d with rOps := d.rOps + 1 }
      if !ok then d := { d with mErr := d.mErr + 1 }
      -- model
      let res := (if isM then modify d.obj p v else restore d.obj p).map (fun o' => { o' with fields := coerceTyped o'.fields })
      let agree := match res with
        | .ok o' => ok && decide (o'.fields = nowFields) && decide (origToJson o'.original = origToJson nowOrig)
        | .error _ => !ok && decide (d.obj.fields = nowFields)
      if !agree then
        let mo := match res with
          | .ok o' => s!"ok fields_equal={decide (o'.fields = nowFields)} orig_equal={decide (origToJson o'.original = origToJson nowOrig)}"
          | .error e => s!"err{e.toNat}"
        IO.println s!"MISMATCH line={n} case={d.caseNo} op={if isM then "M" else "R"} what=path:{showPath p};impl_ok:{ok};model:{mo}"
        d := { d with mismatches := d.mismatches + 1 }
      -- tags, then the specification on the implementation's own observation
      if ok then d := if isM then modifyTags d p v else restoreTags d p
      let op : MOp Tok := if isM then .modify p v else .restore p
      if !isM && ok && (gLookup p d.track.ghost).isSome then
        d := { d with rChecked := d.rChecked + 1, caseNontrivial := true }
      let (verdict, g') := specStepM d.track d.obj.fields op ok nowFields
      if !isM && ok && verdict.isNone && (gLookup p d.track.ghost).isSome && g'.ghost.any (fun e => strictBelow p e.1) then
        d := { d with reactivated := d.reactivated + 1 }
      match verdict with
      | some cl =>
        if !d.caseFailed then
          IO.println s!"SPECFAIL line={n} case={d.caseNo} clause={cl.name} tags={tagStr d.tags}"
        d := { d with specfails := d.specfails + 1, caseFailed := true }
      | none => pure ()
      -- continue from the implementation's state (on agreement that is the model's state)
      return { d with track := g', obj := { fields := nowFields, original := nowOrig } }
    | _, _, _ => IO.println s!"BADLINE line={n}"; return d
  | _ => IO.println s!"BADLINE line={n}"; return d

def parseKnown (s : String) : List Key := if s == "-" then [] else (s.splitOn ",").map String.toList

def normOrig : V → V
  | .null => .obj []
  | v => v

/-- The oracle for the config writer's number text: token before ↦ token after (`none` = does not compile). -/
abbrev NumOracle := List (Tok × Option Tok)

def parseOracle (s : String) : Option NumOracle :=
  if s == "-" then some []
  else ((s.splitOn ",").filter (fun pr => !pr.startsWith "k:")).mapM (fun pr =>
    match pr.splitOn ">" with
    | [a, b] => some (a.toUTF8.toList, if b == "!" then none else some b.toUTF8.toList)
    | _ => none)

/-- The oracle for the config writer's key text: the dictionary keys `k` for which `{ k = 1 }`, as the writer prints it,
    does not evaluate to the same dictionary again (entries `k:<hex key>>!`). -/
def parseBadKeys (s : String) : Option (List Key) :=
  if s == "-" then some []
  else ((s.splitOn ",").filter (fun pr => pr.startsWith "k:")).mapM (fun pr =>
    match (String.ofList (pr.toList.drop 2)).splitOn ">" with
    | [a, _] => unhexText a
    | _ => none)

mutual
def hasBadKey (bad : List Key) : V → Bool
  | .arr xs => hasBadKeyL bad xs
  | .obj kvs => hasBadKeyM bad kvs
  | _ => false
def hasBadKeyL (bad : List Key) : List V → Bool
  | [] => false
  | x :: xs => hasBadKey bad x || hasBadKeyL bad xs
def hasBadKeyM (bad : List Key) : List (Key × V) → Bool
  | [] => false
  | (k, v) :: r => bad.contains k || hasBadKey bad v || hasBadKeyM bad r
end

mutual
def mapNums (orc : NumOracle) : V → V
  | .num t => match orc.lookup t with
    | some (some t') => .num t'
    | _ => .num t
  | .arr xs => .arr (mapNumsL orc xs)
  | .obj kvs => .obj (mapNumsM orc kvs)
  | v => v
def mapNumsL (orc : NumOracle) : List V → List V
  | [] => []
  | x :: xs => mapNums orc x :: mapNumsL orc xs
def mapNumsM (orc : NumOracle) : List (Key × V) → List (Key × V)
  | [] => []
  | (k, v) :: r => (k, mapNums orc v) :: mapNumsM orc r
end

mutual
def hasBadNum (orc : NumOracle) : V → Bool
  | .num t => orc.lookup t == some none
  | .arr xs => hasBadNumL orc xs
  | .obj kvs => hasBadNumM orc kvs
  | _ => false
def hasBadNumL (orc : NumOracle) : List V → Bool
  | [] => false
  | x :: xs => hasBadNum orc x || hasBadNumL orc xs
def hasBadNumM (orc : NumOracle) : List (Key × V) → Bool
  | [] => false
  | (_, v) :: r => hasBadNum orc v || hasBadNumM orc r
end

/-- The modified-attributes half of a restart through the model: the spec's config object, its runtime
    modifications (`modify`), `dumpModified`, and the replay onto the freshly loaded object.  Returns
    (vars, notes, original_attributes) before and after, as JSON values, and whether the file loads. -/
def modattrModel (orc : NumOracle) (badKeys : List Key) (spec : V) : Option ((V × V × V) × (V × V × V) × Bool) :=
  match spec with
  | .obj kvs =>
    let vars := match dGet? "vars".toList kvs with
      | some (.obj x) => JValue.obj x
      | _ => JValue.null
    let isCheckable := match dGet? "kind".toList kvs with
      | some (.str ['h']) | some (.str ['s']) => true
      | _ => false
    let notesF : Dict Tok := match dGet? "notes".toList kvs with
      | some (.str s) => [("notes".toList, JValue.str s)]
      | _ => if isCheckable then [("notes".toList, JValue.str [])] else []   -- only checkables have `notes`
    let mods : List (Path × V) := match dGet? "mods".toList kvs with
      | some (.arr ms) => ms.filterMap (fun m => match m with
          | .arr [.str a, v] => some (splitDots a, v)
          | _ => none)
      | _ => []
    let fresh : Obj Tok := { fields := notesF ++ [("vars".toList, vars)], original := none }
    let restores : List Path := match dGet? "restore".toList kvs with
      | some (.arr rs) => rs.filterMap (fun r => match r with
          | .str a => some (splitDots a)
          | _ => none)
      | _ => []
    let om := mods.foldl (fun o m => match modify o m.1 m.2 with | .ok o' => o' | .error _ => o) fresh
    let ob := restores.foldl (fun o r => match restore o r with | .ok o' => o' | .error _ => o) om
    -- the script holds the dumped values as the config writer prints them (oracle); if one of them does not compile
    -- the whole file is rejected at start-up
    let ents := dumpModified ob
    let loadable := !(ents.any (fun e => hasBadNum orc e.2))
    -- a value holding a dictionary key the writer's text does not give back (oracle): the parser rejects the file without
    -- an exception (ConfigCompiler::Compile returns no expression), nothing is evaluated (configitem.cpp:652-654)
    let keysOk := !(ents.any (fun e => hasBadKey badKeys e.2))
    let oa := if loadable && keysOk then replayModified fresh (ents.map (fun e => (e.1, mapNums orc e.2))) else fresh
    let view := fun (o : Obj Tok) =>
      ((dGet? "vars".toList o.fields).getD .null, (dGet? "notes".toList o.fields).getD .null, normOrig (origToJson o.original))
    some (view ob, view oa, loadable)
  | _ => none

def cfgView (c : V) : V × V × V :=
  match c with
  | .obj kvs => ((dGet? "vars".toList kvs).getD .null, (dGet? "notes".toList kvs).getD .null,
                 normOrig ((dGet? origAttrKey kvs).getD .null))
  | _ => (.null, .null, .null)

def plainIdent (k : Key) : Bool :=
  match k with
  | [] => false
  | c :: r => (c.isAlpha || c == '_') && r.all (fun x => x.isAlphanum || x == '_')

mutual
def oddKeyIn : V → Bool
  | .arr xs => oddKeyInL xs
  | .obj kvs => oddKeyInM kvs
  | _ => false
def oddKeyInL : List V → Bool
  | [] => false
  | x :: xs => oddKeyIn x || oddKeyInL xs
def oddKeyInM : List (Key × V) → Bool
  | [] => false
  | (k, v) :: r => !plainIdent k || oddKeyIn v || oddKeyInM r
end

/-- Does a value of the spec's `mods` hold a dictionary key the config writer has to quote? (statistic) -/
def hasWriterKey : Option V → Bool
  | some (.obj kvs) => match dGet? "mods".toList kvs with
    | some (.arr ms) => ms.any (fun m => match m with
        | .arr [_, v] => oddKeyIn v
        | _ => false)
    | _ => false
  | _ => false

mutual
/-- number of typed objects nested inside arrays in a getter tree (statistic) -/
def objInArr (inArr : Bool) : V → Nat
  | .arr xs => objInArrL xs
  | .obj kvs => (if inArr && dHas objectTag kvs then 1 else 0) + objInArrM kvs
  | _ => 0
def objInArrL : List V → Nat
  | [] => 0
  | x :: xs => objInArr true x + objInArrL xs
def objInArrM : List (Key × V) → Nat
  | [] => 0
  | (_, v) :: r => objInArr false v + objInArrM r
end

def handleS (d : DSt) (n : Nat) (sh : String) (post : List String) : IO DSt := do
  match post with
  | [kn, sbh, sah, cbh, cah, loadedS, orcS, gbh, gah] =>
    match unhexJson sbh, unhexJson sah, unhexJson cbh, unhexJson cah, parseBool? loadedS, parseOracle orcS, unhexJson gbh, unhexJson gah with
    | some (.obj sb), some (.obj sa), some cb, some ca, some loaded, some orc, some (.obj gb), some (.obj ga) =>
      let badKeys := (parseBadKeys orcS).getD []
      let knownL := parseKnown kn
      let known : Key → Bool := fun k => knownL.contains k
      let mut d := { d with steps := d.steps + 1, sCases := d.sCases + 1 }
      let tname : Key := match dGet? typeKey sb with
        | some (.str s) => s
        | _ => []
      let o : SObj Tok := { typeName := tname, name := [], fields := dRemove typeKey sb }
      let fresh : SObj Tok := { o with fields := o.fields.map (fun e => (e.1, JValue.null)) }
      -- model: DumpObjects → netstring → JSON → RestoreObject onto the fresh object
      let file := stateFile tokCodec [o]
      let items := (nsReadAll none [file]).items
      let modelAfter : Option (Dict Tok) := match items with
        | [m] => (restoreMessage tokCodec known fresh m).map (·.fields)
        | _ => none
      let implAfter := dRemove typeKey sa
      let tooDeep := decide (Icinga.C20.depth (JValue.obj sb) + 1 > Icinga.C20.jsonMaxNestingDepth)
      if tooDeep then
        d := { d with sTooDeep := d.sTooDeep + 1 }
        -- the model refuses the whole record: the object must not have taken the deep value over
        if modelAfter.isSome || dGet? "executions".toList sa == dGet? "executions".toList sb then
          IO.println s!"MISMATCH line={n} case={d.caseNo} op=S what=record_beyond_nesting_limit_accepted"
          d := { d with mismatches := d.mismatches + 1 }
      else if modelAfter != some implAfter then
        IO.println s!"MISMATCH line={n} case={d.caseNo} op=S what=state_after_restore"
        d := { d with mismatches := d.mismatches + 1 }
      let hasType := !onlyKnownTypesM known o.fields
      if hasType then d := { d with sTypeKey := d.sTypeKey + 1 }
      d := match String.ofList tname with
        | "Notification" => { d with sNotification := d.sNotification + 1 }
        | "Downtime" => { d with sDowntime := d.sDowntime + 1 }
        | "User" => { d with sUser := d.sUser + 1 }
        | "Comment" => { d with sComment := d.sComment + 1 }
        | _ => d
      -- tie between the two views of the implementation: what the getters return for a pinned attribute is what
      -- Serialize(object, FAState) shows for it, before and after the restart
      let pinned := pinnedState tname
      d := { d with gPinned := d.gPinned + pinned.length }
      if objInArr false (JValue.obj gb) > 0 then d := { d with sObjInArr := d.sObjInArr + 1 }
      if (match unhexJson sh with
          | some (.obj kvs) => (match dGet? "mods".toList kvs, dGet? "restore".toList kvs with
            | some (.arr ms), some (.arr rs) => rs.any (fun r => match r with
                | .str a => ms.any (fun m => match m with
                    | .arr [.str b, _] => strictBelow (splitDots a) (splitDots b)
                    | _ => false)
                | _ => false)
            | _, _ => false)
          | _ => false) then
        d := { d with sRestoredAbove := d.sRestoredAbove + 1 }
      -- model of the getter view after the restart: Deserialize (safe_mode = false) of what was written, objects as objects
      if !tooDeep then
        match pinned.find? (fun a => dGet? a ga != (dGet? a sb).map (deserializeT known false)) with
        | some a =>
          IO.println s!"MISMATCH line={n} case={d.caseNo} op=S what=getter_after_restore:{String.ofList a}"
          d := { d with mismatches := d.mismatches + 1 }
        | none => pure ()
      match pinned.find? (fun a => (dGet? a gb).map stripTag != dGet? a sb || (dGet? a ga).map stripTag != dGet? a sa) with
      | some a =>
        IO.println s!"MISMATCH line={n} case={d.caseNo} op=S what=getter_vs_serialize:{String.ofList a}"
        d := { d with mismatches := d.mismatches + 1 }
      | none => pure ()
      -- model: runtime modifications → DumpModifiedAttributes → replay at start-up
      match (unhexJson sh) >>= modattrModel orc badKeys with
      | some (mb, ma, mloaded) =>
        if mloaded != loaded then
          IO.println s!"MISMATCH line={n} case={d.caseNo} op=S what=modified_attributes_file_loads:impl={loaded};model={mloaded}"
          d := { d with mismatches := d.mismatches + 1 }
        else if mb != cfgView cb then
          IO.println s!"MISMATCH line={n} case={d.caseNo} op=S what=modified_attributes_before_restart"
          d := { d with mismatches := d.mismatches + 1 }
        else if ma != cfgView ca then
          IO.println s!"MISMATCH line={n} case={d.caseNo} op=S what=modified_attributes_after_restart"
          d := { d with mismatches := d.mismatches + 1 }
      | none => IO.println s!"BADLINE line={n}"
      match specModattrLoad loaded with
      | some cl =>
        IO.println s!"SPECFAIL line={n} case={d.caseNo} clause={cl.name} tags=loadfail"
        d := { d with specfails := d.specfails + 1 }
      | none => pure ()
      if !orc.isEmpty then d := { d with sNumText := d.sNumText + 1 }
      if !badKeys.isEmpty then d := { d with sKeyText := d.sKeyText + 1 }
      let cfgVerdict := specRestartConfig cb ca
      let cfgSame := cfgVerdict.isNone
      let hasMods := match cb with
        | .obj kvs => (match dGet? "__original_attributes".toList kvs with | some (.obj (_ :: _)) => true | _ => false)
        | _ => false
      if hasMods then d := { d with sMods := d.sMods + 1 }
      if (match unhexJson sh with | some (.obj kvs) => dHas "restore".toList kvs | _ => false) then
        d := { d with sRestored := d.sRestored + 1 }
      if hasWriterKey (unhexJson sh) then d := { d with sWriterKeys := d.sWriterKeys + 1 }
      let a := specRestartState (JValue.obj sb) (JValue.obj sa)
      let pinV := specRestartPinned tname gb ga
      if a.isSome || pinV.isSome || !cfgSame then
        let tags := (if a.isSome && hasType then ["typekey"] else if a.isSome then ["state"] else []) ++
          (if pinV.isSome then ["pinned"] else []) ++ (if !cfgSame then ["config"] else [])
        IO.println s!"SPECFAIL line={n} case={d.caseNo} clause={Clause.stateRoundtrip.name} tags={tagStr tags}"
        d := { d with specfails := d.specfails + 1 }
      return { d with caseNontrivial := true }
    | _, _, _, _, _, _, _, _ => IO.println s!"BADLINE line={n}"; return d
  | _ => IO.println s!"BADLINE line={n}"; return d

def parseEv (s : String) : Option SysEv :=
  match s.splitOn ":" with
  | [k, "t"] => (SysKind.ofString? k).map (⟨·, false⟩)
  | [k, "T"] => (SysKind.ofString? k).map (⟨·, true⟩)
  | _ => none

def handle (d : DSt) (n : Nat) (line : String) : IO DSt := do
  let ws := words line
  let (pre, post) := splitBar ws
  match pre with
  | [] => return d
  | ["C", "M", fh] =>
    let d := closeCase d
    match unhexJson fh with
    | some (.obj kvs) =>
      return { d with caseNo := d.caseNo + 1, mCases := d.mCases + 1, obj := { fields := kvs, original := none }, track := {},
                      tags := [], caseFailed := false, caseHash := hashStr 7 fh, inM := true }
    | _ => IO.println s!"BADLINE line={n}"; return { d with caseNo := d.caseNo + 1, inM := false }
  | ["M", ah, vh] =>
    if !d.inM then IO.println s!"BADLINE line={n}"; return d
    match unhexText ah, unhexJson vh with
    | some a, some v => handleMR { d with caseHash := hashStr (hashStr d.caseHash ah) vh } n true (splitDots a) v post
    | _, _ => IO.println s!"BADLINE line={n}"; return d
  | ["R", ah] =>
    if !d.inM then IO.println s!"BADLINE line={n}"; return d
    match unhexText ah with
    | some a => handleMR { d with caseHash := hashStr (hashStr d.caseHash "R") ah } n false (splitDots a) JValue.null post
    | none => IO.println s!"BADLINE line={n}"; return d
  | ["I", tn] =>
    let d := closeCase d
    let d := { d with caseNo := d.caseNo + 1, inM := false, steps := d.steps + 1, iCases := d.iCases + 1,
                      caseHash := hashStr 17 tn, caseNontrivial := true }
    match post.mapM (fun w => match w.splitOn ":" with
        | [a, f] => (parseNat? f).map (fun fl => (a.toList, fl))
        | _ => none) with
    | some inv =>
      let pinned := pinnedState tn.toList
      let d := { d with iPinned := d.iPinned + pinned.length }
      match specInventory tn.toList inv with
      | some cl =>
        let missing := pinned.filter (fun a => match inv.lookup a with
          | some fl => !hasFlag fl faState
          | none => true)
        IO.println s!"SPECFAIL line={n} case={d.caseNo} clause={cl.name} tags={tagStr (missing.map String.ofList)}"
        return { d with specfails := d.specfails + 1 }
      | none => return d
    | none => IO.println s!"BADLINE line={n}"; return d
  | ["S", sh] =>
    let d := closeCase d
    handleS { d with caseNo := d.caseNo + 1, inM := false, caseHash := hashStr 11 sh } n sh post
  | ["B", _batch, _objs, bytes] =>
    match parseNat? bytes with
    | some b => return { d with stateFileMax := max d.stateFileMax b }
    | none => return d
  | ["W", kind, cseed] =>
    let d := closeCase d
    let d := { d with caseNo := d.caseNo + 1, inM := false, caseHash := hashStr (hashStr 13 kind) cseed, wCases := d.wCases + 1,
                      steps := d.steps + 1 }
    match post with
    | nS :: evs =>
      match parseNat? nS, evs.mapM parseEv with
      | some cnt, some evl =>
        let mut d := d
        if cnt != evl.length || !protocolWord evl then
          IO.println s!"MISMATCH line={n} case={d.caseNo} op=W what=protocol:{" ".intercalate evs}"
          d := { d with mismatches := d.mismatches + 1 }
        return { d with words := (kind ++ ":" ++ cseed, { n := cnt, renameIdx := renameIndex evl }) :: d.words, caseNontrivial := true }
      | _, _ => IO.println s!"BADLINE line={n}"; return d
    | _ => IO.println s!"BADLINE line={n}"; return d
  | ["K", kind, cseed, kS, var] =>
    match d.words.lookup (kind ++ ":" ++ cseed), parseNat? kS, post with
    | some w, some k, [call, foundS] =>
      match Found.ofString? foundS with
      | some found =>
        let mut d := { d with steps := d.steps + 1, kills := d.kills + 1 }
        -- model, process-kill view: dying inside call k means calls 0..k-1 took effect
        let renamed := match w.renameIdx with
          | some i => decide (i < k)
          | none => false
        -- `…new` kinds: the path did not exist before the write (the complete previous version is "no file")
        let noPrev := kind.endsWith "new" || kind == "createobj"
        if noPrev then d := { d with killsNoPrev := d.killsNoPrev + 1 }
        if kind == "createobj" then d := { d with killsCreate := d.killsCreate + 1 }
        let expected := if renamed then Found.new else if noPrev then Found.absent else Found.old
        if found != expected then
          IO.println s!"MISMATCH line={n} case={d.caseNo} op=K what=kill_at:{k};call:{call};impl:{foundS};model:{if renamed then "new" else if noPrev then "absent" else "old"}"
          d := { d with mismatches := d.mismatches + 1 }
        match specCrash (!noPrev) (decide (w.n ≤ k)) found with
        | some cl =>
          IO.println s!"SPECFAIL line={n} case={d.caseNo} clause={cl.name} tags={call}"
          d := { d with specfails := d.specfails + 1 }
        | none => pure ()
        d := if found == .old then { d with killOld := d.killOld + 1 } else if found == .new then { d with killNew := d.killNew + 1 } else d
        d := match call with
          | "mkstemp" => { d with fMkstemp := d.fMkstemp + 1 }
          | "chmod" => { d with fChmod := d.fChmod + 1 }
          | "write" => if var == "p" then { d with fWritePartial := d.fWritePartial + 1 } else { d with fWrite := d.fWrite + 1 }
          | "fsync" => { d with fFsync := d.fFsync + 1 }
          | "close" => { d with fClose := d.fClose + 1 }
          | "rename" => { d with fRename := d.fRename + 1 }
          | "unlink" => { d with fUnlink := d.fUnlink + 1 }
          | _ => { d with fEnd := d.fEnd + 1 }
        return d
      | none => IO.println s!"BADLINE line={n}"; return d
    | _, _, _ => IO.println s!"BADLINE line={n}"; return d
  | ["L", kind, _cseed] =>
    match post with
    | [b, a] =>
      match parseNat? b, parseNat? a with
      | some b, some a =>
        let mut d := { d with steps := d.steps + 1, leftovers := d.leftovers + b }
        -- stale temp files before/after the next complete dump: reported only (the property says the loader ignores them;
        -- that today's dumps glob and remove them, configobject.cpp:467, is not part of it)
        d := { d with leftoversAfter := d.leftoversAfter + (if kind != "write" then a else 0) }
        return d
      | _, _ => IO.println s!"BADLINE line={n}"; return d
    | _ => IO.println s!"BADLINE line={n}"; return d
  | _ => IO.println s!"BADLINE line={n}"; return d

def main : IO Unit := do
  let stdin ← IO.getStdin
  let d ← foldLines stdin handle ({} : DSt)
  let d := closeCase d
  IO.println s!"STATS cases={d.caseNo} steps={d.steps} m_cases={d.mCases} modifies={d.mOps} restores={d.rOps} op_errors={d.mErr} restores_checked={d.rChecked} reactivated={d.reactivated} s_cases={d.sCases} s_typekey={d.sTypeKey} s_modattrs={d.sMods} s_numtext={d.sNumText} s_keytext={d.sKeyText} s_notification={d.sNotification} s_downtime={d.sDowntime} s_user={d.sUser} s_comment={d.sComment} s_writer_keys={d.sWriterKeys} s_obj_in_array={d.sObjInArr} s_restored_above={d.sRestoredAbove} kills_no_previous={d.killsNoPrev} kills_create_object={d.killsCreate} inventories={d.iCases} inventory_pinned={d.iPinned} getters_pinned={d.gPinned} s_too_deep={d.sTooDeep} s_restored_before_dump={d.sRestored} state_file_max_bytes={d.stateFileMax} writes={d.wCases} kills={d.kills} kill_old={d.killOld} kill_new={d.killNew} fault_mkstemp={d.fMkstemp} fault_chmod={d.fChmod} fault_write={d.fWrite} fault_write_partial={d.fWritePartial} fault_fsync={d.fFsync} fault_close={d.fClose} fault_rename={d.fRename} fault_unlink={d.fUnlink} fault_none={d.fEnd} stale_tmp_seen={d.leftovers} stale_tmp_after_dump={d.leftoversAfter} nontrivial={d.nontrivial} mismatches={d.mismatches} specfails={d.specfails}"

/-
  vd_c09 — replays the C09 harness's lines through the model, compares the observations and evaluates
  the specification predicates on the implementation's own observations.  Line format: harness/c09.cpp.

  Output:  MISMATCH line=<n> case=<k> op=<M|G|X|P|E|W> kind=<..> impl=<..> model=<..>
           SPECFAIL line=<n> case=<k> clause=<name>
           BADLINE line=<n>
           STATS cases=.. steps=.. … nontrivial=..
-/
import IcingaModel.Common.Proto
import IcingaModel.C09.Model
import IcingaModel.C09.Spec
import Std.Data.HashSet

open Icinga Icinga.C09 Icinga.Proto

/-! ### line protocol -/

def hexNib (c : Char) : Option Nat :=
  if '0' ≤ c ∧ c ≤ '9' then some (c.toNat - 48)
  else if 'a' ≤ c ∧ c ≤ 'f' then some (c.toNat - 87) else none

def unhexAux : List Char → Array UInt8 → Option (Array UInt8)
  | [], acc => some acc
  | [_], _ => none
  | a :: b :: r, acc =>
    match hexNib a, hexNib b with
    | some x, some y => unhexAux r (acc.push (UInt8.ofNat (x * 16 + y)))
    | _, _ => none

def unhex (s : String) : Option Bytes :=
  if s == "-" || s == "" then some [] else (unhexAux s.toList #[]).map Array.toList

def hexOf (bs : Bytes) : String :=
  if bs.isEmpty then "-" else
  let d := "0123456789abcdef".toList.toArray
  String.ofList (bs.foldr (fun b acc => d[b.toNat / 16]! :: d[b.toNat % 16]! :: acc) [])

def unhexList (s : String) : Option (List Bytes) :=
  if s == "~" then some [] else (s.splitOn ",").mapM unhex

def hexList (l : List Bytes) : String :=
  if l.isEmpty then "~" else ",".intercalate (l.map hexOf)

def dropPrefix? (s pre : String) : Option String :=
  if s.startsWith pre then some (s.drop pre.length).toString else none

def parseVal (t : String) : Option Val :=
  if t == "E" then some .empty
  else match dropPrefix? t "S:" with
    | some h => (unhex h).map .str
    | none => match dropPrefix? t "A:" with
      | some h => (unhexList h).map .arr
      | none =>
        if t == "B:1" then some (.bool true) else if t == "B:0" then some (.bool false)
        else match dropPrefix? t "N:" with
          | some d => d.toInt?.map .num
          | none => none

def valToRaw : Val → Raw := Raw.ofVal

def showVal : Val → String
  | .empty => "E" | .str b => "S:" ++ hexOf b | .arr l => "A:" ++ hexList l
  | .bool x => if x then "B:1" else "B:0" | .num n => "N:" ++ toString n

def showCmdOut : CmdOut → String
  | .sh b => "sh:" ++ hexOf b | .argv l => "argv:" ++ hexList l

def parseCmdOut (t : String) : Option (Option CmdOut) :=
  if t == "none" then some none
  else match dropPrefix? t "sh:" with
    | some h => (unhex h).map (fun b => some (.sh b))
    | none => match dropPrefix? t "argv:" with
      | some h => (unhexList h).map (fun l => some (.argv l))
      | none => none

def atP : Bytes := [64, 80]

def substPlugin (plugin : Bytes) (b : Bytes) : Bytes :=
  if atP.isPrefixOf b then plugin ++ b.drop 2 else b

def parseCmd (plugin : Bytes) (t : String) : Option Cmd :=
  match dropPrefix? t "s:" with
  | some h => (unhex h).map (fun b => .str (substPlugin plugin b))
  | none => match dropPrefix? t "a:" with
    | some h => (unhexList h).map (fun l => .arr (l.map (fun e => if e = atP then plugin else e)))
    | none => none

def parseArg (t : String) : Option ArgSpec :=
  match t.splitOn ";" with
  | [dk, isd, k, v, req, sk, rk, ord, sep, si] => do
    let dkey ← unhex dk
    let v ← parseVal v
    let si ← parseVal si
    if isd == "0" then
      pure { dkey := dkey, value := valToRaw v }
    else
      let key ← (if k == "~" then some none else (unhex k).map some)
      let sep ← (if sep == "~" then some none else (unhex sep).map some)
      let ord ← ord.toInt?
      pure { dkey := dkey, key := key, value := valToRaw v, required := req == "1", skipKey := sk == "1",
             repeatKey := rk != "0", order := ord, separator := sep, setIf := valToRaw si }
  | _ => none

/-- `std::map<String, Value>` order of the `arguments` dictionary: bytewise lexicographic on the key. -/
def bytesLt : Bytes → Bytes → Bool
  | [], [] => false
  | [], _ :: _ => true
  | _ :: _, [] => false
  | x :: xs, y :: ys => if x.toNat < y.toNat then true else if y.toNat < x.toNat then false else bytesLt xs ys

def insertByKey (a : ArgSpec) : List ArgSpec → List ArgSpec
  | [] => [a]
  | x :: xs => if bytesLt a.dkey x.dkey then a :: x :: xs else x :: insertByKey a xs

def dictOrder (as : List ArgSpec) : List ArgSpec := as.foldl (fun acc a => insertByKey a acc) []

/-- `<cmd> <nargs|-> <arg>*` at the head of `ws`; returns the rest. -/
def parseCmdArgs (plugin : Bytes) (ws : List String) : Option (Cmd × Option (List ArgSpec) × List String) :=
  match ws with
  | c :: n :: rest => do
    let cmd ← parseCmd plugin c
    if n == "-" then pure (cmd, none, rest)
    else
      let k ← n.toNat?
      if rest.length < k then none
      else
        let as ← (rest.take k).mapM parseArg
        pure (cmd, some (dictOrder as), rest.drop k)
  | _ => none

/-! ### driver state -/

def b (s : String) : Bytes := s.toUTF8.toList

structure DSt where
  plugin : Bytes := []
  svc : Obj := { rname := b "service", vars := [], attrs := [] }
  host : Obj := { rname := b "host", vars := [], attrs := [] }
  cmd : Obj := { rname := b "command", vars := [], attrs := [] }
  env : List (String × Bytes) := []
  dflt : Defaults := {}
  undefChecked : Nat := 0
  arrayCmdChecked : Nat := 0
  envMacroVars : Nat := 0
  globalVars : Nat := 0
  envChecked : Nat := 0
  envThrew : Nat := 0
  signals : Nat := 0
  typedVals : Nat := 0
  caseNo : Nat := 0
  steps : Nat := 0
  nM : Nat := 0
  nG : Nat := 0
  nX : Nat := 0
  nP : Nat := 0
  nE : Nat := 0
  nW : Nat := 0
  errRec : Nat := 0
  errUnclosed : Nat := 0
  errMixing : Nat := 0
  errRequired : Nat := 0
  unsupported : Nat := 0
  missing : Nat := 0
  arrays : Nat := 0
  shLines : Nat := 0
  shOutside : Nat := 0
  tiePerm : Nat := 0
  spawned : Nat := 0
  notRun : Nat := 0
  timeouts : Nat := 0
  dqCases : Nat := 0
  dqInterpreted : Nat := 0
  verbatimChecked : Nat := 0
  nH : Nat := 0
  nK : Nat := 0
  nY : Nat := 0
  layoutChecked : Nat := 0
  sepJoined : Nat := 0
  cachedChecked : Nat := 0
  cachedDiverged : Nat := 0
  crashes : Nat := 0
  seen : Std.HashSet UInt64 := {}
  nontrivial : Nat := 0
  mismatches : Nat := 0
  specfails : Nat := 0

def svcAttrs0 : List (Bytes × Val) :=
  [(b "display_name", .str (b "s")), (b "notes", .str []), (b "notes_url", .str []), (b "action_url", .str [])]
def hostAttrs0 : List (Bytes × Val) :=
  [(b "address", .str []), (b "address6", .str []), (b "display_name", .str (b "h")), (b "notes", .str []),
   (b "notes_url", .str []), (b "action_url", .str [])]

def setAssoc (l : List (Bytes × Val)) (k : Bytes) (v : Val) : List (Bytes × Val) :=
  (k, v) :: l.filter (fun p => p.1 ≠ k)

def DSt.objs (d : DSt) (svc : Bool) : List Obj := if svc then [d.svc, d.host, d.cmd] else [d.host, d.cmd]
def DSt.look (d : DSt) (svc : Bool) : Bytes → Lookup := resolveMacroFull (d.objs svc) d.dflt
/-- The levels macro values come from: service, host, command, global `Vars`. -/
def DSt.levels (d : DSt) (svc : Bool) : List Obj := d.objs svc ++ [d.dflt.icinga]

def mismatch (d : DSt) (n : Nat) (op kind impl model : String) : IO DSt := do
  IO.println s!"MISMATCH line={n} case={d.caseNo} op={op} kind={kind} impl={impl} model={model}"
  return { d with mismatches := d.mismatches + 1 }

def specfail (d : DSt) (n : Nat) (cl : Clause) (cls : String := "-") : IO DSt := do
  IO.println s!"SPECFAIL line={n} case={d.caseNo} clause={cl.name} class={cls}"
  return { d with specfails := d.specfails + 1 }

def countErr (d : DSt) : Err → DSt
  | .recursion => { d with errRec := d.errRec + 1 }
  | .unclosed => { d with errUnclosed := d.errUnclosed + 1 }
  | .mixing => { d with errMixing := d.errMixing + 1 }
  | .required => { d with errRequired := d.errRequired + 1 }
  | .unsupported => { d with unsupported := d.unsupported + 1 }

def errName : Err → String
  | .recursion => "recursion" | .unclosed => "unclosed" | .mixing => "mixing" | .required => "required" | .unsupported => "unsupported"

def noteNontrivial (d : DSt) (line : String) : DSt :=
  let h := hash line
  if d.seen.contains h then d else { d with seen := d.seen.insert h, nontrivial := d.nontrivial + 1 }

/-! ### `std::sort` leaves the order inside a class of equal `order` open: membership instead of equality -/

/-- The model's argv modulo the order inside classes of equal `order`. -/
def argvAllowed (base : List Bytes) (rs : List RArg) (obs : List Bytes) : Bool :=
  base.isPrefixOf obs &&
    (consumeClasses ((orderClasses rs).map (·.map emitArg)) [obs.drop base.length]).any (·.isEmpty)

/-- Compare the implementation's resolved command with the model's, modulo sort ties.
    Returns `(equal, neededPermutation)`. -/
def cmdAgrees (look : Bytes → Lookup) (cmd : Cmd) (args : Option (List ArgSpec)) (model impl : CmdOut) : Bool × Bool :=
  if model = impl then (true, false) else
  match args, impl with
  | some as, .argv l =>
    match resolveCommand look 0 cmd true, resolveArgs look 0 as with
    | .ok (.argv base), .ok rs => (argvAllowed base rs l, true)
    | _, _ => (false, false)
  | _, _ => (false, false)

/-- Spec clause `argv_layout` on an argv the IMPLEMENTATION produced (resolved command or what the plugin saw).
    Which arguments are kept and what their values are comes from the model's value resolution; how they
    are laid out is the specification's own statement (`specArgvLayout`). -/
def layoutClause (d : DSt) (look : Bytes → Lookup) (cmd : Cmd) (args : Option (List ArgSpec)) (argv : List Bytes) : DSt × Option Clause :=
  match args with
  | some as =>
    match resolveCommand look 0 cmd true, resolveArgs look 0 as with
    | .ok (.argv base), .ok rs =>
      let d := { d with layoutChecked := d.layoutChecked + 1,
                        sepJoined := d.sepJoined + (rs.filter (fun a => a.sep.isSome && !a.skipKey && !a.skipValue)).length }
      (d, specArgvLayout base rs argv)
    | _, _ => (d, none)
  | none => (d, none)

/-- The value of a macro as the specification clauses `string_cmd_verbatim` / `array_cmd_verbatim` use it: the scalar text
    the macro alone resolves to (after recursion through custom variables), `$$` = `$`. -/
def valueOfLook (look : Bytes → Lookup) (nm : Bytes) : Option Bytes :=
  if nm = [] then some [DOLLAR] else
  match internalResolve look 14 false (DOLLAR :: (nm ++ [DOLLAR])) with
  | .ok (v, _) => v.scalarBytes
  | .error _ => none

/-- Spec clause `array_cmd_verbatim` on an argv the IMPLEMENTATION produced for an array command line. -/
def arrayClause (d : DSt) (look : Bytes → Lookup) (cmd : Cmd) (hasArgs : Bool) (argv : List Bytes) : DSt × Option Clause :=
  match cmd with
  | .arr elems =>
    let vo := valueOfLook look
    if (elems.mapM (specExpectedElem vo)).isSome then
      ({ d with arrayCmdChecked := d.arrayCmdChecked + 1 }, specArrayCmd elems vo hasArgs argv)
    else (d, none)
  | _ => (d, none)

/-! ### handlers -/

def parseImplRes (post : List String) : Option (Except String (String × String)) :=
  match post with
  | ["ok", v, m] => some (.ok (v, m))
  | ["ok", v] => some (.ok (v, ""))
  | ["err", k] => some (.error k)
  | ["err", k, _] => some (.error k)
  | _ => none

/-- One `ResolveMacros` result against the model under `look`. -/
def checkM (d : DSt) (n : Nat) (line op : String) (look : Bytes → Lookup) (lvl : Nat) (esc : Bool) (s : Bytes)
    (impl : Except String (String × String)) (levels : Option (List Obj) := none) : IO DSt := do
  let mut d := d
  /- specification on the implementation's observation: a short macro no level defines is a missing macro -/
  match levels, impl with
  | some lv, .ok (_, m) =>
    if (macroNames (tokenize s)).any (undefinedShort lv) then d := { d with undefChecked := d.undefChecked + 1 }
    match specUndefined lv s (m == "1") with | some c => d ← specfail d n c | none => pure ()
  | _, _ => pure ()
  match resolveMacros look lvl esc (.str s) with
  | .error .unsupported => return { d with unsupported := d.unsupported + 1 }
  | .error e =>
    d := noteNontrivial (countErr d e) line
    -- WHICH exception is thrown first (and its wording) is not part of the property: any failure matches any failure
    if !(match impl with | .error _ => true | .ok _ => false) then d ← mismatch d n op "error" (toString (repr impl)) (errName e)
    return d
  | .ok (v, miss) =>
    if miss then d := { d with missing := d.missing + 1 }
    match v with | .arr _ => d := { d with arrays := d.arrays + 1 } | _ => pure ()
    if s.contains DOLLAR then d := noteNontrivial d line
    if impl != .ok (showVal v, showBool miss) then
      d ← mismatch d n op "value" (toString (repr impl)) s!"{showVal v},{showBool miss}"
    return d

def handleM (d : DSt) (n : Nat) (line : String) (pre post : List String) : IO DSt := do
  match pre, parseImplRes post with
  | [svc, lvl, esc, hx], some impl =>
    match parseBool? svc, lvl.toNat?, parseBool? esc, unhex hx with
    | some svc, some lvl, some esc, some s =>
      checkM { d with steps := d.steps + 1, nM := d.nM + 1 } n line "M" (d.look svc) lvl esc s impl (some (d.levels svc))
    | _, _, _, _ => IO.println s!"BADLINE line={n}"; return d
  | _, _ => IO.println s!"BADLINE line={n}"; return d

/-- One `ResolveArguments` result against the model under `look`; spec clause `argv_layout`. -/
def checkG (d : DSt) (n : Nat) (line op : String) (look : Bytes → Lookup) (cmd : Cmd) (args : Option (List ArgSpec))
    (impl : Except String (String × String)) (levels : Option (List Obj) := none) : IO DSt := do
  let mut d := d
  /- specification: a `required` argument whose value mentions a short macro no level defines fails the resolution -/
  match levels, args with
  | some lv, some as =>
    if as.any (requiredUndefined lv) then d := { d with undefChecked := d.undefChecked + 1 }
    match specRequiredUndefined lv as (match impl with | .error _ => true | .ok _ => false) with
    | some c => d ← specfail d n c | none => pure ()
  | _, _ => pure ()
  match impl with
  | .ok (v, _) =>
    match parseCmdOut v with
    | some (some (.argv l)) =>
      let (d', c) := layoutClause d look cmd args l
      d := d'
      match c with | some c => d ← specfail d n c | none => pure ()
      let (d', c) := arrayClause d look cmd args.isSome l
      d := d'
      match c with | some c => d ← specfail d n c | none => pure ()
    | _ => pure ()
  | _ => pure ()
  match resolveArguments look 0 cmd args with
  | .error .unsupported => return { d with unsupported := d.unsupported + 1 }
  | .error e =>
    d := noteNontrivial (countErr d e) line
    -- WHICH exception is thrown first (and its wording) is not part of the property: any failure matches any failure
    if !(match impl with | .error _ => true | .ok _ => false) then d ← mismatch d n op "error" (toString (repr impl)) (errName e)
    return d
  | .ok co =>
    d := noteNontrivial d line
    match impl with
    | .ok (v, _) =>
      match parseCmdOut v with
      | some (some ico) =>
        let (ok, perm) := cmdAgrees look cmd args co ico
        if perm && ok then d := { d with tiePerm := d.tiePerm + 1 }
        if !ok then d ← mismatch d n op "command" v (showCmdOut co)
        return d
      | _ => mismatch d n op "command" v (showCmdOut co)
    | .error k => mismatch d n op "command" ("err:" ++ k) (showCmdOut co)

def handleG (d : DSt) (n : Nat) (line : String) (pre post : List String) : IO DSt := do
  match pre with
  | svc :: rest =>
    match parseBool? svc, parseCmdArgs d.plugin rest, parseImplRes post with
    | some svc, some (cmd, args, []), some impl =>
      checkG { d with steps := d.steps + 1, nG := d.nG + 1 } n line "G" (d.look svc) cmd args impl (some (d.levels svc))
    | _, _, _ => IO.println s!"BADLINE line={n}"; return d
  | _ => IO.println s!"BADLINE line={n}"; return d

/-! ### the `resolvedMacros` cache -/

def parseCache (t : String) : Option (List (Bytes × Val)) :=
  if t == "~" then some [] else
  (t.splitOn "+").mapM fun e =>
    match e.splitOn "=" with
    | [nh, vt] => do
      let nm ← unhex nh
      let v ← parseVal vt
      pure (nm, v)
    | _ => none

/-- Every entry the fill pass stored must be the model's value of that macro (after recursion, unescaped). -/
def checkCache (d : DSt) (n : Nat) (op : String) (look : Bytes → Lookup) (fuel : Nat) (cache : List (Bytes × Val)) : IO DSt := do
  let mut d := d
  for (nm, v) in cache do
    match cacheEntry look fuel nm with
    | some mv => if mv ≠ v then d ← mismatch d n op "cache" s!"{hexOf nm}={showVal v}" (showVal mv)
    | none => d ← mismatch d n op "cache" s!"{hexOf nm}={showVal v}" "absent"
  return d

/-- Class of a `cached_equals_direct` failure: the model explains it by a macro nested in a cached value that
    was missing (the fill pass drops/fails the argument, the cache does not carry that fact). -/
def divergenceClass (look : Bytes → Lookup) (fuel : Nat) (cache : List (Bytes × Val)) (modelExplains : Bool) : String :=
  if modelExplains && cache.any (fun e => nestedMissing look fuel e.1) then "nested_missing" else "-"

def handleH (d : DSt) (n : Nat) (line : String) (pre post : List String) : IO DSt := do
  match pre, post with
  | [svc, lvl, esc, hx], [st1, v1, m1, ch, st2, v2, m2] =>
    match parseBool? svc, lvl.toNat?, parseBool? esc, unhex hx, parseCache ch, parseImplRes [st1, v1, m1], parseImplRes [st2, v2, m2] with
    | some svc, some lvl, some esc, some s, some cache, some r1, some r2 =>
      let look := d.look svc
      let fuel := fuelOfLevel (lvl + 1)
      let mut d := { d with steps := d.steps + 1, nH := d.nH + 1, cachedChecked := d.cachedChecked + 1 }
      -- specification on the implementation's observations: same value (or both fail)
      -- a fill pass that fails reports UNKNOWN on the scheduling node; nothing is sent to the executing node
      let same := match r1, r2 with
        | .ok (a, _), .ok (b, _) => a == b
        | .error _, _ => true
        | _, _ => false
      let m1r := resolveMacros look lvl esc (.str s)
      let m2r := resolveMacros (cacheLookup cache) lvl esc (.str s)
      let unsup := (match m1r with | .error .unsupported => true | _ => false) || (match m2r with | .error .unsupported => true | _ => false)
      if !same && !unsup then
        let explains := (match m1r, r1 with | .ok (v, _), .ok (a, _) => showVal v == a | .error _, .error _ => true | _, _ => false) &&
                        (match m2r, r2 with | .ok (v, _), .ok (a, _) => showVal v == a | .error _, .error _ => true | _, _ => false)
        d := { d with cachedDiverged := d.cachedDiverged + 1 }
        d ← specfail d n .cachedEqualsDirect (divergenceClass look fuel cache explains)
      d ← checkM d n line "H" look lvl esc s r1 (some (d.levels svc))
      d ← checkCache d n "H" look fuel cache
      checkM d n line "H2" (cacheLookup cache) lvl esc s r2
    | _, _, _, _, _, _, _ => IO.println s!"BADLINE line={n}"; return d
  | _, _ => IO.println s!"BADLINE line={n}"; return d

def agreesCmd (look : Bytes → Lookup) (cmd : Cmd) (args : Option (List ArgSpec)) (impl : Except String (String × String)) : Bool :=
  match resolveArguments look 0 cmd args, impl with
  | .ok co, .ok (v, _) => match parseCmdOut v with | some (some ico) => (cmdAgrees look cmd args co ico).1 | _ => false
  | .error e, .error k => errName e == k
  | _, _ => false

/-- Inputs outside the model (arrays or number-like texts in `set_if`, nested arrays): the clause
    `cached_equals_direct` cannot be classified there and is not evaluated. -/
def modelUnsupported (look : Bytes → Lookup) (cache : List (Bytes × Val)) (cmd : Cmd) (args : Option (List ArgSpec)) : Bool :=
  (match resolveArguments look 0 cmd args with | .error .unsupported => true | _ => false) ||
  (match resolveArguments (cacheLookup cache) 0 cmd args with | .error .unsupported => true | _ => false)

def handleK (d : DSt) (n : Nat) (line : String) (pre post : List String) : IO DSt := do
  match pre, post with
  | svc :: rest, [st1, c1, ch, st2, c2] =>
    match parseBool? svc, parseCmdArgs d.plugin rest, parseCache ch, parseImplRes [st1, c1], parseImplRes [st2, c2] with
    | some svc, some (cmd, args, []), some cache, some r1, some r2 =>
      let look := d.look svc
      let mut d := { d with steps := d.steps + 1, nK := d.nK + 1, cachedChecked := d.cachedChecked + 1 }
      -- a fill pass that fails reports UNKNOWN on the scheduling node; nothing is sent to the executing node
      let same := match r1, r2 with
        | .ok (a, _), .ok (b, _) => a == b
        | .error _, _ => true
        | _, _ => false
      if !same && !modelUnsupported look cache cmd args then
        let explains := agreesCmd look cmd args r1 && agreesCmd (cacheLookup cache) cmd args r2
        d := { d with cachedDiverged := d.cachedDiverged + 1 }
        d ← specfail d n .cachedEqualsDirect (divergenceClass look 14 cache explains)
      d ← checkG d n line "K" look cmd args r1 (some (d.levels svc))
      d ← checkCache d n "K" look 14 cache
      checkG d n line "K2" (cacheLookup cache) cmd args r2
    | _, _, _, _, _ => IO.println s!"BADLINE line={n}"; return d
  | _, _ => IO.println s!"BADLINE line={n}"; return d

def hasDq (s : Bytes) : Bool := s.contains 34 || s.contains 96

structure RunObs where
  ran : Bool
  argv : List Bytes
  recorded : Option CmdOut
  state : Nat
  exit : Int
  out : Bytes
  perf : List Bytes
  gone : String
  suffix : Bytes
  env : Option (List (String × Bytes))    -- `none`: ScriptFunc threw

def parseEnvObs (t : String) : Option (Option (List (String × Bytes))) :=
  if t == "!" then some none
  else if t == "~" then some (some [])
  else ((t.splitOn "+").mapM fun (e : String) =>
    match e.splitOn "=" with
    | [k, vh] => (unhex vh).map (fun v => (k, v))
    | _ => none).map some

def parseRunObs (post : List String) : Option RunObs :=
  match post with
  | [ran, argvh, rech, st, oex, oouth, perfh, gone, sfx, envt] =>
    match parseBool? ran, unhexList argvh, parseCmdOut rech, st.toNat?, oex.toInt?, unhex oouth, unhexList perfh, unhex sfx, parseEnvObs envt with
    | some ran, some argv, some recorded, some ostate, some oexit, some oout, some operf, some sfx, some env =>
      some { ran := ran, argv := argv, recorded := recorded, state := ostate, exit := oexit, out := oout, perf := operf, gone := gone, suffix := sfx, env := env }
    | _, _, _, _, _, _, _, _, _ => none
  | _ => none

/-- The text an `env` entry denotes under `look` (model: `envValue`); `none`: the resolution fails. -/
def envText (look : Bytes → Lookup) (raw : Bytes) : Option (Bytes × Bool) :=
  match envValue look raw with
  | .ok r => some r
  | .error _ => none

def envUnsupported (look : Bytes → Lookup) (raw : Bytes) : Bool :=
  match envValue look raw with
  | .error .unsupported => true
  | _ => false

/-- One end-to-end run: specification clauses on the observations, then model against implementation. -/
def checkRun (d : DSt) (n : Nat) (op : String) (look : Bytes → Lookup) (cmd : Cmd) (args : Option (List ArgSpec))
    (exit : Int) (out : Bytes) (tmo slp : Nat) (o : RunObs) (term : String := "-") (levels : Option (List Obj) := none) : IO DSt := do
  let mut d := d
  /- an `env` entry whose resolution fails: the exception leaves ExecuteCommand; the model must predict exactly that -/
  let envFails := d.env.any (fun e => (envText look e.2).isNone && !envUnsupported look e.2)
  let envUnsup := d.env.any (fun e => envUnsupported look e.2)
  if o.env.isNone then
    d := { d with envThrew := d.envThrew + 1 }
    let argsUnsup := match resolveArguments look 0 cmd args with | .error .unsupported => true | _ => false
    if !envFails && !envUnsup && !argsUnsup then d ← mismatch d n op "env-exception" "threw" "resolves"
    return d
  let ran := o.ran
  let raised := term.startsWith "r"
  let argv := o.argv
  let recorded := o.recorded
  let timedOut := tmo > 0 && slp > tmo * 10
  if ran then d := { d with spawned := d.spawned + 1 } else d := { d with notRun := d.notRun + 1 }
  /- specification on the implementation's observations -/
  let mut fails : List Clause := []
  match levels, args with
  | some lv, some as =>
    if as.any (requiredUndefined lv) then d := { d with undefChecked := d.undefChecked + 1 }
    match specRequiredUndefined lv as o.recorded.isNone with | some c => fails := fails ++ [c] | none => pure ()
  | _, _ => pure ()
  if timedOut then
    d := { d with timeouts := d.timeouts + 1 }
    match specTimeout o.state (o.gone == "1") with | some c => fails := fails ++ [c] | none => pure ()
  else if recorded.isNone then
    match specFailed ran o.state o.exit with | some c => fails := fails ++ [c] | none => pure ()
  else if ran && raised then
    d := { d with signals := d.signals + 1 }
    match specSignal o.state with | some c => fails := fails ++ [c] | none => pure ()
  else if ran then
    match specExit exit o.state o.exit with | some c => fails := fails ++ [c] | none => pure ()
    match specOutput o.suffix exit out o.out o.perf with | some c => fails := fails ++ [c] | none => pure ()
  /- environment: every C09E_ entry carries its text verbatim -/
  if ran && recorded.isSome then
    for (k, raw) in d.env do
      let seen := (o.env.getD []).lookup k
      match envText look raw with
      | some (t, miss) =>
        d := { d with envChecked := d.envChecked + 1 }
        match specEnv (if miss then none else some t) seen with | some c => fails := fails ++ [c] | none => pure ()
        if seen ≠ some t then d ← mismatch d n op "env" s!"{k}={(seen.map hexOf).getD "absent"}" (hexOf t)
      | none =>
        if !envUnsupported look raw then d ← mismatch d n op "env" s!"{k}={(seen.map hexOf).getD "absent"}" "error"
  match recorded with
  | some r =>
    if ran then
      match specArgvOfCommand r argv with | some c => fails := fails ++ [c] | none => pure ()
      let (d', c) := layoutClause d look cmd args argv
      d := d'
      match c with | some c => fails := fails ++ [c] | none => pure ()
      let (d', c) := arrayClause d look cmd args.isSome argv
      d := d'
      match c with | some c => fails := fails ++ [c] | none => pure ()
  | none => pure ()
  match cmd, args with
  | .str tmpl, none =>
    if recorded.isSome then
      let valueOf := valueOfLook look
      if hasDq tmpl then
        d := { d with dqCases := d.dqCases + 1 }
      match specExpectedArgv tmpl valueOf with
      | some ws =>
        d := { d with verbatimChecked := d.verbatimChecked + 1 }
        if !ran || argv ≠ ws then
          fails := fails ++ [.stringCmdVerbatim]
          if hasDq tmpl then d := { d with dqInterpreted := d.dqInterpreted + 1 }
      | none => pure ()
  | _, _ => pure ()
  for c in fails do
    d ← specfail d n c
  /- model against implementation -/
  match resolveArguments look 0 cmd args with
  | .error .unsupported => return { d with unsupported := d.unsupported + 1 }
  | .error e =>
    d := countErr d e
    -- PluginUtility::ExecuteCommand reports the failure as a finished process (exit status 3), nothing is started
    match executeCommand look cmd args o.out with
    | .failed cr =>
      if ran || recorded.isSome || o.state != cr.state || o.exit != cr.exit then
        d ← mismatch d n op "error" s!"ran={ran},state={o.state},exit={o.exit}" (errName e)
    | .started _ => d ← mismatch d n op "error" s!"ran={ran},state={o.state}" "started"
    return d
  | .ok co =>
    match recorded with
    | none =>
      -- an `env` entry that cannot be resolved: reported as a failed check instead of an exception — equally a failure
      if (envFails || envUnsup) && !ran && o.state == 3 then return d
      mismatch d n op "command" "none" (showCmdOut co)
    | some r =>
      let (ok, perm) := cmdAgrees look cmd args co r
      if perm && ok then d := { d with tiePerm := d.tiePerm + 1 }
      if !ok then d ← mismatch d n op "command" (showCmdOut r) (showCmdOut co)
      /- what the process received -/
      match co with
      | .argv _ =>
        -- the recorded array is what the model allows; the plugin must have received it verbatim
        match r with
        | .argv l => if !ran || argv ≠ l then d ← mismatch d n op "argv" s!"{ran},{hexList argv}" (hexList l)
        | _ => pure ()
      | .sh sline =>
        d := { d with shLines := d.shLines + 1 }
        match shWords sline with
        | .ok ws => if !ran || argv ≠ ws then d ← mismatch d n op "sh-argv" s!"{ran},{hexList argv}" (hexList ws)
        | .error _ => d := { d with shOutside := d.shOutside + 1 }
      if ran && (timedOut || raised) then
        -- how the process ended: the deadline passed (SIGTERM sent) or it died by a signal; whatever `waitpid` reports
        -- the model's exit status is 128, hence UNKNOWN (the exit NUMBER is not compared, only the state)
        let e : Ending := { deadlinePassed := timedOut, couldNotKill := false,
                            wait := if raised then .signaled ((term.drop 1).toString.toNat?.getD 0) else .exited exit.toNat }
        let ms := exitToState e.exit
        if ms != o.state then d ← mismatch d n op "kill-state" s!"{o.state}" s!"{ms}"
      if ran && !timedOut && !raised then
        let mo := processFinished o.suffix exit out
        if mo.state != o.state || mo.exit != o.exit || mo.output != o.out || mo.perfdata != o.perf then
          d ← mismatch d n op "result" s!"{o.state},{o.exit},{hexOf o.out},{hexList o.perf}"
                s!"{mo.state},{mo.exit},{hexOf mo.output},{hexList mo.perfdata}"
      return d

def handleX (d : DSt) (n : Nat) (line : String) (pre post : List String) : IO DSt := do
  match pre with
  | svc :: rest =>
    match parseBool? svc, parseCmdArgs d.plugin rest with
    | some svc, some (cmd, args, ex :: outh :: tmo :: slp :: term) =>
      if term.length > 1 then IO.println s!"BADLINE line={n}"; return d else
      -- `<command timeout>/<check_timeout>`: the plugin's timeout is the checkable's
      let tmoEff : Option Nat := match tmo.splitOn "/" with
        | [c] => c.toNat?.map (fun c => itsTimeout c none)
        | [c, k] => match c.toNat?, k.toNat? with | some c, some k => some (itsTimeout c (some k)) | _, _ => none
        | _ => none
      match ex.toInt?, unhex outh, tmoEff, slp.toNat?, parseRunObs post with
      | some exit, some out, some tmo, some slp, some o =>
        let d := noteNontrivial { d with steps := d.steps + 1, nX := d.nX + 1 } line
        checkRun d n "X" (d.look svc) cmd args exit out tmo slp o (term.headD "-") (some (d.levels svc))
      | _, _, _, _, _ => IO.println s!"BADLINE line={n}"; return d
    | _, _ => IO.println s!"BADLINE line={n}"; return d
  | _ => IO.println s!"BADLINE line={n}"; return d

def handleY (d : DSt) (n : Nat) (line : String) (pre post : List String) : IO DSt := do
  match pre, post with
  | svc :: rest, ch :: fillRan :: obs =>
    match parseBool? svc, parseCmdArgs d.plugin rest, parseCache ch, parseBool? fillRan, parseRunObs (obs.take 10), parseRunObs (obs.drop 10) with
    | some svc, some (cmd, args, [ex, outh]), some cache, some fillRan, some o1, some o2 =>
      match ex.toInt?, unhex outh with
      | some exit, some out =>
        let look := d.look svc
        let mut d := noteNontrivial { d with steps := d.steps + 1, nY := d.nY + 1, cachedChecked := d.cachedChecked + 1 } line
        -- specification on the implementation's observations
        if fillRan then d ← specfail d n .fillNotRun
        let same := o1.recorded.isNone || (o1.ran == o2.ran && o1.argv == o2.argv && o1.state == o2.state && o1.out == o2.out && o1.env == o2.env)
        if !same && !modelUnsupported look cache cmd args then
          let r1 : Except String (String × String) := match o1.recorded with | some c => .ok (showCmdOut c, "") | none => .error "required"
          let r2 : Except String (String × String) := match o2.recorded with | some c => .ok (showCmdOut c, "") | none => .error "required"
          let explains := agreesCmd look cmd args r1 && agreesCmd (cacheLookup cache) cmd args r2
          d := { d with cachedDiverged := d.cachedDiverged + 1 }
          d ← specfail d n .cachedEqualsDirect (divergenceClass look 14 cache explains)
        d ← checkRun d n "Y" look cmd args exit out 0 0 o1 "-" (some (d.levels svc))
        d ← checkCache d n "Y" look 14 cache
        checkRun d n "Y2" (cacheLookup cache) cmd args exit out 0 0 o2
      | _, _ => IO.println s!"BADLINE line={n}"; return d
    | _, _, _, _, _, _ => IO.println s!"BADLINE line={n}"; return d
  | _, _ => IO.println s!"BADLINE line={n}"; return d

def handleP (d : DSt) (n : Nat) (line : String) (pre post : List String) : IO DSt := do
  match pre, post with
  | [ex, outh], [sfxh, st, oex, oouth, perfh] =>
    match ex.toInt?, unhex outh, st.toNat?, oex.toInt?, unhex oouth, unhexList perfh, unhex sfxh with
    | some exit, some out, some ostate, some oexit, some oout, some operf, some sfx =>
      let mut d := { d with steps := d.steps + 1, nP := d.nP + 1 }
      if out.contains BAR then d := noteNontrivial d line
      match specExit exit ostate oexit with | some c => d ← specfail d n c | none => pure ()
      match specOutput sfx exit out oout operf with | some c => d ← specfail d n c | none => pure ()
      let mo := processFinished sfx exit out
      if mo.state != ostate || mo.exit != oexit || mo.output != oout || mo.perfdata != operf then
        d ← mismatch d n "P" "result" s!"{ostate},{oexit},{hexOf oout},{hexList operf}"
              s!"{mo.state},{mo.exit},{hexOf mo.output},{hexList mo.perfdata}"
      return d
    | _, _, _, _, _, _, _ => IO.println s!"BADLINE line={n}"; return d
  | _, _ => IO.println s!"BADLINE line={n}"; return d

def handle (d : DSt) (n : Nat) (line : String) : IO DSt := do
  let ws := words line
  let (pre, post) := splitBar ws
  match pre with
  | [] => return d
  | "C" :: _ =>
    match post with
    | [ph] =>
      match unhex ph with
      | some p => return { d with plugin := p, caseNo := d.caseNo + 1,
                                  svc := { d.svc with vars := [], attrs := svcAttrs0 },
                                  host := { d.host with vars := [], attrs := hostAttrs0 },
                                  cmd := { d.cmd with vars := [] }, env := [], dflt := {} }
      | none => IO.println s!"BADLINE line={n}"; return d
    | _ => IO.println s!"BADLINE line={n}"; return d
  | ["N", idx, vh] =>
    match unhex vh with
    | some v => return { d with env := (idx, v) :: d.env.filter (fun e => e.1 != idx) }
    | none => IO.println s!"BADLINE line={n}"; return d
  | ["U", nh, vh] =>
    match unhex nh, unhex vh with
    | some nm, some v =>
      return { d with dflt := { d.dflt with env := (nm, v) :: d.dflt.env.filter (fun p => p.1 ≠ nm) }, envMacroVars := d.envMacroVars + 1 }
    | _, _ => IO.println s!"BADLINE line={n}"; return d
  | ["V", lvl, nh, vt] =>
    match unhex nh, parseVal vt with
    | some nm, some v =>
      let d := match v with | .bool _ | .num _ => { d with typedVals := d.typedVals + 1 } | _ => d
      if lvl == "s" then return { d with svc := { d.svc with vars := setAssoc d.svc.vars nm v } }
      else if lvl == "h" then return { d with host := { d.host with vars := setAssoc d.host.vars nm v } }
      else if lvl == "c" then return { d with cmd := { d.cmd with vars := setAssoc d.cmd.vars nm v } }
      else if lvl == "i" then return { d with dflt := { d.dflt with globals := setAssoc d.dflt.globals nm v }, globalVars := d.globalVars + 1 }
      else IO.println s!"BADLINE line={n}"; return d
    | _, _ => IO.println s!"BADLINE line={n}"; return d
  | ["T", lvl, attr, vh] =>
    match unhex vh with
    | some v =>
      let a := b attr
      -- an empty display_name reads as the object's (short) name (host.ti / service.ti getters)
      let v := if attr == "display_name" && v.isEmpty then (if lvl == "h" then b "h" else b "s") else v
      if lvl == "s" then return { d with svc := { d.svc with attrs := setAssoc d.svc.attrs a (.str v) } }
      else if lvl == "h" then return { d with host := { d.host with attrs := setAssoc d.host.attrs a (.str v) } }
      else IO.println s!"BADLINE line={n}"; return d
    | none => IO.println s!"BADLINE line={n}"; return d
  | "Z" :: sig :: _ =>
    -- the process executing this operation died (signal) or hung (14): per-operation alarm
    IO.println s!"SPECFAIL line={n} case={d.caseNo} clause={Clause.noCrash.name} class=- signal={sig}"
    return { d with steps := d.steps + 1, crashes := d.crashes + 1, specfails := d.specfails + 1 }
  | "M" :: rest => handleM d n line rest post
  | "G" :: rest => handleG d n line rest post
  | "X" :: rest => handleX d n line rest post
  | "H" :: _ | "K" :: _ | "Y" :: _ =>
    if post.any (fun w => (w.splitOn "+").any (·.endsWith "=X")) then
      return { d with steps := d.steps + 1, unsupported := d.unsupported + 1 }   -- a nested array in the cache
    else match pre with
      | "H" :: rest => handleH d n line rest post
      | "K" :: rest => handleK d n line rest post
      | "Y" :: rest => handleY d n line rest post
      | _ => return d
  | "P" :: rest => handleP d n line rest post
  | ["E", ex] =>
    match ex.toInt?, post with
    | some e, [st] =>
      match st.toNat? with
      | some s =>
        let mut d := { d with steps := d.steps + 1, nE := d.nE + 1 }
        match specExit e s e with | some c => d ← specfail d n c | none => pure ()
        if exitToState e != s then d ← mismatch d n "E" "state" st (toString (exitToState e))
        return d
      | none => IO.println s!"BADLINE line={n}"; return d
    | _, _ => IO.println s!"BADLINE line={n}"; return d
  | ["W", th] =>
    match unhex th, post with
    | some t, [ran, argvh] =>
      match parseBool? ran, unhexList argvh with
      | some ran, some argv =>
        let mut d := { d with steps := d.steps + 1, nW := d.nW + 1, shLines := d.shLines + 1 }
        match shWords (d.plugin ++ SPACE :: t) with
        | .ok ws =>
          d := noteNontrivial d line
          if !ran || argv ≠ ws then d ← mismatch d n "W" "sh-words" s!"{ran},{hexList argv}" (hexList ws)
        | .error _ => d := { d with shOutside := d.shOutside + 1 }
        return d
      | _, _ => IO.println s!"BADLINE line={n}"; return d
    | _, _ => IO.println s!"BADLINE line={n}"; return d
  | _ => IO.println s!"BADLINE line={n}"; return d

def main : IO Unit := do
  let stdin ← IO.getStdin
  let d ← foldLines stdin handle ({} : DSt)
  IO.println s!"STATS cases={d.caseNo} steps={d.steps} macro_strings={d.nM} resolutions={d.nG} spawns={d.nX} cached_macro_strings={d.nH} cached_resolutions={d.nK} cached_spawns={d.nY} cached_checked={d.cachedChecked} cached_diverged={d.cachedDiverged} crashes={d.crashes} layout_checked={d.layoutChecked} sep_joined={d.sepJoined} outputs={d.nP} exits={d.nE} sh_lines={d.nW} err_recursion={d.errRec} err_unclosed={d.errUnclosed} err_mixing={d.errMixing} err_required={d.errRequired} unsupported={d.unsupported} missing={d.missing} arrays={d.arrays} sh_checked={d.shLines} sh_outside={d.shOutside} tie_permutations={d.tiePerm} ran={d.spawned} not_run={d.notRun} timeouts={d.timeouts} dq_cases={d.dqCases} dq_interpreted={d.dqInterpreted} verbatim_checked={d.verbatimChecked} env_checked={d.envChecked} env_threw={d.envThrew} array_cmd_checked={d.arrayCmdChecked} undefined_checked={d.undefChecked} daemon_env_vars={d.envMacroVars} global_vars={d.globalVars} signal_deaths={d.signals} typed_values={d.typedVals} nontrivial={d.nontrivial} mismatches={d.mismatches} specfails={d.specfails}"

/-
  vd_c09 — replays the C09 harness's lines through the model, compares the observations and evaluates
  the specification predicates on the implementation's own observations.  Line format: harness/c09.cpp.

  Output:  MISMATCH line=<n> case=<k> op=<M|G|X|P|E|W> kind=<..> impl=<..> model=<..>
           SPECFAIL line=<n> case=<k> clause=<name>
           BADLINE line=<n>
           STATS cases=.. steps=.. … nontrivial=..
-/
import IcingaModel.Common.Proto
import IcingaModel.C09.Model
import IcingaModel.C09.Spec
import Std.Data.HashSet

open Icinga Icinga.C09 Icinga.Proto

/-! ### line protocol -/

def hexNib (c : Char) : Option Nat :=
  if '0' ≤ c ∧ c ≤ '9' then some (c.toNat - 48)
  else if 'a' ≤ c ∧ c ≤ 'f' then some (c.toNat - 87) else none

def unhexAux : List Char → Array UInt8 → Option (Array UInt8)
  | [], acc => some acc
  | [_], _ => none
  | a :: b :: r, acc =>
    match hexNib a, hexNib b with
    | some x, some y => unhexAux r (acc.push (UInt8.ofNat (x * 16 + y)))
    | _, _ => none

def unhex (s : String) : Option Bytes :=
  if s == "-" || s == "" then some [] else (unhexAux s.toList #[]).map Array.toList

def hexOf (bs : Bytes) : String :=
  if bs.isEmpty then "-" else
  let d := "0123456789abcdef".toList.toArray
  String.ofList (bs.foldr (fun b acc => d[b.toNat / 16]! :: d[b.toNat % 16]! :: acc) [])

def unhexList (s : String) : Option (List Bytes) :=
  if s == "~" then some [] else (s.splitOn ",").mapM unhex

def hexList (l : List Bytes) : String :=
  if l.isEmpty then "~" else ",".intercalate (l.map hexOf)

def dropPrefix? (s pre : String) : Option String :=
  if s.startsWith pre then some (s.drop pre.length).toString else none

def parseVal (t : String) : Option Val :=
  if t == "E" then some .empty
  else match dropPrefix? t "S:" with
    | some h => (unhex h).map .str
    | none => match dropPrefix? t "A:" with
      | some h => (unhexList h).map .arr
      | none => none

def valToRaw : Val → Raw
  | .empty => .empty | .str b => .str b | .arr l => .arr l

def showVal : Val → String
  | .empty => "E" | .str b => "S:" ++ hexOf b | .arr l => "A:" ++ hexList l

def showCmdOut : CmdOut → String
  | .sh b => "sh:" ++ hexOf b | .argv l => "argv:" ++ hexList l

def parseCmdOut (t : String) : Option (Option CmdOut) :=
  if t == "none" then some none
  else match dropPrefix? t "sh:" with
    | some h => (unhex h).map (fun b => some (.sh b))
    | none => match dropPrefix? t "argv:" with
      | some h => (unhexList h).map (fun l => some (.argv l))
      | none => none

def atP : Bytes := [64, 80]

def substPlugin (plugin : Bytes) (b : Bytes) : Bytes :=
  if atP.isPrefixOf b then plugin ++ b.drop 2 else b

def parseCmd (plugin : Bytes) (t : String) : Option Cmd :=
  match dropPrefix? t "s:" with
  | some h => (unhex h).map (fun b => .str (substPlugin plugin b))
  | none => match dropPrefix? t "a:" with
    | some h => (unhexList h).map (fun l => .arr (l.map (fun e => if e = atP then plugin else e)))
    | none => none

def parseArg (t : String) : Option ArgSpec :=
  match t.splitOn ";" with
  | [dk, isd, k, v, req, sk, rk, ord, sep, si] => do
    let dkey ← unhex dk
    let v ← parseVal v
    let si ← parseVal si
    if isd == "0" then
      pure { dkey := dkey, value := valToRaw v }
    else
      let key ← (if k == "~" then some none else (unhex k).map some)
      let sep ← (if sep == "~" then some none else (unhex sep).map some)
      let ord ← ord.toInt?
      pure { dkey := dkey, key := key, value := valToRaw v, required := req == "1", skipKey := sk == "1",
             repeatKey := rk != "0", order := ord, separator := sep, setIf := valToRaw si }
  | _ => none

/-- `std::map<String, Value>` order of the `arguments` dictionary: bytewise lexicographic on the key. -/
def bytesLt : Bytes → Bytes → Bool
  | [], [] => false
  | [], _ :: _ => true
  | _ :: _, [] => false
  | x :: xs, y :: ys => if x.toNat < y.toNat then true else if y.toNat < x.toNat then false else bytesLt xs ys

def insertByKey (a : ArgSpec) : List ArgSpec → List ArgSpec
  | [] => [a]
  | x :: xs => if bytesLt a.dkey x.dkey then a :: x :: xs else x :: insertByKey a xs

def dictOrder (as : List ArgSpec) : List ArgSpec := as.foldl (fun acc a => insertByKey a acc) []

/-- `<cmd> <nargs|-> <arg>*` at the head of `ws`; returns the rest. -/
def parseCmdArgs (plugin : Bytes) (ws : List String) : Option (Cmd × Option (List ArgSpec) × List String) :=
  match ws with
  | c :: n :: rest => do
    let cmd ← parseCmd plugin c
    if n == "-" then pure (cmd, none, rest)
    else
      let k ← n.toNat?
      if rest.length < k then none
      else
        let as ← (rest.take k).mapM parseArg
        pure (cmd, some (dictOrder as), rest.drop k)
  | _ => none

/-! ### driver state -/

def b (s : String) : Bytes := s.toUTF8.toList

structure DSt where
  plugin : Bytes := []
  svc : Obj := { rname := b "service", vars := [], attrs := [] }
  host : Obj := { rname := b "host", vars := [], attrs := [] }
  cmd : Obj := { rname := b "command", vars := [], attrs := [] }
  caseNo : Nat := 0
  steps : Nat := 0
  nM : Nat := 0
  nG : Nat := 0
  nX : Nat := 0
  nP : Nat := 0
  nE : Nat := 0
  nW : Nat := 0
  errRec : Nat := 0
  errUnclosed : Nat := 0
  errMixing : Nat := 0
  errRequired : Nat := 0
  unsupported : Nat := 0
  missing : Nat := 0
  arrays : Nat := 0
  shLines : Nat := 0
  shOutside : Nat := 0
  tiePerm : Nat := 0
  spawned : Nat := 0
  notRun : Nat := 0
  timeouts : Nat := 0
  dqCases : Nat := 0
  dqInterpreted : Nat := 0
  verbatimChecked : Nat := 0
  seen : Std.HashSet UInt64 := {}
  nontrivial : Nat := 0
  mismatches : Nat := 0
  specfails : Nat := 0

def svcAttrs0 : List (Bytes × Val) :=
  [(b "display_name", .str (b "s")), (b "notes", .str []), (b "notes_url", .str []), (b "action_url", .str [])]
def hostAttrs0 : List (Bytes × Val) :=
  [(b "address", .str []), (b "address6", .str []), (b "display_name", .str (b "h")), (b "notes", .str []),
   (b "notes_url", .str []), (b "action_url", .str [])]

def setAssoc (l : List (Bytes × Val)) (k : Bytes) (v : Val) : List (Bytes × Val) :=
  (k, v) :: l.filter (fun p => p.1 ≠ k)

def DSt.objs (d : DSt) (svc : Bool) : List Obj := if svc then [d.svc, d.host, d.cmd] else [d.host, d.cmd]

def mismatch (d : DSt) (n : Nat) (op kind impl model : String) : IO DSt := do
  IO.println s!"MISMATCH line={n} case={d.caseNo} op={op} kind={kind} impl={impl} model={model}"
  return { d with mismatches := d.mismatches + 1 }

def specfail (d : DSt) (n : Nat) (cl : Clause) : IO DSt := do
  IO.println s!"SPECFAIL line={n} case={d.caseNo} clause={cl.name}"
  return { d with specfails := d.specfails + 1 }

def countErr (d : DSt) : Err → DSt
  | .recursion => { d with errRec := d.errRec + 1 }
  | .unclosed => { d with errUnclosed := d.errUnclosed + 1 }
  | .mixing => { d with errMixing := d.errMixing + 1 }
  | .required => { d with errRequired := d.errRequired + 1 }
  | .unsupported => { d with unsupported := d.unsupported + 1 }

def errName : Err → String
  | .recursion => "recursion" | .unclosed => "unclosed" | .mixing => "mixing" | .required => "required" | .unsupported => "unsupported"

def noteNontrivial (d : DSt) (line : String) : DSt :=
  let h := hash line
  if d.seen.contains h then d else { d with seen := d.seen.insert h, nontrivial := d.nontrivial + 1 }

/-! ### `std::sort` leaves the order inside a class of equal `order` open: membership instead of equality -/

def groupByOrder : List RArg → List (List RArg)
  | [] => []
  | a :: as =>
    match groupByOrder as with
    | (x :: g) :: gs => if x.order = a.order then (a :: x :: g) :: gs else [a] :: (x :: g) :: gs
    | gs => [a] :: gs

def removeNth {α : Type} : List α → Nat → List α
  | [], _ => []
  | _ :: xs, 0 => xs
  | x :: xs, n + 1 => x :: removeNth xs n

/-- All remainders of `obs` after consuming every block once, in any order. -/
def consumePerm : Nat → List (List Bytes) → List Bytes → List (List Bytes)
  | 0, _, _ => []
  | _, [], obs => [obs]
  | fuel + 1, blocks, obs =>
    (List.range blocks.length).flatMap fun i =>
      match blocks[i]? with
      | some blk => if blk.isPrefixOf obs then consumePerm fuel (removeNth blocks i) (obs.drop blk.length) else []
      | none => []

def consumeGroups : List (List (List Bytes)) → List (List Bytes) → List (List Bytes)
  | [], rests => rests
  | g :: gs, rests => consumeGroups gs (rests.flatMap (consumePerm (g.length + 1) g))

def argvAllowed (base : List Bytes) (rs : List RArg) (obs : List Bytes) : Bool :=
  if base.isPrefixOf obs then
    let groups := (groupByOrder (sortArgs rs)).map (·.map emitArg)
    (consumeGroups groups [obs.drop base.length]).any (·.isEmpty)
  else false

/-- Compare the implementation's resolved command with the model's, modulo sort ties.
    Returns `(equal, neededPermutation)`. -/
def cmdAgrees (objs : List Obj) (cmd : Cmd) (args : Option (List ArgSpec)) (model impl : CmdOut) : Bool × Bool :=
  if model = impl then (true, false) else
  match args, impl with
  | some as, .argv l =>
    match resolveCommand objs 0 cmd true, resolveArgs objs 0 as with
    | .ok (.argv base), .ok rs => (argvAllowed base rs l, true)
    | _, _ => (false, false)
  | _, _ => (false, false)

/-! ### handlers -/

def parseImplRes (post : List String) : Option (Except String (String × String)) :=
  match post with
  | ["ok", v, m] => some (.ok (v, m))
  | ["ok", v] => some (.ok (v, ""))
  | ["err", k] => some (.error k)
  | _ => none

def handleM (d : DSt) (n : Nat) (line : String) (pre post : List String) : IO DSt := do
  match pre, parseImplRes post with
  | [svc, lvl, esc, hx], some impl =>
    match parseBool? svc, lvl.toNat?, parseBool? esc, unhex hx with
    | some svc, some lvl, some esc, some s =>
      let mut d := { d with steps := d.steps + 1, nM := d.nM + 1 }
      let m := resolveMacros (d.objs svc) lvl esc (.str s)
      match m with
      | .error .unsupported => return { d with unsupported := d.unsupported + 1 }
      | .error e =>
        d := noteNontrivial (countErr d e) line
        if impl != .error (errName e) then d ← mismatch d n "M" "error" (toString (repr impl)) (errName e)
        return d
      | .ok (v, miss) =>
        if miss then d := { d with missing := d.missing + 1 }
        match v with | .arr _ => d := { d with arrays := d.arrays + 1 } | _ => pure ()
        if s.contains DOLLAR then d := noteNontrivial d line
        if impl != .ok (showVal v, showBool miss) then
          d ← mismatch d n "M" "value" (toString (repr impl)) s!"{showVal v},{showBool miss}"
        return d
    | _, _, _, _ => IO.println s!"BADLINE line={n}"; return d
  | _, _ => IO.println s!"BADLINE line={n}"; return d

def handleG (d : DSt) (n : Nat) (line : String) (pre post : List String) : IO DSt := do
  match pre with
  | svc :: rest =>
    match parseBool? svc, parseCmdArgs d.plugin rest, parseImplRes post with
    | some svc, some (cmd, args, []), some impl =>
      let mut d := { d with steps := d.steps + 1, nG := d.nG + 1 }
      let objs := d.objs svc
      match resolveArguments objs 0 cmd args with
      | .error .unsupported => return { d with unsupported := d.unsupported + 1 }
      | .error e =>
        d := noteNontrivial (countErr d e) line
        if impl != .error (errName e) then d ← mismatch d n "G" "error" (toString (repr impl)) (errName e)
        return d
      | .ok co =>
        d := noteNontrivial d line
        match impl with
        | .ok (v, _) =>
          match parseCmdOut v with
          | some (some ico) =>
            let (ok, perm) := cmdAgrees objs cmd args co ico
            if perm && ok then d := { d with tiePerm := d.tiePerm + 1 }
            if !ok then d ← mismatch d n "G" "command" v (showCmdOut co)
            return d
          | _ => mismatch d n "G" "command" v (showCmdOut co)
        | .error k => mismatch d n "G" "command" ("err:" ++ k) (showCmdOut co)
    | _, _, _ => IO.println s!"BADLINE line={n}"; return d
  | _ => IO.println s!"BADLINE line={n}"; return d

def hasDq (s : Bytes) : Bool := s.contains 34 || s.contains 96

def handleX (d : DSt) (n : Nat) (line : String) (pre post : List String) : IO DSt := do
  match pre with
  | svc :: rest =>
    match parseBool? svc, parseCmdArgs d.plugin rest with
    | some svc, some (cmd, args, [ex, outh, tmo, slp]) =>
      match ex.toInt?, unhex outh, tmo.toNat?, slp.toNat?, post with
      | some exit, some out, some tmo, some slp, [ran, argvh, rech, st, oex, oouth, perfh, gone] =>
        match parseBool? ran, unhexList argvh, parseCmdOut rech, st.toNat?, oex.toInt?, unhex oouth, unhexList perfh with
        | some ran, some argv, some recorded, some ostate, some oexit, some oout, some operf =>
          let mut d := { d with steps := d.steps + 1, nX := d.nX + 1 }
          d := noteNontrivial d line
          let objs := d.objs svc
          let timedOut := tmo > 0 && slp > tmo * 10
          if ran then d := { d with spawned := d.spawned + 1 } else d := { d with notRun := d.notRun + 1 }
          /- specification on the implementation's observations -/
          let mut fails : List Clause := []
          if timedOut then
            d := { d with timeouts := d.timeouts + 1 }
            match specTimeout ostate oout (gone == "1") with | some c => fails := fails ++ [c] | none => pure ()
          else if recorded.isNone then
            match specFailed ran ostate oexit with | some c => fails := fails ++ [c] | none => pure ()
          else if ran then
            match specExit exit ostate oexit with | some c => fails := fails ++ [c] | none => pure ()
            match specOutput exit out oout operf with | some c => fails := fails ++ [c] | none => pure ()
          match recorded with
          | some r =>
            if ran then
              match specArgvOfCommand r argv with | some c => fails := fails ++ [c] | none => pure ()
          | none => pure ()
          match cmd, args with
          | .str tmpl, none =>
            if recorded.isSome then
              let valueOf := fun (nm : Bytes) =>
                if nm = [] then some [DOLLAR] else
                match internalResolve objs 14 false (DOLLAR :: (nm ++ [DOLLAR])) with
                | .ok (v, _) => v.scalarBytes
                | .error _ => none
              if hasDq tmpl then
                d := { d with dqCases := d.dqCases + 1 }
              match specExpectedArgv tmpl valueOf with
              | some ws =>
                d := { d with verbatimChecked := d.verbatimChecked + 1 }
                if !ran || argv ≠ ws then
                  fails := fails ++ [.stringCmdVerbatim]
                  if hasDq tmpl then d := { d with dqInterpreted := d.dqInterpreted + 1 }
              | none => pure ()
          | _, _ => pure ()
          for c in fails do
            d ← specfail d n c
          /- model against implementation -/
          match resolveArguments objs 0 cmd args with
          | .error .unsupported => return { d with unsupported := d.unsupported + 1 }
          | .error e =>
            d := countErr d e
            if ran || recorded.isSome || ostate != 3 then
              d ← mismatch d n "X" "error" s!"ran={ran},state={ostate}" (errName e)
            return d
          | .ok co =>
            match recorded with
            | none => mismatch d n "X" "command" "none" (showCmdOut co)
            | some r =>
              let (ok, perm) := cmdAgrees objs cmd args co r
              if perm && ok then d := { d with tiePerm := d.tiePerm + 1 }
              if !ok then d ← mismatch d n "X" "command" (showCmdOut r) (showCmdOut co)
              /- what the process received -/
              match co with
              | .argv _ =>
                -- the recorded array is what the model allows; the plugin must have received it verbatim
                match r with
                | .argv l => if !ran || argv ≠ l then d ← mismatch d n "X" "argv" s!"{ran},{hexList argv}" (hexList l)
                | _ => pure ()
              | .sh sline =>
                d := { d with shLines := d.shLines + 1 }
                match shWords sline with
                | .ok ws => if !ran || argv ≠ ws then d ← mismatch d n "X" "sh-argv" s!"{ran},{hexList argv}" (hexList ws)
                | .error _ => d := { d with shOutside := d.shOutside + 1 }
              if ran && !timedOut then
                let mo := processFinished exit out
                if mo.state != ostate || mo.exit != oexit || mo.output != oout || mo.perfdata != operf then
                  d ← mismatch d n "X" "result" s!"{ostate},{oexit},{hexOf oout},{hexList operf}"
                        s!"{mo.state},{mo.exit},{hexOf mo.output},{hexList mo.perfdata}"
              return d
        | _, _, _, _, _, _, _ => IO.println s!"BADLINE line={n}"; return d
      | _, _, _, _, _ => IO.println s!"BADLINE line={n}"; return d
    | _, _ => IO.println s!"BADLINE line={n}"; return d
  | _ => IO.println s!"BADLINE line={n}"; return d

def handleP (d : DSt) (n : Nat) (line : String) (pre post : List String) : IO DSt := do
  match pre, post with
  | [ex, outh], [st, oex, oouth, perfh] =>
    match ex.toInt?, unhex outh, st.toNat?, oex.toInt?, unhex oouth, unhexList perfh with
    | some exit, some out, some ostate, some oexit, some oout, some operf =>
      let mut d := { d with steps := d.steps + 1, nP := d.nP + 1 }
      if out.contains BAR then d := noteNontrivial d line
      match specExit exit ostate oexit with | some c => d ← specfail d n c | none => pure ()
      match specOutput exit out oout operf with | some c => d ← specfail d n c | none => pure ()
      let mo := processFinished exit out
      if mo.state != ostate || mo.exit != oexit || mo.output != oout || mo.perfdata != operf then
        d ← mismatch d n "P" "result" s!"{ostate},{oexit},{hexOf oout},{hexList operf}"
              s!"{mo.state},{mo.exit},{hexOf mo.output},{hexList mo.perfdata}"
      return d
    | _, _, _, _, _, _ => IO.println s!"BADLINE line={n}"; return d
  | _, _ => IO.println s!"BADLINE line={n}"; return d

def handle (d : DSt) (n : Nat) (line : String) : IO DSt := do
  let ws := words line
  let (pre, post) := splitBar ws
  match pre with
  | [] => return d
  | "C" :: _ =>
    match post with
    | [ph] =>
      match unhex ph with
      | some p => return { d with plugin := p, caseNo := d.caseNo + 1,
                                  svc := { d.svc with vars := [], attrs := svcAttrs0 },
                                  host := { d.host with vars := [], attrs := hostAttrs0 },
                                  cmd := { d.cmd with vars := [] } }
      | none => IO.println s!"BADLINE line={n}"; return d
    | _ => IO.println s!"BADLINE line={n}"; return d
  | ["V", lvl, nh, vt] =>
    match unhex nh, parseVal vt with
    | some nm, some v =>
      if lvl == "s" then return { d with svc := { d.svc with vars := setAssoc d.svc.vars nm v } }
      else if lvl == "h" then return { d with host := { d.host with vars := setAssoc d.host.vars nm v } }
      else if lvl == "c" then return { d with cmd := { d.cmd with vars := setAssoc d.cmd.vars nm v } }
      else IO.println s!"BADLINE line={n}"; return d
    | _, _ => IO.println s!"BADLINE line={n}"; return d
  | ["T", lvl, attr, vh] =>
    match unhex vh with
    | some v =>
      let a := b attr
      -- an empty display_name reads as the object's (short) name (host.ti / service.ti getters)
      let v := if attr == "display_name" && v.isEmpty then (if lvl == "h" then b "h" else b "s") else v
      if lvl == "s" then return { d with svc := { d.svc with attrs := setAssoc d.svc.attrs a (.str v) } }
      else if lvl == "h" then return { d with host := { d.host with attrs := setAssoc d.host.attrs a (.str v) } }
      else IO.println s!"BADLINE line={n}"; return d
    | none => IO.println s!"BADLINE line={n}"; return d
  | "M" :: rest => handleM d n line rest post
  | "G" :: rest => handleG d n line rest post
  | "X" :: rest => handleX d n line rest post
  | "P" :: rest => handleP d n line rest post
  | ["E", ex] =>
    match ex.toInt?, post with
    | some e, [st] =>
      match st.toNat? with
      | some s =>
        let mut d := { d with steps := d.steps + 1, nE := d.nE + 1 }
        match specExit e s e with | some c => d ← specfail d n c | none => pure ()
        if exitToState e != s then d ← mismatch d n "E" "state" st (toString (exitToState e))
        return d
      | none => IO.println s!"BADLINE line={n}"; return d
    | _, _ => IO.println s!"BADLINE line={n}"; return d
  | ["W", th] =>
    match unhex th, post with
    | some t, [ran, argvh] =>
      match parseBool? ran, unhexList argvh with
      | some ran, some argv =>
        let mut d := { d with steps := d.steps + 1, nW := d.nW + 1, shLines := d.shLines + 1 }
        match shWords (d.plugin ++ SPACE :: t) with
        | .ok ws =>
          d := noteNontrivial d line
          if !ran || argv ≠ ws then d ← mismatch d n "W" "sh-words" s!"{ran},{hexList argv}" (hexList ws)
        | .error _ => d := { d with shOutside := d.shOutside + 1 }
        return d
      | _, _ => IO.println s!"BADLINE line={n}"; return d
    | _, _ => IO.println s!"BADLINE line={n}"; return d
  | _ => IO.println s!"BADLINE line={n}"; return d

def main : IO Unit := do
  let stdin ← IO.getStdin
  let d ← foldLines stdin handle ({} : DSt)
  IO.println s!"STATS cases={d.caseNo} steps={d.steps} macro_strings={d.nM} resolutions={d.nG} spawns={d.nX} outputs={d.nP} exits={d.nE} sh_lines={d.nW} err_recursion={d.errRec} err_unclosed={d.errUnclosed} err_mixing={d.errMixing} err_required={d.errRequired} unsupported={d.unsupported} missing={d.missing} arrays={d.arrays} sh_checked={d.shLines} sh_outside={d.shOutside} tie_permutations={d.tiePerm} ran={d.spawned} not_run={d.notRun} timeouts={d.timeouts} dq_cases={d.dqCases} dq_interpreted={d.dqInterpreted} verbatim_checked={d.verbatimChecked} nontrivial={d.nontrivial} mismatches={d.mismatches} specfails={d.specfails}"

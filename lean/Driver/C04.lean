/-
  vd_c04 — checks that the trace logged by the schedule points of the real CheckerComponent is a path of the C04
  model (every section enabled, same idle/pending membership and key afterwards, same counter discipline), evaluates
  the specification predicate on the implementation's own observations, and compares `UpdateNextCheck` with the exact
  model.  Line formats: see harness/c04.cpp.

  Output:  MISMATCH line=<n> case=<k> op=<what> cid=<c> impl=<..> model=<..>
           SPECFAIL line=<n> case=<k> clause=<name> cid=<c>
           BADLINE line=<n>
           STATS cases=.. steps=.. ...
-/
import IcingaModel.Common.Proto
import IcingaModel.C04.Model
import IcingaModel.C04.Spec

open Icinga Icinga.C04 Icinga.Proto

/-- driver-side state of one checkable: the model state plus what is known about the harness operation in flight -/
structure CSt where
  m : Chk := {}
  enabled : Bool := true
  isService : Bool := false
  reschedAt : Option Int := none   -- probe wakeup_resched: when an idle entry behind the front was re-keyed to "due"
  checkUs : Int := 0
  retryUs : Int := 0
  op : Option String := none
  wroteActive : Bool := false
  wrotePaused : Bool := false
  picksN : Nat := 0
  guardsN : Nat := 0
  ambUntil : Nat := 0
  forcedAmb : Bool := false
  dueFrom : Int := 0
  dispAt : Int := 0                -- clock of the earliest dispatch whose helper is still outstanding
  foreignRs : Bool := true         -- a harness operation (not the scheduler's own machinery) may have written next_check since then
  snInFlight : Bool := false       -- a harness SetNextCheck-like operation is between its `ob` and `oe`
  snLanded : Bool := false         -- … and the re-index caused by its write has been seen
  snValue : Int := 0
  lastSkipAt : Option Int := none  -- the scheduler skipped this checkable at that clock and nobody but its own machinery wrote next_check since
  deriving Inhabited

structure DSt where
  cs : Array CSt := #[]
  counter : Int := 0
  max : Int := 1
  boundUs : Int := 0
  sp : SpecSt := { max := 1 }
  sched : Bool := false        -- current case is a scheduler scenario
  caseNo : Nat := 0
  cases : Nat := 0
  schedCases : Nat := 0
  steps : Nat := 0             -- model actions replayed + arithmetic comparisons
  arith : Nat := 0
  arithAdj : Nat := 0
  picks : Nat := 0
  forcedPicks : Nat := 0
  skips : Nat := 0
  busy : Nat := 0
  execs : Nat := 0
  asyncExecs : Nat := 0
  exitBeforeInc : Nat := 0     -- a process finished before PluginCheckTask's own +1 (balance -1 for a moment)
  exitNotIdle : Nat := 0       -- a process finished while its checkable was not idle (paused / dispatched again)
  counterOverMax : Nat := 0    -- dispatch-time states in which the counter exceeded max (helper unit + plugin unit)
  windows : Nat := 0
  skipRearms : Nat := 0        -- decisions on an entry that had been skipped before: its key was checked against the skip's clock
  rearms : Nat := 0            -- returned execution attempts whose next_check was checked against the dispatch time
  objs : Nat := 0
  reindex : Nat := 0
  erasedPending : Nat := 0     -- ObjectHandler removed a checkable that was pending (pause/deactivate during a check)
  finDropped : Nat := 0        -- helper's final section found it gone from pending
  ops : Nat := 0
  forces : Nat := 0
  forceAmb : Nat := 0
  quiescent : Nat := 0
  lat1ms : Nat := 0
  lat10ms : Nat := 0
  lat100ms : Nat := 0
  lat1s : Nat := 0
  latMore : Nat := 0
  latMaxUs : Int := 0
  overdueMaxUs : Int := 0
  canaryMaxUs : Int := 0
  maxParallel : Int := 0
  livenessInconclusive : Nat := 0
  caseBusy : Nat := 0
  caseForced : Nat := 0
  caseSkips : Nat := 0
  nontrivial : Nat := 0
  mismatches : Nat := 0
  specfails : Nat := 0
  lastXeNow : Int := 0
  silentFinNow : Int := 0      -- time of the last helper section that found its checkable gone from pending (no notify_all)
  lastSchedNow : Int := 0      -- time of the last scheduler section
  noWakeups : Nat := 0
  noWakeupCand : Option (Nat × Nat × Int × Int) := none   -- first candidate of the current case
  notifiedSinceSilent : Bool := true   -- a section that calls m_CV.notify_all() ran since that helper section
  wakeup : Bool := false               -- scripted wake-up probe (script=wakeup / wakeup_async)
  wakeupAsync : Bool := false
  wakeupResched : Bool := false
  wakeReschedMedianUs : Int := 0
  reschedUnanswered : Nat := 0        -- probe wakeup_resched: entries made due that were not taken before the harness gave up waiting (8 s)
  passives : Nat := 0                 -- passive results processed during the run (script=passive_during_check)
  eligRecent : Nat := 0               -- decisions less than 3 ms after a write of one of the guard set's facts (taken as they are)
  svcPicks : Nat := 0                 -- dispatches of services
  depSkips : Nat := 0                 -- skips because an explicit disable_checks dependency had failed
  globalSkips : Nat := 0              -- skips because the global flag of the object's type was off
  periodSkips : Nat := 0
  ownSkips : Nat := 0
  foreign : Nat := 0                  -- checkables in a foreign zone (never this node's to schedule)
  wakeAsyncMedianUs : Int := 0
  wakeDelays : Array Int := #[]        -- probe: delay from a silent helper section to the next scheduler section
  wakeSamples : Nat := 0
  wakeMedianUs : Int := 0
  liveCands : Array String := #[]      -- liveness verdicts, decided at the end of the run (machine load is run-wide)
  pluginCase : Bool := false   -- script=plugin: the real PluginCheckTask; its +1 / -1 happen (and are logged) OUTSIDE the checker's mutex
  piSince : Int := 0           -- such +1s logged since the last event that was logged under the checker's mutex
  slotReordered : Nat := 0     -- dispatches judged with the counter as it stood before those +1s
  caseReported : Nat := 0      -- MISMATCH lines printed for the current case (capped)
  caseReportedSpec : Nat := 0  -- SPECFAIL lines printed for the current case (capped)

def DSt.view (d : DSt) : St :=
  let cs := d.cs
  { n := cs.size, chk := fun i => (cs.getD i {}).m, counter := d.counter, max := d.max }

def showLoc (x : Chk) : String :=
  s!"{showBool x.inIdle},{showBool x.inPending},{if x.inIdle then x.idleKey else 0}"

def mismatch (d : DSt) (n : Nat) (op : String) (c : Nat) (impl model : String) : IO DSt := do
  if d.caseReported < 5 then
    IO.println s!"MISMATCH line={n} case={d.caseNo} op={op} cid={c} impl={impl} model={model}"
  return { d with mismatches := d.mismatches + 1, caseReported := d.caseReported + 1 }

/-- evaluate the specification on observations of the implementation -/
def spec (d : DSt) (n : Nat) (c : Nat) (evs : List Ev) : IO DSt := do
  let mut d := d
  for e in evs do
    match specStep d.sp e with
    | some cl =>
      if d.caseReportedSpec < 5 then
        IO.println s!"SPECFAIL line={n} case={d.caseNo} clause={cl.name} cid={c}"
      d := { d with specfails := d.specfails + 1, caseReportedSpec := d.caseReportedSpec + 1 }
    | none => pure ()
    d := { d with sp := specNext d.sp e }
  return d

def specName (d : DSt) (n : Nat) (c : Nat) (clause : String) : IO DSt := do
  if d.caseReportedSpec < 5 then
    IO.println s!"SPECFAIL line={n} case={d.caseNo} clause={clause} cid={c}"
  return { d with specfails := d.specfails + 1, caseReportedSpec := d.caseReportedSpec + 1 }

def setM (d : DSt) (c : Nat) (f : CSt → CSt) : DSt :=
  { d with cs := d.cs.modify c f }

/-- run one model action; `none` = not enabled -/
def act (d : DSt) (a : Act) (c : Nat) : Option DSt :=
  match step d.view a with
  | some st' =>
    let x := st'.chk c
    let cnt := st'.counter
    some { setM d c (fun cs => { cs with m := x }) with counter := cnt, steps := d.steps + 1 }
  | none => none

/-- the writes of the harness operation in flight that have not been applied to the model yet -/
def applyWrites (cs : CSt) : CSt :=
  match cs.op with
  | some "pause" => if cs.wrotePaused then cs else { cs with m := cs.m.setPaused true, wrotePaused := true }
  | some "resume" => if cs.wrotePaused then cs else { cs with m := cs.m.setPaused false, wrotePaused := true }
  | some "activate" => if cs.wroteActive then cs else { cs with m := cs.m.setActive true, wroteActive := true }
  | some "deactivate" =>
    let cs := if cs.wroteActive then cs else { cs with m := cs.m.setActive false, wroteActive := true }
    if cs.wrotePaused then cs
    else if cs.m.paused then { cs with wrotePaused := true }
    else { cs with m := cs.m.setPaused true, wrotePaused := true }
  | _ => cs

def resync (d : DSt) (c : Nat) (i p : Bool) (key : Int) : DSt :=
  setM d c fun cs => { cs with m := { cs.m with inIdle := i, inPending := p, idleKey := if i then key else cs.m.idleKey } }

/-- compare the model's membership/key of `c` with the implementation's observation -/
def compareLoc (d : DSt) (n : Nat) (op : String) (c : Nat) (i p : Bool) (key : Int) : IO DSt := do
  let x := (d.cs.getD c {}).m
  if x.inIdle != i || x.inPending != p || (i && x.idleKey != key) then
    let d ← mismatch d n op c s!"{showBool i},{showBool p},{if i then key else 0}" (showLoc x)
    return resync d c i p key
  return d

def latency (d : DSt) (lat : Int) : DSt :=
  let d := if lat > d.latMaxUs then { d with latMaxUs := lat } else d
  if lat < 1000 then { d with lat1ms := d.lat1ms + 1 }
  else if lat < 10000 then { d with lat10ms := d.lat10ms + 1 }
  else if lat < 100000 then { d with lat100ms := d.lat100ms + 1 }
  else if lat < 1000000 then { d with lat1s := d.lat1s + 1 }
  else { d with latMore := d.latMore + 1 }

def kvGet (ws : List String) (key : String) : Option String :=
  ws.findSome? fun w => match w.splitOn "=" with
    | [k, v] => if k == key then some v else none
    | _ => none

def closeCase (d : DSt) : DSt :=
  if d.sched && d.caseForced > 0 && (d.caseBusy + d.caseSkips) > 0 then { d with nontrivial := d.nontrivial + 1 } else d

def handleSched' (d : DSt) (n : Nat) (kind : String) (c : Nat) (args obs : List String) : IO DSt := do
  if c ≥ d.cs.size then
    IO.println s!"BADLINE line={n}"; return d
  let cst := d.cs.getD c {}
  match kind, args, obs with
  | "ob", opk :: rest, _ =>
    if opk == "setnext" then
      -- somebody other than the scheduler's machinery writes next_check (any value, also the past)
      let v := ((rest.head?) >>= parseInt?).getD 0
      return { setM d c (fun cs => { cs with foreignRs := true, snInFlight := true, snLanded := false, snValue := v, lastSkipAt := none }) with ops := d.ops + 1 }
    let d := { setM d c (fun cs => { cs with op := some opk, wroteActive := false, wrotePaused := false }) with ops := d.ops + 1 }
    -- an operation that changes active/paused is under way: the specification suspends its claims about `c`
    if opk == "notify" then return d else spec d n c [.opBegin c]
  | "oe", opk :: _, _ =>
    if opk == "setnext" then return setM d c fun cs => { cs with snInFlight := false }
    -- every handler call of the operation has returned (with or without a logged section)
    let d := setM d c fun cs => let cs := applyWrites cs; { cs with m := { cs.m with synced := true }, op := none }
    -- … and from now on `c` is / is not this node's to schedule, as the harness's own operations imply
    if opk == "notify" then return d else spec d n c [.authority c (d.cs.getD c {}).m.schedulable]
  | "force", _, _ =>
    let d := { d with forces := d.forces + 1 }
    if cst.guardsN < cst.ambUntil then
      -- between a forced dispatch and the scheduler's own SetForceNextCheck(false): the write may be lost
      return { setM d c (fun cs => { cs with m := cs.m.force, forcedAmb := true }) with forceAmb := d.forceAmb + 1 }
    else
      match act d (.force c) c with
      | some d => return d
      | none => mismatch d n "force" c "-" "not-enabled"
  | "obj", _, [i, p, key, now] =>
    match parseBool? i, parseBool? p, parseInt? key, parseInt? now with
    | some i, some p, some key, some now =>
      let mut d := { d with objs := d.objs + 1, notifiedSinceSilent := true }
      if i && !cst.m.inIdle then d := setM d c fun cs => { cs with dueFrom := max key now }
      if cst.op.isNone then
        d ← mismatch d n "obj-outside-operation" c "-" "-"
      d := setM d c fun cs =>
        let cs := applyWrites cs
        if i && !cs.m.inIdle then { cs with m := { cs.m with nextCheck := key } } else cs
      if (d.cs.getD c {}).m.inPending && !p then d := { d with erasedPending := d.erasedPending + 1 }
      match act d (.objectHandler c) c with
      | some d' => d := d'
      | none => d ← mismatch d n "obj" c "-" "not-enabled"
      d ← compareLoc d n "obj" c i p key
      spec d n c [.loc c i p]
    | _, _, _, _ => IO.println s!"BADLINE line={n}"; return d
  | "nc", _, [i, p, key, now] =>
    match parseBool? i, parseBool? p, parseInt? key, parseInt? now with
    | some i, some p, some key, some now =>
      let mut d := { d with reindex := d.reindex + 1, notifiedSinceSilent := true }
      -- probe wakeup_resched: an entry that was made due and is re-keyed again without having been taken counts with the time it waited
      if d.wakeupResched then
        match cst.reschedAt with
        | some t => d := { d with wakeDelays := d.wakeDelays.push (now - t), reschedUnanswered := d.reschedUnanswered + 1 }
        | none => pure ()
      if cst.snInFlight && key == cst.snValue then d := setM d c fun cs => { cs with snLanded := true }
      d := setM d c fun cs => { cs with dueFrom := max key now,
                                        reschedAt := if d.wakeupResched && key ≤ now then some now else none }
      if !cst.m.inIdle then
        d ← mismatch d n "nc-not-idle" c s!"{showBool i},{showBool p}" (showLoc cst.m)
      -- the write behind this re-index: a harness operation's (any value), or the scheduler's own machinery's UpdateNextCheck (a value
      -- after the clock it read, which was not before the dispatch)
      match (if cst.snInFlight then none else act d (.ownResched c (key - 1) key) c) with
      | some d' => d := d'
      | none =>
        match act d (.setNextCheck c key) c with
        | some d' => d := d'
        | none => pure ()
      match act d (.nextCheckChanged c) c with
      | some d' => d := d'
      | none => pure ()
      d ← compareLoc d n "nc" c i p key
      spec d n c [.loc c i p]
    | _, _, _, _ => IO.println s!"BADLINE line={n}"; return d
  | "pick", [f], [i, p, key, now, cnt, own, gh, gs, per, dep, recent] | "skip", [f], [i, p, key, now, cnt, own, gh, gs, per, dep, recent] =>
    match parseBool? f, parseBool? i, parseBool? p, parseInt? key, parseInt? now, parseInt? cnt,
          [own, gh, gs, per, dep, recent].map parseBool? with
    | some f, some i, some p, some key, some now, some cnt, [some own, some gh, some gs, some per, some dep, some recent] =>
      let isPick := kind == "pick"
      -- the facts the guard set reads, as the HARNESS knows them (its own bookkeeping, read under the checker's mutex); when one of
      -- them was written less than 3 ms before, the decision is taken as it is (facts that make the model decide the same way)
      let inp : SkipIn :=
        if recent then (if isPick then { isService := cst.isService } else { isService := cst.isService, own := false })
        else { isService := cst.isService, depOk := dep, own := own, hostChecks := gh, svcChecks := gs, inPeriod := per }
      let elig := eligible inp.isService inp.own inp.hostChecks inp.svcChecks inp.inPeriod inp.depOk
      let mut d := if recent then { d with eligRecent := d.eligRecent + 1 } else d
      -- a force request that raced with the scheduler's clearing of the flag: take the implementation's word
      if cst.forcedAmb then
        d := setM d c fun cs => { cs with m := { cs.m with forced := if isPick then f else false }, forcedAmb := false }
      let cst := d.cs.getD c {}
      let forcedModel := cst.m.forced
      if isPick && f != forcedModel then
        d ← mismatch d n "pick-forced-flag" c (showBool f) (showBool forcedModel)
        d := setM d c fun cs => { cs with m := { cs.m with forced := f } }
      -- a skip re-inserts under the next_check read in the section (oracle input)
      if !isPick then
        d := setM d c fun cs => { cs with m := { cs.m with nextCheck := key } }
      -- the counter as the logged events imply it (dispatches and plugin +1s minus the decrements), not the value the schedule
      -- point happens to read: a harmless move of IncreasePendingChecks() into the critical section must not matter
      -- The scheduler reads the counter (checkercomponent.cpp:121) earlier in the SAME critical section that ends at this point.  The real
      -- PluginCheckTask's own +1 (script=plugin) happens outside the checker's mutex, so a `pi` logged since the last mutex-ordered event
      -- may have happened after the scheduler's read although it precedes this line: such +1s are taken as happening after the
      -- dispatch (pluginInc commutes with sched but for the counter test) when that is what makes the dispatch legitimate.
      let reorder : Int := if d.counter ≥ d.max && d.counter - d.piSince < d.max then d.piSince else 0
      if reorder > 0 then d := { d with counter := d.counter - reorder, slotReordered := d.slotReordered + 1 }
      let slotBefore := d.counter
      let st := d.view
      if !decide (schedEnabled st c now) then
        let x := cst.m
        let why := if !x.inIdle then "not-idle" else if x.idleKey > now then "not-due"
          else if d.counter ≥ d.max then "no-free-slot" else "not-the-smallest-key"
        d ← mismatch d n s!"{kind}-not-enabled" c s!"key={x.idleKey},now={now},counter={cnt}" s!"{why},counter={d.counter},max={d.max}"
        -- resynchronise: force the move
        d := resync d c true false x.idleKey
        if d.counter ≥ d.max then d := { d with counter := d.max - 1 }
      -- how long after it became due (or was re-keyed into the past) the entry was taken; includes waiting for a slot
      let lateness := now - (d.cs.getD c {}).dueFrom
      if !isPick then d := setM d c fun cs => { cs with dueFrom := max key now }
      -- real-time liveness (measured, partial; F-C04a, fixed by 31ee201): a helper finished for a checkable that had left the
      -- pending set; the slot it frees must wake the scheduler (ExecuteCheckHelper notifies unconditionally), so an entry that
      -- was due all the time must not wait for the scheduler's 0.5 s poll (:121-126).  Candidate here, verdict at the `M` line
      -- (ignored when the process itself was starved of CPU).
      if d.silentFinNow > d.lastSchedNow && !d.notifiedSinceSilent && now - d.silentFinNow ≥ 400000 && lateness ≥ 400000 then
        d := { d with noWakeups := d.noWakeups + 1 }
        if d.noWakeupCand.isNone then
          d := { d with noWakeupCand := some (n, c, lateness, now - d.silentFinNow) }
      if d.wakeup && !d.wakeupResched && d.silentFinNow > d.lastSchedNow then d := { d with wakeDelays := d.wakeDelays.push (now - d.silentFinNow) }
      d := { d with lastSchedNow := now }
      -- first outstanding dispatch: from here on only the scheduler's own machinery writes next_check, unless a harness operation is
      -- under way whose write has not been seen yet
      if isPick && cst.m.helpers == 0 then
        d := setM d c fun cs => { cs with dispAt := now, foreignRs := cs.snInFlight && !cs.snLanded }
      -- the skip path re-arms too (checkercomponent.cpp:178-196: UpdateNextCheck before the scheduler looks again): an entry that was
      -- skipped and is taken again under a key not after that skip was not re-armed - the scheduler spins on it
      -- NOT judged on the implementation (counted only): while a deactivation is in flight the attribute write of the skip path's
      -- UpdateNextCheck fires no OnNextCheckChanged (signals are suppressed for inactive objects), the idle key stays stale and the
      -- scheduler legitimately skips the dying object again
      match cst.lastSkipAt with
      | some _ => d := { d with skipRearms := d.skipRearms + 1 }
      | none => pure ()
      d := setM d c fun cs => { cs with lastSkipAt := if isPick || cs.snInFlight then none else some now }
      let modelSkips := Chk.skipsIn (d.cs.getD c {}).m.forced inp
      if modelSkips == isPick then
        d ← mismatch d n "decision" c (if isPick then "dispatch" else "skip") (if modelSkips then "skip" else "dispatch")
        -- follow the implementation
        d := setM d c fun cs => { cs with m := if isPick then cs.m.pick now else cs.m.skip }
        if isPick then d := { d with counter := d.counter + 1 }
      else
        match act d (.sched c now inp) c with
        | some d' => d := d'
        | none => d := setM d c fun cs => { cs with m := if isPick then cs.m.pick now else cs.m.skip }
      d ← compareLoc d n kind c i p key
      if reorder > 0 then d := { d with counter := d.counter + reorder }
      if isPick then
        d := setM d c fun cs =>
          let k := cs.picksN + 1
          { cs with picksN := k, ambUntil := if f then k else cs.ambUntil }
        d := latency d lateness
        d := { d with picks := d.picks + 1, forcedPicks := d.forcedPicks + (if f then 1 else 0),
                      caseForced := d.caseForced + (if f then 1 else 0), svcPicks := d.svcPicks + (if cst.isService then 1 else 0) }
        let _ := cnt
        -- probe wakeup_resched: how long after it was re-keyed to "due" the entry was taken
        match (d.cs.getD c {}).reschedAt with
        | some t => d := { setM d c (fun cs => { cs with reschedAt := none }) with wakeDelays := d.wakeDelays.push (now - t) }
        | none => pure ()
        spec d n c [.slot slotBefore d.max, .decision c forcedModel false elig, .loc c i p]
      else
        d := { d with skips := d.skips + 1, caseSkips := d.caseSkips + 1,
                      depSkips := d.depSkips + (if dep then 0 else 1), periodSkips := d.periodSkips + (if per then 0 else 1),
                      ownSkips := d.ownSkips + (if own then 0 else 1),
                      globalSkips := d.globalSkips + (if (if cst.isService then gs else gh) then 0 else 1) }
        spec d n c [.decision c forcedModel true elig, .loc c i p]
    | _, _, _, _, _, _, _ => IO.println s!"BADLINE line={n}"; return d
  | "gE", _, _ | "gB", _, _ =>
    let busy := kind == "gB"
    let mut d := d
    if cst.m.running != busy then
      d ← mismatch d n "guard" c (if busy then "busy" else "free") (if cst.m.running then "busy" else "free")
      d := setM d c fun cs => { cs with m := { cs.m with running := busy } }
    -- ExecuteCheck's early UpdateNextCheck comes first in the model; its value is not observed at this point (the property is checked
    -- on the implementation's own next_check when the attempt has come back, `dec`), so the model's next_check is left as it was
    let nxBefore := cst.m.nextCheck
    match act d (.rearm c cst.m.dispatchedAt (cst.m.dispatchedAt + 1)) c with
    | some d' => d := setM d' c fun cs => { cs with m := { cs.m with nextCheck := nxBefore } }
    | none => pure ()
    match act d (.helperGuard c) c with
    | some d' => d := d'
    | none => d ← mismatch d n "guard-without-helper" c "-" "hu=0"
    d := setM d c fun cs => { cs with guardsN := cs.guardsN + 1 }
    if busy then d := { d with busy := d.busy + 1, caseBusy := d.caseBusy + 1 }
    return d
  | "pr", _, _ =>
    -- a passive result is processed (F-C04c, fixed by 1c45f06): it does not touch the single-flight flag, so no `gR` follows
    match act { d with passives := d.passives + 1 } (.passiveResult c) c with
    | some d => return d
    | none => mismatch d n "passive-result" c "-" "not-enabled"
  | "gR", _, _ =>
    -- ProcessCheckResult reset the flag: the result of a finished plugin process, or of the command body in the helper
    match act d (if cst.m.pz > 0 then .procResult c else .result c) c with
    | some d => return d
    | none =>
      -- the flag was reset although no execution of `c` can deliver a result now: follow the implementation
      let d ← mismatch d n "result-without-execution" c "-" "hx=0,pz=0"
      return setM d c fun cs => { cs with m := { cs.m with running := false } }
  | "as", _, _ =>
    match act d (.spawn c) c with
    | some d => return { d with asyncExecs := d.asyncExecs + 1 }
    | none => mismatch d n "spawn-without-execution" c "-" "hx=0"
  | "pi", _, _ =>
    match act d (.pluginInc c) c with
    | some d => return (if d.counter > d.max then { d with counterOverMax := d.counterOverMax + 1 } else d)
    | none => mismatch d n "plugin-inc-without-spawn" c "-" "hs=0"
  | "pd", _, _ =>
    let d := if cst.m.hs > 0 then { d with exitBeforeInc := d.exitBeforeInc + 1 } else d
    -- a finished process gives its unit back (no wake-up of the scheduler by itself); if its checkable is not idle,
    -- NextCheckChangedHandler will not notify either (checkercomponent.cpp:336-337 returns before :344)
    let d := if cst.m.inIdle then d else { d with exitNotIdle := d.exitNotIdle + 1, silentFinNow := d.lastXeNow, notifiedSinceSilent := false }
    match act d (.procExit c) c with
    | some d => return d
    | none => mismatch d n "process-exit-without-process" c "-" "procs=0"
  | "dec", _, obs =>
    let d ← (match act d (.helperDec c) c with
      | some d => pure d
      | none => mismatch d n "dec-without-returned-helper" c "-" "hr=0")
    -- the property on the implementation's own next_check: the attempt has come back, the next check lies after its dispatch
    match obs.map parseInt? with
    | [some nx, some _] =>
      if cst.foreignRs || cst.op == some "deactivate" || cst.op == some "activate" then return d
      else spec { d with rearms := d.rearms + 1 } n c [.rearmed c cst.dispAt nx]
    | _ => return d
  | "fin", _, [i, p, key, now] =>
    match parseBool? i, parseBool? p, parseInt? key, parseInt? now with
    | some i, some p, some key, some now =>
      let mut d := d
      if i && !cst.m.inIdle then d := setM d c fun cs => { cs with dueFrom := max key now }
      if cst.m.hd == 0 then
        d ← mismatch d n "finish-without-helper" c "-" "hd=0"
        d := setM d c fun cs => { cs with m := { cs.m with hd := 1 } }
      if i && !cst.m.inIdle then
        d := setM d c fun cs => { cs with m := { cs.m with nextCheck := key } }
      if !cst.m.inPending then d := { d with finDropped := d.finDropped + 1, silentFinNow := now, notifiedSinceSilent := false }
      else d := { d with notifiedSinceSilent := true }
      let try1 := act d (.helperFinish c) c
      let ok (d' : DSt) : Bool := let x := (d'.cs.getD c {}).m; x.inIdle == i && x.inPending == p
      match try1 with
      | some d1 =>
        if ok d1 then d := d1
        else
          -- the section may have read `active` before/after the write of an activation/deactivation in flight
          let cst := d.cs.getD c {}
          if (cst.op == some "activate" || cst.op == some "deactivate") && !cst.wroteActive then
            let d2 := setM d c fun cs =>
              { cs with m := cs.m.setActive (cs.op == some "activate"), wroteActive := true }
            match act d2 (.helperFinish c) c with
            | some d3 => d := d3
            | none => d := d1
          else d := d1
      | none => pure ()
      d ← compareLoc d n "fin" c i p key
      spec d n c [.loc c i p]
    | _, _, _, _ => IO.println s!"BADLINE line={n}"; return d
  | "xs", _, [_] => spec { d with execs := d.execs + 1 } n c [.execStart c]
  | "xe", _, [t] => spec { d with lastXeNow := (parseInt? t).getD d.lastXeNow } n c [.execEnd c]
  | _, _, _ => IO.println s!"BADLINE line={n}"; return d

def handleSched (d : DSt) (n : Nat) (kind : String) (c : Nat) (args obs : List String) : IO DSt := do
  let d' ← handleSched' d n kind c args obs
  -- events logged while the checker's mutex is held (the emulated asynchronous commands do their +1 / -1 under it; the real
  -- PluginCheckTask does not)
  let locked := ["pick", "skip", "fin", "obj", "nc", "force"].contains kind || (!d.pluginCase && (kind == "pi" || kind == "pd"))
  if locked then return { d' with piSince := 0 }
  else if kind == "pi" then return { d' with piSince := d'.piSince + 1 }
  else return d'

def handle (d : DSt) (n : Nat) (line : String) : IO DSt := do
  let ws := words line
  let (pre, post) := splitBar ws
  match pre with
  | [] => return d
  | "C" :: k :: "arith" :: _ =>
    let d := closeCase d
    return { d with sched := false, caseNo := (parseNat? k).getD (d.caseNo + 1), cases := d.cases + 1, caseReported := 0, caseReportedSpec := 0 }
  | "C" :: k :: "sched" :: rest =>
    let d := closeCase d
    let d := { d with caseNo := (parseNat? k).getD (d.caseNo + 1), cases := d.cases + 1, caseReported := 0, caseReportedSpec := 0,
                      caseBusy := 0, caseForced := 0, caseSkips := 0, reschedUnanswered := 0, noWakeupCand := none, notifiedSinceSilent := true,
                      silentFinNow := 0, lastSchedNow := 0 }
    match (kvGet rest "max") >>= parseInt?, (kvGet rest "n") >>= parseNat?, (kvGet rest "pool") >>= parseNat?,
          (kvGet rest "bound_ms") >>= parseInt? with
    | some mx, some nn, some pool, some bound =>
      return { d with sched := true, wakeup := kvGet rest "script" == some "wakeup" || kvGet rest "script" == some "wakeup_async" ||
                        kvGet rest "script" == some "wakeup_resched",
                      wakeupAsync := kvGet rest "script" == some "wakeup_async",
                      wakeupResched := kvGet rest "script" == some "wakeup_resched", wakeDelays := #[],
                      pluginCase := kvGet rest "script" == some "plugin", piSince := 0,
                      schedCases := d.schedCases + 1, max := mx, counter := 0, boundUs := bound * 1000,
                      sp := { max := mx }, cs := Array.replicate (nn + pool) {} }
    | _, _, _, _ =>
      -- the scenario process produced nothing (crash) or the header is malformed
      IO.println s!"MISMATCH line={n} case={d.caseNo} op=scenario-did-not-run cid=0 impl={String.intercalate "_" rest} model=-"
      return { d with sched := false, mismatches := d.mismatches + 1, cs := #[] }
  | "K" :: c :: en :: iv :: rv :: more =>
    match parseNat? c, parseBool? en, parseInt? iv, parseInt? rv with
    | some c, some en, some iv, some rv =>
      -- K <cid> <enabled> <check_us> <retry_us> <async> <service> <foreign_zone>
      let svc := (more.getD 1 "0") == "1"
      let foreignZone := (more.getD 2 "0") == "1"
      let d := if foreignZone then { d with foreign := d.foreign + 1 } else d
      return setM d c fun cs => { cs with enabled := en, checkUs := iv, retryUs := rv, isService := svc,
                                          m := { cs.m with localZone := !foreignZone } }
    | _, _, _, _ => IO.println s!"BADLINE line={n}"; return d
  | "E" :: kind :: c :: args =>
    match parseNat? c with
    | some c => handleSched d n kind c args post
    | none => IO.println s!"BADLINE line={n}"; return d
  | ["W", c] =>
    match parseNat? c, post.map parseInt? with
    | some c, [some nb, some na, some nx, some iv] =>
      let cst := d.cs.getD c {}
      let mut d := { d with windows := d.windows + 1 }
      if iv != cst.checkUs && iv != cst.retryUs then
        d ← mismatch d n "interval-in-force" c s!"{iv}" s!"{cst.checkUs}|{cst.retryUs}"
      spec d n c [.window nb na nx iv]
    | _, _ => IO.println s!"BADLINE line={n}"; return d
  | ["Q", c] =>
    match parseNat? c, post with
    | some c, [s, i, p, key, nx] =>
      match parseBool? s, parseBool? i, parseBool? p, parseInt? key, parseInt? nx with
      | some s, some i, some p, some key, some nx =>
        let x := (d.cs.getD c {}).m
        let mut d := { d with quiescent := d.quiescent + 1 }
        if x.schedulable != s then
          d ← mismatch d n "quiescent-attributes" c (showBool s) (showBool x.schedulable)
        if x.hq + x.hu + x.hx + x.hs + x.hr + x.hd + x.procs + x.pz != 0 || x.pbal != 0 then
          d ← mismatch d n "quiescent-helpers-left" c "0" s!"{x.hq},{x.hu},{x.hx},{x.hs},{x.hr},{x.hd},{x.procs},{x.pz},{x.pbal}"
        d ← compareLoc d n "quiescent" c i p key
        spec d n c [.quiescent c s i p key nx]
      | _, _, _, _, _ => IO.println s!"BADLINE line={n}"; return d
    | _, _ => IO.println s!"BADLINE line={n}"; return d
  | "M" :: rest =>
    let geti (k : String) : Int := ((kvGet rest k) >>= parseInt?).getD 0
    let mut d := d
    if geti "hang" != 0 then d ← specName d n 0 "liveness_hang"
    if geti "overlap" != 0 then d ← specName d n 0 "monitor_single_flight"
    if geti "max_parallel" > d.max then d ← specName d n 0 "monitor_concurrency_bound"
    -- nothing is in flight any more (every helper finished, every process delivered): the implementation's own counter
    if geti "hang" == 0 then d ← spec d n 0 [.quiescentCounter (geti "counter_end")]
    if d.counter != 0 && geti "hang" == 0 && geti "counter_end" == 0 then
      d ← mismatch d n "counter-at-quiescence" 0 s!"{geti "counter_end"}" s!"{d.counter}"
    let overdue := geti "overdue_max_us"
    let canary := geti "canary_max_us"
    -- scripted probe (F-C04a, fixed by 31ee201): the slot freed by a helper whose checkable had left the pending set must wake
    -- the scheduler at once, not only its 0.5 s poll; the median over the repetitions is robust against single stalls of the machine
    if d.wakeupResched then
      -- ORDER-based verdict, no wall-clock margin: an idle entry behind the front that is rescheduled to "now" must be taken without any
      -- further event; the harness waits 8 s for that before it goes on (and gives up after two such waits).  Unanswered = re-keyed again,
      -- or still waiting at the end, without having been taken.
      let sorted := d.wakeDelays.qsort (· < ·)
      let pending := d.cs.foldl (fun k cs => if cs.reschedAt.isSome then k + 1 else k) 0
      let unanswered := d.reschedUnanswered + pending
      d := { d with wakeSamples := d.wakeSamples + sorted.size, wakeReschedMedianUs := max d.wakeReschedMedianUs (sorted.getD (sorted.size / 2) 0) }
      if unanswered ≥ 2 then
        if canary < 4000000 then
          IO.println s!"SPECFAIL line={n} case={d.caseNo} clause=liveness_wakeup_when_rescheduled cid=1 unanswered={unanswered} taken={sorted.size}"
          d := { d with specfails := d.specfails + 1 }
        else d := { d with livenessInconclusive := d.livenessInconclusive + 1 }
    else if d.wakeup then
      let sorted := d.wakeDelays.qsort (· < ·)
      -- a wall-clock verdict (0.5 s poll against an immediate wake-up): only when this scenario's own canaries saw no stall
      if sorted.size ≥ 6 && canary < 100000 then
        let med := sorted.getD (sorted.size / 2) 0
        d := { d with wakeSamples := d.wakeSamples + sorted.size }
        if d.wakeupAsync then d := { d with wakeAsyncMedianUs := max d.wakeAsyncMedianUs med }
        else d := { d with wakeMedianUs := max d.wakeMedianUs med }
        if med ≥ 150000 then
          let cl := if d.wakeupAsync then "liveness_wakeup_when_process_finished" else "liveness_wakeup_when_slot_freed"
          IO.println s!"SPECFAIL line={n} case={d.caseNo} clause={cl} cid=1 median_delay_us={med} samples={sorted.size}"
          d := { d with specfails := d.specfails + 1 }
      else d := { d with livenessInconclusive := d.livenessInconclusive + 1 }
    if overdue > d.boundUs then
      let msg := s!"SPECFAIL line={n} case={d.caseNo} clause=liveness_overdue cid=0 overdue_us={overdue} canary_us={canary}"
      d := { d with liveCands := d.liveCands.push msg }
    return { d with overdueMaxUs := max d.overdueMaxUs overdue, canaryMaxUs := max d.canaryMaxUs canary,
                    maxParallel := max d.maxParallel (geti "max_parallel") }
  | ["U", now, off, chk, rty, soft] =>
    match parseInt? now, parseInt? off, parseInt? chk, parseInt? rty, parseBool? soft, post.map parseInt? with
    | some now, some off, some chk, some rty, some soft, [some impl] =>
      let iv : Rat := (if soft then rty else chk : Int) / (1000000 : Rat)
      let nowR : Rat := (now : Rat) / 1000000
      let nextR := updateNextCheck nowR off iv
      let modelNs := (nextR * 1000000000).floor
      let diff := impl - modelNs
      let adj := nextCheckAdj nowR off iv
      let mut d := { d with arith := d.arith + 1, steps := d.steps + 1, arithAdj := d.arithAdj + (if adj != 0 then 1 else 0) }
      if diff > 1000 || diff < -1000 then
        d ← mismatch d n "update-next-check" 0 s!"{impl}" s!"{modelNs}"
      -- the property on the implementation's own value: now < next ≤ now + interval (1 µs tolerance for binary64)
      let nowNs := now * 1000
      let ivNs : Int := (if soft then rty else chk) * 1000
      if !(nowNs < impl + 1000 ∧ impl ≤ nowNs + ivNs + 1000) || (ivNs > 0 ∧ impl ≤ nowNs) then
        d ← specName d n 0 "next_check_window"
      return d
    | _, _, _, _, _, _ => IO.println s!"BADLINE line={n}"; return d
  | _ => IO.println s!"BADLINE line={n}"; return d

def main : IO Unit := do
  let stdin ← IO.getStdin
  let d ← foldLines stdin handle ({} : DSt)
  let d := closeCase d
  -- real-time liveness (measured, partial): a verdict only if no scenario process of this run was starved of CPU
  let mut d := d
  if d.liveCands.size > 0 then
    if d.canaryMaxUs < 200000 then
      for l in d.liveCands.toList.take 3 do IO.println l
      d := { d with specfails := d.specfails + d.liveCands.size }
    else d := { d with livenessInconclusive := d.liveCands.size }
  IO.println (s!"STATS cases={d.cases} sched_cases={d.schedCases} steps={d.steps} arith={d.arith} arith_adjusted={d.arithAdj} " ++
    s!"picks={d.picks} forced_picks={d.forcedPicks} skips={d.skips} guard_busy={d.busy} execs={d.execs} async_execs={d.asyncExecs} exit_before_plugin_inc={d.exitBeforeInc} exit_while_not_idle={d.exitNotIdle} counter_over_max={d.counterOverMax} windows={d.windows} slot_judged_before_plugin_inc={d.slotReordered} rearm_checked={d.rearms} skip_rearm_checked={d.skipRearms} " ++
    s!"object_sections={d.objs} reindex={d.reindex} erased_while_pending={d.erasedPending} finish_found_gone={d.finDropped} " ++
    s!"ops={d.ops} forces={d.forces} force_ambiguous={d.forceAmb} quiescent={d.quiescent} " ++
    s!"lat_lt1ms={d.lat1ms} lat_lt10ms={d.lat10ms} lat_lt100ms={d.lat100ms} lat_lt1s={d.lat1s} lat_ge1s={d.latMore} lat_max_us={d.latMaxUs} " ++
    s!"overdue_max_us={d.overdueMaxUs} canary_max_us={d.canaryMaxUs} max_parallel={d.maxParallel} " ++
    s!"liveness_inconclusive={d.livenessInconclusive} late_after_silent_finish={d.noWakeups} wakeup_probe_samples={d.wakeSamples} wakeup_probe_median_us={d.wakeMedianUs} wakeup_async_probe_median_us={d.wakeAsyncMedianUs} wakeup_resched_probe_median_us={d.wakeReschedMedianUs} decisions_right_after_toggle={d.eligRecent} passive_results={d.passives} service_picks={d.svcPicks} skips_dependency={d.depSkips} skips_global_flag={d.globalSkips} skips_period={d.periodSkips} skips_own_flag={d.ownSkips} foreign_zone={d.foreign} liveness_candidates={d.liveCands.size} nontrivial={d.nontrivial} mismatches={d.mismatches} specfails={d.specfails}")

/-
  vd_c02 — replays the C02 harness lines through the model, compares observations and evaluates the
  specification predicate on the implementation's own trace.  Line formats: see harness/c02.cpp.
-/
import IcingaModel.Common.Proto
import IcingaModel.C02.Model
import IcingaModel.C02.Spec
import IcingaModel.C02.Ack
import IcingaModel.C02.Flap

open Icinga Icinga.C01 Icinga.C02 Icinga.Proto

structure DSt where
  cfg : Cfg := { kind := .service, max := 1, volatile := false }
  st : C02.St := C02.init
  sp : C02.SpecSt := C02.specInit
  ack : C02.AckSt := {}         -- model: the two acknowledgement attributes
  sack : C02.SpecAck := {}      -- property level: the acknowledgement in force
  flap : C02.FlapSt := {}       -- model: flapping ring buffer
  sflap : C02.SpecFlap := {}    -- property level: window over the last 20 results
  flapEnabled : Bool := false
  flapUnsure : Bool := false    -- an exact tie with a threshold happened while IsFlapping() was switched off
  flapChecked : Nat := 0
  flapTies : Nat := 0
  flapToggles : Nat := 0
  ackOps : Nat := 0
  ackExpired : Nat := 0
  ackReplaced : Nat := 0
  now : Int := 0
  caseNo : Nat := 0
  steps : Nat := 0
  results : Nat := 0
  fires : Nat := 0
  sentImmediate : Nat := 0
  stashed : Nat := 0
  released : Nat := 0
  dismissed : Nat := 0
  flapNotifs : Nat := 0
  soon : Nat := 0
  interleaved : Nat := 0
  synced : Nat := 0
  caseFailed : Bool := false
  caseNontrivial : Bool := false
  nontrivial : Nat := 0
  mismatches : Nat := 0
  specfails : Nat := 0

def parseNotifs (s : String) : Option (List Notif) :=
  if s == "-" then some [] else
  (s.splitOn ",").mapM fun item =>
    match item.splitOn ":" with
    | [t, st] => do
      let t ← (parseNat? t) >>= NType.ofBit?
      let st ← (parseNat? st) >>= SState.ofNat?
      pure ⟨t, st⟩
    | _ => none

def showNotifs (ns : List Notif) : String :=
  if ns.isEmpty then "-" else ",".intercalate (ns.map fun n => s!"{n.ty.bit}:{n.state.toNat}")

/-- split a word list at ";" separators -/
def splitSemi (ws : List String) : List (List String) :=
  let rec go (acc : List String) (out : List (List String)) : List String → List (List String)
    | [] => (acc.reverse :: out).reverse
    | ";" :: rest => go [] (acc.reverse :: out) rest
    | w :: rest => go (w :: acc) out rest
  go [] [] ws

def bump (d : DSt) : DSt :=
  if d.caseNontrivial then d else { d with caseNontrivial := true, nontrivial := d.nontrivial + 1 }

/-- One acknowledgement operation at the driver's current time: the model's `IsAcknowledged()` against the
    implementation's (MISMATCH), the acknowledgement in force per the operations performed against the
    implementation's (SPECFAIL), when the harness observed it. -/
def ackApply (d : DSt) (n : Nat) (op : AckOp) (obs : Option Bool) : IO DSt := do
  let mobs := C02.ackObs d.ack d.now op
  let a' := C02.ackStep d.ack d.now op
  let sa' := C02.specAckStep d.sack op
  let mut d := d
  match op with
  | .set _ _ => if d.sack.inForce d.now then d := { d with ackReplaced := d.ackReplaced + 1 }
  | _ => pure ()
  if d.sack.cur.isSome && d.sack.inForce d.now == false && d.ack.ty != .none then d := { d with ackExpired := d.ackExpired + 1 }
  match obs with
  | none => pure ()
  | some o =>
    d := { d with ackOps := d.ackOps + 1 }
    if o != mobs then
      IO.println s!"MISMATCH line={n} case={d.caseNo} op=ACK impl={showBool o} model={showBool mobs}"
      d := { d with mismatches := d.mismatches + 1 }
    if o != sa'.inForce d.now then
      if !d.caseFailed then IO.println s!"SPECFAIL line={n} case={d.caseNo} clause=acknowledged_exactly_while_the_newest_acknowledgement_is_in_force"
      d := { d with specfails := d.specfails + 1, caseFailed := true }
  -- after a disagreement continue from the implementation's answer
  let resync := match obs with | some o => o != mobs || o != sa'.inForce d.now | none => false
  if resync then
    let o := obs.getD false
    return { d with ack := if o then (if a'.ty != .none then a' else ⟨.sticky, 0⟩) else C02.ackCleared,
                    sack := if o then (if sa'.inForce d.now then sa' else ⟨some (true, 0)⟩) else ⟨none⟩ }
  else return { d with ack := a', sack := sa' }

/-- One accepted result through the flapping model: `IsFlapping()` before and after against the
    implementation's (MISMATCH op=FLAP); at an exact tie of the weighted total with the threshold
    (binary64 rounding decides in the code) the implementation's answer is adopted. -/
def flapApply (d : DSt) (n : Nat) (st : SState) (e : REnv) : IO DSt := do
  let wasM := C02.isFlappingOf d.flapEnabled d.flap
  let (f', tie) := C02.flapUpdate {} d.flap st
  let (sf', _) := C02.specFlapStep {} d.sflap st
  let isM := C02.isFlappingOf d.flapEnabled f'
  let mut d := d
  let mut f' := f'
  let mut sf' := sf'
  if d.flapUnsure then
    return { d with flap := f', sflap := sf' }
  if tie then
    d := { d with flapTies := d.flapTies + 1 }
    if d.flapEnabled then
      f' := { f' with flapping := e.isFlapping }
      sf' := { sf' with flapping := e.isFlapping }
    else d := { d with flapUnsure := true }
    if wasM != e.wasFlapping then
      IO.println s!"MISMATCH line={n} case={d.caseNo} op=FLAP impl={showBool e.wasFlapping},{showBool e.isFlapping} model={showBool wasM},tie"
      d := { d with mismatches := d.mismatches + 1 }
  else
    d := { d with flapChecked := d.flapChecked + 1 }
    if wasM != isM then d := { d with flapToggles := d.flapToggles + 1 }
    if (wasM, isM) != (e.wasFlapping, e.isFlapping) || f'.flapping != sf'.flapping then
      IO.println s!"MISMATCH line={n} case={d.caseNo} op=FLAP impl={showBool e.wasFlapping},{showBool e.isFlapping} model={showBool wasM},{showBool isM} window={showBool sf'.flapping}"
      d := { d with mismatches := d.mismatches + 1 }
      if d.flapEnabled then
        f' := { f' with flapping := e.isFlapping }
        sf' := { sf' with flapping := e.isFlapping }
      else d := { d with flapUnsure := true }
  return { d with flap := f', sflap := sf' }

def handle (d : DSt) (n : Nat) (line : String) : IO DSt := do
  let ws := words line
  match ws with
  | [] => return d
  | "C" :: k :: mx :: vol :: crest =>
    match (if k == "h" then some Kind.host else if k == "s" then some Kind.service else none),
          parseNat? mx, parseBool? vol with
    | some k, some mx, some vol =>
      return { d with cfg := { kind := k, max := mx, volatile := vol }, st := C02.init, sp := C02.specInit, ack := {}, sack := {}, flap := {}, sflap := {}, flapUnsure := false,
                      flapEnabled := (crest.head?.bind parseBool?).getD false,
                      caseNo := d.caseNo + 1, caseFailed := false, caseNontrivial := false, now := 1000 }
    | _, _, _ => IO.println s!"BADLINE line={n}"; return d
  | "R" :: rest =>
    let (pre, post) := splitBar rest
    match pre, splitSemi post with
    | [st, dt, _act], [[acc, ost, oty, oat], [re, idt, ack, wf, isf, pa], [sup, sbs], [nts]] =>
      let parsed : Option (SState × Int × Bool × SState × SType × Nat × REnv × Nat × SState × List Notif) := do
        let st ← (parseNat? st) >>= SState.ofNat?
        let dt ← parseInt? dt
        let acc ← parseBool? acc
        let ost ← (parseNat? ost) >>= SState.ofNat?
        let oty ← (parseNat? oty) >>= SType.ofNat?
        let oat ← parseNat? oat
        let e : REnv := { notifReachable := ← parseBool? re, inDowntime := ← parseBool? idt, acked := ← parseBool? ack,
                          wasFlapping := ← parseBool? wf, isFlapping := ← parseBool? isf, paused := ← parseBool? pa }
        let sup ← parseNat? sup
        let sbs ← (parseNat? sbs) >>= SState.ofNat?
        let nts ← parseNotifs nts
        pure (st, dt, acc, ost, oty, oat, e, sup, sbs, nts)
      match parsed with
      | none => IO.println s!"BADLINE line={n}"; return d
      | some (st, dt, acc, ost, oty, oat, e, sup, sbs, nts) =>
        let now := d.now + dt
        let r : Res := { state := st, execStart := now, now := now }
        let (ms, mn, macc) := C02.resultStep d.cfg d.st r e
        let mut d := { d with steps := d.steps + 1, results := d.results + 1, now := now }
        d ← ackApply d n (if acc then .result (C01.stateChange d.cfg.kind d.sp.state ost) (isOK d.cfg.kind ost) else .query) (some e.acked)
        if acc then d ← flapApply d n st e
        let implTuple := (acc, ost, oty, oat, sup, sbs, nts)
        let modelTuple := (macc, ms.core.state, ms.core.stype, ms.core.attempt, ms.sup.toNat, ms.sbs, mn)
        let agree := implTuple == modelTuple
        if !agree then
          IO.println s!"MISMATCH line={n} case={d.caseNo} op=R impl={showBool acc},{ost.toNat},{oty.toNat},{oat},{sup},{sbs.toNat},{showNotifs nts} model={showBool macc},{ms.core.state.toNat},{ms.core.stype.toNat},{ms.core.attempt},{ms.sup.toNat},{ms.sbs.toNat},{showNotifs mn}"
          d := { d with mismatches := d.mismatches + 1 }
        let (bad, sp') := C02.specStep d.cfg d.sp (.result acc ost oty e nts (Sup.ofNat sup).hasState sbs)
        match bad with
        | some cl =>
          if !d.caseFailed then IO.println s!"SPECFAIL line={n} case={d.caseNo} clause={cl.name}"
          d := { d with specfails := d.specfails + 1, caseFailed := true }
        | none => pure ()
        if !(statePart nts).isEmpty then d := bump { d with sentImmediate := d.sentImmediate + 1 }
        if !(flapPart nts).isEmpty then d := bump { d with flapNotifs := d.flapNotifs + 1 }
        if sp'.pending.isSome && !d.sp.pending.isSome then d := bump { d with stashed := d.stashed + 1 }
        -- resynchronise on the implementation after a mismatch so that one divergence is reported once
        let st' : C02.St := if agree then ms else
          { core := { state := ost, stype := oty, attempt := oat, lastHard := ms.core.lastHard,
                      lastExec := if acc then some now else d.st.core.lastExec },
            sup := Sup.ofNat sup, sbs := sbs }
        return { d with st := st', sp := sp' }
    | _, _ => IO.println s!"BADLINE line={n}"; return d
  | "FR" :: rest =>
    let (pre, post) := splitBar rest
    let parseF (ws : List String) : Option FEnv :=
      match ws with
      | [_fired, pa, en, ss, idt, isf, act, ivl, nin, pr] => do
        pure { paused := ← parseBool? pa, enabled := ← parseBool? en, stateSuppressed := ← parseBool? ss,
               inDowntime := ← parseBool? idt, isFlapping := ← parseBool? isf,
               activeChecks := ← parseBool? act, interval := ← parseInt? ivl, nextIn := ← parseInt? nin,
               parentRecent := ← parseBool? pr }
      | _ => none
    match pre, splitSemi post with
    | [dt, st], [fa, fb, [il, acc, ost, oty, oat], [re, idt, ack, wf, isf, pa], [sup, sbs], [nts]] =>
      let parsed : Option (Int × SState × FEnv × FEnv × Bool × Bool × SState × SType × Nat × REnv × Nat × SState × List Notif) := do
        let dt ← parseInt? dt
        let st ← (parseNat? st) >>= SState.ofNat?
        let ea ← parseF fa
        let eb ← parseF fb
        let il ← parseBool? il
        let acc ← parseBool? acc
        let ost ← (parseNat? ost) >>= SState.ofNat?
        let oty ← (parseNat? oty) >>= SType.ofNat?
        let oat ← parseNat? oat
        let e : REnv := { notifReachable := ← parseBool? re, inDowntime := ← parseBool? idt, acked := ← parseBool? ack,
                          wasFlapping := ← parseBool? wf, isFlapping := ← parseBool? isf, paused := ← parseBool? pa }
        let sup ← parseNat? sup
        let sbs ← (parseNat? sbs) >>= SState.ofNat?
        let nts ← parseNotifs nts
        pure (dt, st, ea, eb, il, acc, ost, oty, oat, e, sup, sbs, nts)
      match parsed with
      | none => IO.println s!"BADLINE line={n}"; return d
      | some (dt, st, ea, eb, il, acc, ost, oty, oat, e, sup, sbs, nts) =>
        let now := d.now + dt
        let r : Res := { state := st, execStart := now, now := now }
        let (ms, mn, macc, mil) := C02.fireResultStep d.cfg d.st ea r e
        let mut d := { d with steps := d.steps + 1, fires := d.fires + 1, results := d.results + 1, now := now }
        d ← ackApply d n .query none
        d ← ackApply d n (if acc then .result (C01.stateChange d.cfg.kind d.sp.state ost) (isOK d.cfg.kind ost) else .query) (some e.acked)
        if acc then d ← flapApply d n st e
        let implTuple := (il, acc, ost, oty, oat, sup, sbs, nts)
        let modelTuple := (mil, macc, ms.core.state, ms.core.stype, ms.core.attempt, ms.sup.toNat, ms.sbs, mn)
        let agree := implTuple == modelTuple
        if !agree then
          IO.println s!"MISMATCH line={n} case={d.caseNo} op=FR impl={showBool il},{showBool acc},{ost.toNat},{oty.toNat},{oat},{sup},{sbs.toNat},{showNotifs nts} model={showBool mil},{showBool macc},{ms.core.state.toNat},{ms.core.stype.toNat},{ms.core.attempt},{ms.sup.toNat},{ms.sbs.toNat},{showNotifs mn}"
          d := { d with mismatches := d.mismatches + 1 }
        let (bad, sp') := C02.specFireResult d.cfg d.sp ea eb acc ost oty e nts (Sup.ofNat sup).hasState sbs
        match bad with
        | some cl =>
          if !d.caseFailed then IO.println s!"SPECFAIL line={n} case={d.caseNo} clause={cl.name}"
          d := { d with specfails := d.specfails + 1, caseFailed := true }
        | none => pure ()
        if il then d := bump { d with interleaved := d.interleaved + 1 }
        let st' : C02.St := if agree then ms else
          { core := { state := ost, stype := oty, attempt := oat, lastHard := ms.core.lastHard,
                      lastExec := if acc then some now else d.st.core.lastExec },
            sup := Sup.ofNat sup, sbs := sbs }
        -- after a rejected pair the bookkeeping restarts from the attributes
        let sp'' : C02.SpecSt := if bad.isSome then
            { sp' with pending := if (Sup.ofNat sup).hasState then some sbs else none } else sp'
        return { d with st := st', sp := sp'' }
    | _, _ => IO.println s!"BADLINE line={n}"; return d
  | "F" :: rest =>
    let (pre, post) := splitBar rest
    match pre, splitSemi post with
    | [dt, _via], [[fired, pa, en, ss, idt, isf, act, ivl, nin, pr], [sup, sbs], [lk], [nts], [ackb]] =>
      let parsed : Option (Int × Bool × FEnv × Nat × SState × Bool × List Notif × Bool) := do
        let dt ← parseInt? dt
        let fired ← parseBool? fired
        let e : FEnv := { paused := ← parseBool? pa, enabled := ← parseBool? en, stateSuppressed := ← parseBool? ss,
                          inDowntime := ← parseBool? idt, isFlapping := ← parseBool? isf,
                          activeChecks := ← parseBool? act, interval := ← parseInt? ivl, nextIn := ← parseInt? nin,
                          parentRecent := ← parseBool? pr }
        let sup ← parseNat? sup
        let sbs ← (parseNat? sbs) >>= SState.ofNat?
        let lk ← parseBool? lk
        let nts ← parseNotifs nts
        let ackb ← parseBool? ackb
        pure (dt, fired, e, sup, sbs, lk, nts, ackb)
      match parsed with
      | none => IO.println s!"BADLINE line={n}"; return d
      | some (dt, fired, e, sup, sbs, lk, nts, ackb) =>
        let mut d := { d with steps := d.steps + 1, fires := d.fires + 1, now := d.now + dt }
        d ← ackApply d n .query (some ackb)
        let (ms, mn) := if fired then C02.fireStep d.cfg d.st e else (d.st, [])
        let agree := (sup, sbs, lk, nts) == (ms.sup.toNat, ms.sbs, e.likelySoon, mn)
        if !agree then
          IO.println s!"MISMATCH line={n} case={d.caseNo} op=F impl={sup},{sbs.toNat},{showBool lk},{showNotifs nts} model={ms.sup.toNat},{ms.sbs.toNat},{showBool e.likelySoon},{showNotifs mn}"
          d := { d with mismatches := d.mismatches + 1 }
        let (bad, sp') := if fired then C02.specStep d.cfg d.sp (.fire e nts (Sup.ofNat sup).hasState sbs)
                          else ((if nts.isEmpty then none else some Clause.fireNoPending), d.sp)
        match bad with
        | some cl =>
          if !d.caseFailed then IO.println s!"SPECFAIL line={n} case={d.caseNo} clause={cl.name}"
          d := { d with specfails := d.specfails + 1, caseFailed := true }
        | none => pure ()
        if fired && e.likelySoon then d := { d with soon := d.soon + 1 }
        if d.sp.pending.isSome && !sp'.pending.isSome then
          d := bump (if (statePart nts).isEmpty then { d with dismissed := d.dismissed + 1 } else { d with released := d.released + 1 })
        let st' : C02.St := if agree then ms else { d.st with sup := Sup.ofNat sup, sbs := sbs }
        return { d with st := st', sp := sp' }
    | _, _ => IO.println s!"BADLINE line={n}"; return d
  | "Y" :: sup :: sbs :: _ =>
    -- restore / cluster sync of the two attributes: model and bookkeeping restart from them
    match parseNat? sup, (parseNat? sbs) >>= SState.ofNat? with
    | some sup, some sbs =>
      let m := Sup.ofNat sup
      return { d with st := { d.st with sup := m, sbs := sbs }, synced := d.synced + 1,
                      sp := { d.sp with pending := if m.hasState then some sbs else none,
                                        flapPending := if m.flapStart then some true else if m.flapEnd then some false else none } }
    | _, _ => IO.println s!"BADLINE line={n}"; return d
  | "A+" :: rest | "A!" :: rest =>
    let (pre, post) := splitBar rest
    match pre, post with
    | [sticky, edt], [applied, acked] =>
      match parseBool? sticky, parseInt? edt, parseBool? applied, parseBool? acked with
      | some sticky, some edt, some applied, some acked =>
        if applied then
          ackApply d n (.set sticky (if edt == 0 then 0 else d.now + edt)) (some acked)
        else ackApply d n .query (some acked)
      | _, _, _, _ => IO.println s!"BADLINE line={n}"; return d
    | _, _ => IO.println s!"BADLINE line={n}"; return d
  | "A-" :: rest =>
    let (_, post) := splitBar rest
    match post with
    | [_, acked] =>
      match parseBool? acked with
      | some acked => ackApply d n .clear (some acked)
      | none => IO.println s!"BADLINE line={n}"; return d
    | _ => IO.println s!"BADLINE line={n}"; return d
  | _ => return d   -- D+/D-/P/Q/U/N/E/X: environment changes, visible to the model through the environment inputs

def main : IO Unit := do
  let stdin ← IO.getStdin
  let d ← foldLines stdin handle ({} : DSt)
  IO.println s!"STATS cases={d.caseNo} steps={d.steps} results={d.results} fires={d.fires} sent_immediate={d.sentImmediate} stashed={d.stashed} released={d.released} dismissed={d.dismissed} flap_notifs={d.flapNotifs} imminent={d.soon} interleaved={d.interleaved} synced={d.synced} flap_checked={d.flapChecked} flap_toggles={d.flapToggles} flap_ties={d.flapTies} ack_ops={d.ackOps} ack_replaced={d.ackReplaced} ack_expired={d.ackExpired} nontrivial={d.nontrivial} mismatches={d.mismatches} specfails={d.specfails}"

/-
  C15 driver: replays every generated AST through the model (number type = `Float`, IEEE binary64 evaluated natively),
  prints MISMATCH when the real evaluator's outcome differs from the model's, SPECFAIL when the specification predicate
  fails on the implementation's own observation, BADLINE for unparsable lines, and a final STATS line.
-/
import IcingaModel.C15.Model
import IcingaModel.C15.Spec

open Icinga.C15

namespace C15Driver

/-! ### `double` -/

/-- exact decomposition of a finite binary64: (negative, mantissa, exponent) with value = ±mantissa · 2^exponent -/
def decomp (x : Float) : Bool × Nat × Int :=
  let b := x.toBits.toNat
  let neg := b / 2 ^ 63 == 1
  let e : Nat := (b / 2 ^ 52) % 2048
  let m : Nat := b % 2 ^ 52
  if e == 0 then (neg, m, -1074) else (neg, m + 2 ^ 52, (Int.ofNat e) - 1075)

/-- `static_cast<int>(double)`: truncation toward zero, defined only when the result fits `int` -/
def floatToInt32 (x : Float) : Option Int :=
  if x.isNaN || !x.isFinite then none
  else
    let (neg, m, e) := decomp x
    let mag : Nat := if e ≥ 0 then (if e > 40 then 2 ^ 62 else m * 2 ^ e.toNat) else m / 2 ^ (-e).toNat
    let v : Int := if neg then -(mag : Int) else mag
    if -2147483648 ≤ v ∧ v ≤ 2147483647 then some v else none

def padLeft (s : String) (n : Nat) : String := String.ofList (List.replicate (n - s.length) '0') ++ s

/-- `std::fixed` with precision 0 when `integralShort` and the value is integral, 6 otherwise (round-half-even on the exact value);
    `Convert::ToString(double)` uses the short form, `ConfigWriter::EmitNumber` never does. -/
def floatFixed (integralShort : Bool) (x : Float) : String :=
  let sign := if x.toBits.toNat / 2 ^ 63 == 1 then "-" else ""
  if x.isNaN then sign ++ "nan"
  else if !x.isFinite then sign ++ "inf"
  else
    let (_, m, e) := decomp x
    if e ≥ 0 then sign ++ toString (m * 2 ^ e.toNat) ++ (if integralShort then "" else ".000000")
    else
      let den := 2 ^ (-e).toNat
      if m % den == 0 then sign ++ toString (m / den) ++ (if integralShort then "" else ".000000")
      else
        let num := m * 1000000
        let q := num / den
        let r := num % den
        let q := if 2 * r > den || (2 * r == den && q % 2 == 1) then q + 1 else q
        sign ++ toString (q / 1000000) ++ "." ++ padLeft (toString (q % 1000000)) 6

instance : Num Float where
  ofInt := Float.ofInt
  add := (· + ·)
  sub := (· - ·)
  mul := (· * ·)
  div := (· / ·)
  eq := (· == ·)
  lt := (· < ·)
  le := (· ≤ ·)
  toInt32 := floatToInt32
  toStr := floatFixed true
  toFixed := floatFixed false

/-! ### protocol -/

def hexVal (c : Char) : Nat :=
  if '0' ≤ c ∧ c ≤ '9' then c.toNat - 48 else if 'a' ≤ c ∧ c ≤ 'f' then c.toNat - 87 else 0

def unhex (h : String) : String :=
  if h == "-" then "" else
  let rec go : List Char → List Char
    | a :: b :: r => Char.ofNat (hexVal a * 16 + hexVal b) :: go r
    | _ => []
  String.ofList (go h.toList)

def hexDigit (n : Nat) : Char := if n < 10 then Char.ofNat (48 + n) else Char.ofNat (87 + n)

def hex (s : String) : String :=
  String.ofList (s.toList.flatMap fun c => [hexDigit (c.toNat / 16 % 16), hexDigit (c.toNat % 16)])

def hexBits (n : Nat) : String :=
  String.ofList ((List.range 16).map fun i => hexDigit (n / 16 ^ (15 - i) % 16))

def parseHexNat (s : String) : Nat := s.toList.foldl (fun acc c => acc * 16 + hexVal c) 0

def binOfName : String → Option BinOp
  | "add" => some .add | "sub" => some .sub | "mul" => some .mul | "div" => some .div | "mod" => some .mod
  | "xor" => some .xor | "band" => some .band | "bor" => some .bor | "shl" => some .shl | "shr" => some .shr
  | "eq" => some .eq | "ne" => some .ne | "lt" => some .lt | "gt" => some .gt | "le" => some .le | "ge" => some .ge
  | _ => none

def setOfName : String → Option SetOp
  | "lit" => some .lit | "add" => some .add | "sub" => some .sub | "mul" => some .mul | "div" => some .div
  | "mod" => some .mod | "xor" => some .xor | "band" => some .band | "bor" => some .bor | _ => none

abbrev E := Expr Float
abbrev PR (α : Type) := Option (α × List String)

def takeN (n : Nat) (ts : List String) : PR (List String) :=
  if ts.length < n then none else some (ts.take n, ts.drop n)

/-- recursive descent over the prefix token list (fuel = number of tokens). -/
def parse : Nat → List String → PR E
  | 0, _ => none
  | f + 1, ts =>
    let many (n : Nat) (ts : List String) : PR (List E) :=
      (List.range n).foldl (fun acc _ =>
        match acc with
        | some (es, ts) => (parse f ts).map fun (e, ts') => (es ++ [e], ts')
        | none => none) (some ([], ts))
    let two (ts : List String) (k : E → E → E) : PR E :=
      match parse f ts with
      | some (a, ts1) => (parse f ts1).map fun (b, ts2) => (k a b, ts2)
      | none => none
    let one (ts : List String) (k : E → E) : PR E := (parse f ts).map fun (a, ts1) => (k a, ts1)
    match ts with
    | [] => none
    | "n" :: bits :: text :: r =>
      -- the literal's value is COMPUTED by the model (Literal.lean: the lexer's arithmetic); the lexer's own value (`bits`) is
      -- used only where the two differ within the tolerance that `Spec.checkLiteral` grants (reported as lit_tolerated)
      let implV := Float.ofBits (UInt64.ofNat (parseHexNat bits))
      match (litValue text : Option Float) with
      | some v => some (.num (if v.toBits == implV.toBits then v else implV), r)
      | none => some (.num implV, r)
    | "s" :: h :: r => some (.str (unhex h), r)
    | "v" :: x :: r => some (.var x, r)
    | "null" :: r => some (.null, r)
    | "b0" :: r => some (.bool false, r)
    | "b1" :: r => some (.bool true, r)
    | "this" :: r => some (.scope .this, r)
    | "locals" :: r => some (.scope .locals, r)
    | "globals" :: r => some (.scope .globals, r)
    | "brk" :: r => some (.brk, r)
    | "cont" :: r => some (.cont, r)
    | "~" :: r => one r .bnot
    | "!" :: r => one r .lnot
    | "neg" :: r => one r fun e => .bin .sub (.num 0) e          -- config_parser.yy: SubtractExpression(MakeLiteral(0), $2)
    | "pos" :: r => one r id                                      -- config_parser.yy: $$ = $2
    | "par" :: r => one r id
    | "ret" :: r => one r .ret
    | "throw" :: r => one r .throw
    | "op" :: o :: r => match binOfName o with | some op => two r (.bin op) | none => none
    | "set" :: o :: r => match setOfName o with | some op => two r (fun a b => .set a op b) | none => none
    | "land" :: r => two r .and
    | "lor" :: r => two r .or
    | "in" :: r => two r .isIn
    | "!in" :: r => two r .notIn
    | "idx" :: r => two r .index
    | "while" :: r => two r .while
    | "try" :: r => two r .try
    | "dot" :: x :: r => one r fun e => .index e (.str x)
    | "var" :: x :: r => one r fun e => .set (.index (.scope .locals) (.str x)) .lit e      -- BindToScope(ScopeLocal)
    | "if" :: r => two r fun c t => .cond c t none
    | "ife" :: r =>
      match parse f r with
      | some (c, r1) => two r1 fun t e => .cond c t (some e)
      | none => none
    | "ifc" :: nb :: he :: r =>                                   -- if / else if … [else]: nested ConditionalExpressions, first branch outermost
      match many (2 * nb.toNat! + (if he == "1" then 1 else 0)) r with
      | some (ks, r1) =>
        let rec chain : List E → Option E
          | [c, b] => some (.cond c b none)
          | [c, b, e] => if he == "1" then some (.cond c b (some e)) else none
          | c :: b :: rest => (chain rest).map fun tail => .cond c b (some tail)
          | _ => none
        (chain ks).map fun e => (e, r1)
      | none => none
    | "tern" :: r =>
      match parse f r with
      | some (c, r1) => two r1 fun t e => .cond c t (some e)
      | none => none
    | "call" :: n :: r =>
      match parse f r with
      | some (fe, r1) => (many n.toNat! r1).map fun (args, r2) => (.call fe args, r2)
      | none => none
    | "arr" :: n :: r => (many n.toNat! r).map fun (es, r1) => (.array es, r1)
    | "dict" :: n :: r => (many n.toNat! r).map fun (es, r1) => (.dict (bindDictBody es), r1)     -- config_parser.yy:1027-1033
    | "blk" :: n :: r => (many n.toNat! r).map fun (es, r1) => (.block es, r1)
    | "for" :: k :: v :: r => two r fun e b => .for k (if v == "-" then "" else v) e b
    | "fn" :: np :: r =>
      match takeN np.toNat! r with
      | some (ps, nu :: r1) =>
        match takeN nu.toNat! r1 with
        | some (us, r2) => one r2 fun b => .func ps us b
        | none => none
      | _ => none
    | "fndecl" :: name :: np :: r =>
      match takeN np.toNat! r with
      | some (ps, nu :: r1) =>
        match takeN nu.toNat! r1 with
        | some (us, r2) => one r2 fun b => .set (.index (.scope .this) (.str name)) .lit (.func ps us b)
        | none => none
      | _ => none
    | _ => none

/-! ### canonical text of a model value (mirrors `Canon` of harness/c15.cpp) -/

def canon (st : State Float) : Nat → Value Float → String
  | 0, _ => "~"
  | f + 1, v =>
    match v with
    | .empty => "null"
    | .num n => if n.isNaN then "#nan" else "#" ++ hexBits n.toBits.toNat
    | .bool b => if b then "true" else "false"
    | .str s => "s" ++ hex s
    | .arr a => "[" ++ ",".intercalate (((st.arr? a).getD []).map (canon st f)) ++ "]"
    | .dict a => "{" ++ ",".intercalate (((st.dict? a).getD []).map fun kv => "s" ++ hex kv.1 ++ ":" ++ canon st f kv.2) ++ "}"
    | .fn _ | .native _ => "fn"
    | .ns | .sysns => "ns"
    | .typ n => "t" ++ n

inductive Expect | exact (s : String) | skip (why : String)

def expect (r : Res Float) : Expect :=
  match r with
  | (.val _ v, st) => .exact ("v:" ++ canon st 13 v)
  -- error kinds other than the recursion error are not part of the protocol (the harness does not read message texts)
  | (.err (.script .stack _), _) => .exact "e:stack"
  | (.err (.script _ _), _) => .exact "e"
  | (.err .fuel, _) => .skip "fuel"
  | (.err (.unmodelled w), _) => .skip ("unmodelled:" ++ w)
  | (.err (.internal w), _) => .exact ("internal:" ++ w)
  | _ => .exact "internal:shape"

structure Stats where
  cases : Nat := 0
  programs : Nat := 0
  compared : Nat := 0
  hostile : Nat := 0
  skippedFuel : Nat := 0
  skippedUnmodelled : Nat := 0
  skippedTimeout : Nat := 0
  values : Nat := 0
  scriptErrors : Nat := 0
  stackErrors : Nat := 0
  crashes : Nat := 0
  hostileSyntax : Nat := 0
  hostileOk : Nat := 0
  mismatches : Nat := 0
  specfails : Nat := 0
  badlines : Nat := 0
  literals : Nat := 0
  litModelExact : Nat := 0
  litTolerated : Nat := 0
  litOutside : Nat := 0
  sameObserved : Nat := 0
  docObserved : Nat := 0
  docDiffer : Nat := 0
  maxDepthSeen : Nat := 0
  nontrivial : Nat := 0
  skipWhy : List (String × Nat) := []

def field (obs : String) (key : String) : String :=
  match (obs.splitOn " ").find? (·.startsWith (key ++ "=")) with
  | some w => (w.drop (key.length + 1)).toString
  | none => ""

def clip (s : String) : String := if s.length > 160 then (s.take 160).toString ++ "…" else s

def step (stt : Stats) (lineNo : Nat) (line : String) : IO Stats := do
  if line.isEmpty then return stt
  let stt := { stt with cases := stt.cases + 1 }
  match line.splitOn " | " with
  | [op, obs] =>
    let toks := (op.splitOn " ").filter (· != "")
    match toks with
    | "X" :: _id :: _ =>
      let stt := { stt with hostile := stt.hostile + 1,
                            crashes := stt.crashes + (if Spec.isCrash obs then 1 else 0),
                            hostileSyntax := stt.hostileSyntax + (if obs.startsWith "err:syntax" then 1 else 0),
                            hostileOk := stt.hostileOk + (if obs == "ok" then 1 else 0) }
      match Spec.checkHostile obs with
      | some cl =>
        IO.println s!"SPECFAIL case={stt.cases} line={lineNo} clause={cl} obs={obs}"
        return { stt with specfails := stt.specfails + 1 }
      | none => return stt
    | "P" :: id :: ast =>
      let stt := { stt with programs := stt.programs + 1 }
      let o : Spec.Obs := { min := field obs "min", full := field obs "full", again := field obs "again", same := field obs "same",
                             doc := field obs "doc" }
      let mut stt := stt
      if o.same != "" then stt := { stt with sameObserved := stt.sameObserved + 1 }
      if o.doc != "" then stt := { stt with docObserved := stt.docObserved + 1 }
      if field obs "docdiff" == "1" then stt := { stt with docDiffer := stt.docDiffer + 1 }
      -- every number/duration literal of the program as the REAL lexer evaluated it: `lits=<text>:<bits>,…`
      for tb in ((field obs "lits").splitOn ",").filter (fun w => w != "" && w != "-") do
        match tb.splitOn ":" with
        | [text, bits] =>
          let b := parseHexNat bits
          stt := { stt with literals := stt.literals + 1 }
          match Spec.checkLiteral text b with
          | some cl =>
            IO.println s!"SPECFAIL case={stt.cases} line={lineNo} id={id} clause={cl} literal={text} impl={bits} obs={clip obs}"
            return { stt with specfails := stt.specfails + 1 }
          | none =>
            match (litValue text : Option Float) with
            | some v => if v.toBits.toNat == b then stt := { stt with litModelExact := stt.litModelExact + 1 }
                        else stt := { stt with litTolerated := stt.litTolerated + 1 }
            | none => stt := { stt with litOutside := stt.litOutside + 1 }
        | _ =>
          IO.println s!"BADLINE line={lineNo} lits field"
          return { stt with badlines := stt.badlines + 1 }
      match Spec.checkProgram o with
      | some cl =>
        IO.println s!"SPECFAIL case={stt.cases} line={lineNo} id={id} clause={cl} obs={clip obs}"
        stt := { stt with specfails := stt.specfails + 1, crashes := stt.crashes + (if cl == "no_crash" then 1 else 0) }
      | none => pure ()
      -- the documented examples: `[ example, documented result ]` must be two equal values
      match Spec.checkDocExample id o.min with
      | some cl =>
        IO.println s!"SPECFAIL case={stt.cases} line={lineNo} id={id} clause={cl} obs={clip obs}"
        stt := { stt with specfails := stt.specfails + 1 }
      | none => pure ()
      match parse (ast.length + 1) ast with
      | some (.block prog, []) =>
        if Spec.isTimeout o.min then return { stt with skippedTimeout := stt.skippedTimeout + 1 }
        if Spec.isParserCapacity o.min || Spec.isParserCapacity o.full then
          return { stt with skippedTimeout := stt.skippedTimeout + 1 }
        let r := run 60000 prog
        stt := { stt with maxDepthSeen := max stt.maxDepthSeen r.2.maxDepth }
        match expect r with
        | .skip why =>
          match Spec.checkAgainstReference id o.min none r.2.maxDepth with
          | some cl =>
            IO.println s!"SPECFAIL case={stt.cases} line={lineNo} id={id} clause={cl} obs={clip obs}"
            stt := { stt with specfails := stt.specfails + 1 }
          | none => pure ()
          let bump := match stt.skipWhy.find? (·.1 == why) with
            | some _ => stt.skipWhy.map fun p => if p.1 == why then (p.1, p.2 + 1) else p
            | none => (why, 1) :: stt.skipWhy
          return if why == "fuel" then { stt with skippedFuel := stt.skippedFuel + 1, skipWhy := bump }
                 else { stt with skippedUnmodelled := stt.skippedUnmodelled + 1, skipWhy := bump }
        | .exact e =>
          -- clauses stated against the reference's answer for this program
          for impl in [o.min, o.full] do
            if !Spec.isCrash impl && !Spec.isTimeout impl then
              match Spec.checkAgainstReference id impl (some e) r.2.maxDepth with
              | some cl =>
                IO.println s!"SPECFAIL case={stt.cases} line={lineNo} id={id} clause={cl} model={clip e} obs={clip obs}"
                return { stt with specfails := stt.specfails + 1 }
              | none => pure ()
          stt := { stt with compared := stt.compared + 1,
                            values := stt.values + (if e.startsWith "v:" then 1 else 0),
                            scriptErrors := stt.scriptErrors + (if e.startsWith "e" then 1 else 0),
                            stackErrors := stt.stackErrors + (if e == "e:stack" then 1 else 0),
                            nontrivial := stt.nontrivial + (if ast.length > 6 then 1 else 0) }
          if Spec.isCrash o.min then return stt      -- already reported by the spec
          if e != o.min then
            IO.println s!"MISMATCH case={stt.cases} line={lineNo} id={id} what=min model={clip e} impl={clip o.min}"
            return { stt with mismatches := stt.mismatches + 1 }
          else if e != o.full && !Spec.isCrash o.full then
            IO.println s!"MISMATCH case={stt.cases} line={lineNo} id={id} what=full model={clip e} impl={clip o.full}"
            return { stt with mismatches := stt.mismatches + 1 }
          else return stt
      | _ =>
        IO.println s!"BADLINE line={lineNo} unparsable AST"
        return { stt with badlines := stt.badlines + 1 }
    | _ =>
      IO.println s!"BADLINE line={lineNo} {clip line}"
      return { stt with badlines := stt.badlines + 1 }
  | _ =>
    IO.println s!"BADLINE line={lineNo} {clip line}"
    return { stt with badlines := stt.badlines + 1 }

partial def loop (h : IO.FS.Stream) (stt : Stats) (lineNo : Nat) : IO Stats := do
  let line ← h.getLine
  if line.isEmpty then return stt
  let stt ← step stt lineNo (line.dropEndWhile (· == '\n')).toString
  loop h stt (lineNo + 1)

end C15Driver

def main : IO Unit := do
  let stdin ← IO.getStdin
  let s ← C15Driver.loop stdin {} 1
  for (w, n) in s.skipWhy do
    IO.println s!"SKIPPED n={n} why={w}"
  IO.println s!"STATS cases={s.cases} programs={s.programs} compared={s.compared} hostile={s.hostile} skipped_fuel={s.skippedFuel} skipped_unmodelled={s.skippedUnmodelled} skipped_timeout={s.skippedTimeout} values={s.values} script_errors={s.scriptErrors} stack_errors={s.stackErrors} crashes={s.crashes} hostile_syntax={s.hostileSyntax} hostile_ok={s.hostileOk} mismatches={s.mismatches} specfails={s.specfails} badlines={s.badlines} literals={s.literals} lit_model_exact={s.litModelExact} lit_tolerated={s.litTolerated} lit_outside={s.litOutside} same_observed={s.sameObserved} doc_observed={s.docObserved} doc_text_differs={s.docDiffer} max_depth={s.maxDepthSeen} nontrivial={s.nontrivial}"

/-
  vd_c07 — replays the harness's operation lines through the C07 model, compares the observations and
  evaluates the specification predicates on the implementation's own observations.

  Input lines (stdin), see harness/c07.cpp:
    C <obj|cfg> <tag>
    N <id> <h|s> <host|-1>
    D <id> <child> <parent> <group|-> <filter|u> <ignoreSoft|u> <period|-1> <disChecks|u> <disNotif|u>     (u = attribute not set)
    X <depid>
    S <node> <checked> <stateRaw> <stateType>
    T <period> <inside>
    L | <ok|cycle|other>
    A <id> <child> <parent> <group|-> <filter> <ignoreSoft> <period|-1> <disChecks> <disNotif> | <ok|cycle|other> <deps per node> reg=<k>
    R <depid> | <ok|other>
    G | <groups of node 0>;<groups of node 1>;…;reg=<k>
    E <reason>          (harness ended the case; accepted only after a refused runtime batch)
    E evaluation-timeout   (a Q did not come back within the harness's budget: clause evaluation_terminates)
    Q <closedbits|-> | <abc:deps:groups per node> reg=<k>
    V | <parents>/<children>/<reverse dependency ids> per node, ';'-separated
  Output lines:
    MISMATCH line=<n> case=<k> what=<query|load> impl=<…> model=<…>
    SPECFAIL line=<n> case=<k> clause=<name>
    BADLINE line=<n>
    STATS cases=… queries=… …
-/
import IcingaModel.Common.Proto
import IcingaModel.C07.Model
import IcingaModel.C07.Spec
import IcingaModel.C07.Registry
import IcingaModel.C07.History
import Std.Data.HashSet

open Icinga Icinga.C07 Icinga.Proto

structure DSt where
  cfgMode : Bool := false
  nodes : Array Node := #[]
  live : List (Nat × Dep) := []         -- ascending dependency id
  pending : List (Nat × Dep) := []      -- cfg mode: D lines since the last L
  rst : RState := {}                    -- the registry model, driven op by op
  closed : Array Bool := #[false, false, false, false]   -- pool periods closed now (T lines; all open at case start)
  hrev : List (Nat × (Nat × Dep)) := [] -- the history model's reverse-dependency container
  edgesCmp : Nat := 0
  periodCmp : Nat := 0
  regQueries : Nat := 0                 -- queries also answered through the registry model's group objects
  caseLoads : Nat := 0                  -- successful L lines in this case
  refusedLater : Bool := false          -- a runtime batch/addition was refused in this case
  skipRest : Bool := false              -- harness ended the case (E line); ignore up to the next C
  groupsCmp : Nat := 0
  reprAgree : Nat := 0                  -- representation-level observations (group objects, keys, registry size)
  reprDiffer : Nat := 0                 --   equal / different from the registry model: statistics, never an alarm
  rtAdds : Nat := 0
  rtRefused : Nat := 0
  rtDeletes : Nat := 0
  caseNo : Nat := 0
  caseFailed : Bool := false
  caseNontrivial : Bool := false
  caseHash : UInt64 := 7
  seen : Std.HashSet UInt64 := {}
  nontrivial : Nat := 0
  queries : Nat := 0
  evals : Nat := 0          -- IsReachable answers compared
  bits0 : Nat := 0
  bits1 : Nat := 0
  specQ : Nat := 0
  specSkipped : Nat := 0
  loadsOk : Nat := 0
  loadsCycle : Nat := 0
  adds : Nat := 0
  removes : Nat := 0
  sets : Nat := 0
  maxDepth : Nat := 0
  mismatches : Nat := 0
  specfails : Nat := 0

def insertSorted (x : Nat × Dep) : List (Nat × Dep) → List (Nat × Dep)
  | [] => [x]
  | y :: ys => if x.1 < y.1 then x :: y :: ys else y :: insertSorted x ys

def mkGraph (nodes : Array Node) (deps : List Dep) : Graph :=
  { node := fun i => match nodes[i]? with
      | some n => n
      | none => { isService := false, host := none, checked := false, stateRaw := 0, hard := true },
    deps := deps }

/-- the declared configuration of the running case, as the specification's `Cfg`. -/
def mkCfg (nodes : Array Node) (live : List (Nat × Dep)) (closed : Array Bool) : Cfg :=
  { node := (mkGraph nodes []).node, live := live, closed := fun p => closed[p]?.getD false }

def parseIdList (s : String) : Option (List Nat) :=
  if s == "-" then some [] else
  (s.splitOn ",").mapM (fun w => if w == "?" then some 1000000 else w.toNat?)

/-- one node of a `V` observation. -/
def parseEdges (s : String) : Option (List Nat × List Nat × List Nat) :=
  match s.splitOn "/" with
  | [a, b, c] => do
    let a ← parseIdList a
    let b ← parseIdList b
    let c ← parseIdList c
    pure (a, b, c)
  | _ => none

def showIds (l : List Nat) : String := if l.isEmpty then "-" else ",".intercalate (l.map toString)

def applyClosed (live : List (Nat × Dep)) (bits : List Char) : Option (List Dep) :=
  match live, bits with
  | [], [] => some []
  | (_, d) :: ls, b :: bs =>
    if b == '0' || b == '1' then
      (applyClosed ls bs).map (fun r => { d with periodClosed := b == '1' } :: r)
    else none
  | _, _ => none

def modelNodeObs (g : Graph) (v : Nat) : String :=
  let b := fun dt => if isReachable g dt v then "1" else "0"
  s!"{b .state}{b .checkExec}{b .notification}:{(depsOf g v).length}:{(groupKeys g v).length}"

def parseNodeObs (s : String) : Option (Bool × Bool × Bool × Nat × Nat) :=
  match s.splitOn ":" with
  | [bits, nd, ng] =>
    match bits.toList, nd.toNat?, ng.toNat? with
    | [a, b, c], some nd, some ng =>
      if [a, b, c].all (fun ch => ch == '0' || ch == '1') then some (a == '1', b == '1', c == '1', nd, ng) else none
    | _, _, _ => none
  | _ => none

def bump (d : DSt) (line : String) : DSt := { d with caseHash := mixHash d.caseHash (hash line) }

def markNontrivial (d : DSt) : DSt := { d with caseNontrivial := true }

/-- close the running case: count it as non-trivial if it was and its operation sequence is new. -/
def closeCase (d : DSt) : DSt :=
  if d.caseNontrivial && !d.seen.contains d.caseHash then
    { d with nontrivial := d.nontrivial + 1, seen := d.seen.insert d.caseHash, caseNontrivial := false }
  else { d with caseNontrivial := false }

/-- attribute token of a D / A line: `u` = not set in the configuration. -/
def optTok (p : String → Option α) (w : String) : Option (Option α) :=
  if w == "u" then some none else (p w).map some

def parseDep (ws : List String) (nodes : Array Node) : Option (Nat × Dep) :=
  let nn := nodes.size
  match ws with
  | [id, c, p, grp, flt, isf, per, dc, dn] => do
    let id ← parseNat? id
    let c ← parseNat? c
    let p ← parseNat? p
    let flt ← optTok parseNat? flt
    let isf ← optTok parseBool? isf
    let per ← parseInt? per
    let dc ← optTok parseBool? dc
    let dn ← optTok parseBool? dn
    if c ≥ nn || p ≥ nn then none
    else
      let decl : DepDecl := { child := c, parent := p, group := if grp == "-" then none else some grp, states := flt,
                              ignoreSoft := isf, period := if per < 0 then none else some per.toNat,
                              disableChecks := dc, disableNotifications := dn }
      -- what the configuration yields: unset attributes resolved as OnConfigLoaded / dependency.ti do
      pure (id, decl.resolve ((nodes[p]?.map (·.isService)).getD false))
  | _ => none

def ldep (x : Nat × Dep) : LDep := { id := x.1, d := x.2 }

def showCKey (ck : CKey) : String :=
  let per := match ck.2.1 with | none => "-1" | some p => toString p
  s!"{ck.1}.{per}.{ck.2.2.1}.{if ck.2.2.2 then 1 else 0}"

def sortStrings (l : List String) : List String := (l.toArray.qsort (· < ·)).toList
def sortNats (l : List Nat) : List Nat := (l.toArray.qsort (· < ·)).toList

/-- the `G` observation computed from the registry model. -/
def modelGroups (st : RState) (nn : Nat) : String :=
  let perNode := (List.range nn).map (fun v =>
    let gs := (st.cmap.filter (fun e => e.1.1 == v)).map (fun e =>
      let k := e.1.2
      let i := e.2
      let name := if i.1 == "" then "-" else i.1
      let keys := ",".intercalate ((i.2.foldr insertKey []).map showCKey)
      let own := ",".intercalate ((sortNats ((viewDeps st v k).map (·.id))).map toString)
      let total := (membersOf st.registry i).length
      s!"{name}/{keys}/{own}/{total}")
    if gs.isEmpty then "0" else "+".intercalate (sortStrings gs))
  ";".intercalate (perNode ++ [s!"reg={st.registry.length}"])

/-- merge `(name, ids)` pairs by name, ids sorted, empty classes dropped, sorted by name. -/
def canonClasses (pairs : List (String × List Nat)) : String :=
  let names := (pairs.map (·.1)).eraseDups
  let cls := names.filterMap (fun nm =>
    let ids := sortNats ((pairs.filter (·.1 == nm)).flatMap (·.2)).eraseDups
    if ids.isEmpty then none else some (nm ++ ":" ++ ",".intercalate (ids.map toString)))
  if cls.isEmpty then "0" else "+".intercalate (sortStrings cls)

/-- denotation of a `G` observation: representation details (which group objects exist, their keys,
    totals, the registry size) are dropped. -/
def denoteGroups (obs : String) : String :=
  let parts := (obs.splitOn ";").filter (fun p => !p.startsWith "reg=")
  ";".intercalate (parts.map (fun p =>
    if p == "0" || p == "x" then p else
    canonClasses ((p.splitOn "+").map (fun grp =>
      match grp.splitOn "/" with
      | [name, _, own, _] => (name, (own.splitOn ",").filterMap String.toNat?)
      | _ => ("?" ++ grp, [0])))))

/-- the same denotation computed from the live set alone (specification level). -/
def liveDenotation (live : List (Nat × Dep)) (nn : Nat) : String :=
  ";".intercalate ((List.range nn).map (fun v =>
    canonClasses ((live.filter (fun x => x.2.child == v)).map (fun x =>
      ((match x.2.group with | some g => g | none => "-"), [x.1])))))

def addAll (st : RState) (xs : List (Nat × Dep)) : RState := xs.foldl (fun s x => addDep s (ldep x)) st

def handle (d : DSt) (n : Nat) (line : String) : IO DSt := do
  if d.skipRest && !line.startsWith "C " then return d
  let ws := words line
  let bad : IO DSt := do IO.println s!"BADLINE line={n}"; return d
  match ws with
  | [] => return d
  | "C" :: mode :: _ =>
    let d := closeCase d
    if mode != "obj" && mode != "cfg" then bad else
    return { d with cfgMode := mode == "cfg", nodes := #[], live := [], pending := [], caseNo := d.caseNo + 1,
                    caseFailed := false, caseNontrivial := false, caseHash := hash mode, rst := {}, caseLoads := 0,
                    refusedLater := false, skipRest := false, closed := #[false, false, false, false], hrev := [] }
  | ["N", id, kind, host] =>
    match parseNat? id, parseInt? host with
    | some id, some host =>
      if id != d.nodes.size then bad
      else if kind == "h" && host == -1 then
        return bump { d with nodes := d.nodes.push { isService := false, host := none, checked := false, stateRaw := 0, hard := true } } line
      else if kind == "s" && host ≥ 0 then
        match d.nodes[host.toNat]? with
        | some hn =>
          if hn.isService then bad else
          return bump { d with nodes := d.nodes.push { isService := true, host := some host.toNat, checked := false, stateRaw := 0, hard := true } } line
        | none => bad
      else bad
    | _, _ => bad
  | "D" :: rest =>
    match parseDep rest d.nodes with
    | some (id, dep) =>
      if (d.live ++ d.pending).any (fun x => x.1 == id) then bad
      else if d.cfgMode then return bump { d with pending := insertSorted (id, dep) d.pending } line
      else return bump { d with live := insertSorted (id, dep) d.live, adds := d.adds + 1,
                                rst := addDep d.rst (ldep (id, dep)), hrev := d.hrev ++ [(dep.parent, (id, dep))] } line
    | none => bad
  | ["X", id] =>
    match parseNat? id with
    | some id =>
      match d.live.find? (fun x => x.1 == id) with
      | some x =>
        return bump { d with live := d.live.filter (fun x => x.1 != id), removes := d.removes + 1,
                             rst := removeDep d.rst (ldep x), hrev := d.hrev.filter (fun e => e.2.1 != id) } line
      | none => if d.refusedLater then return { d with skipRest := true } else bad
    | none => bad
  | ["S", v, chk, raw, ty] =>
    match parseNat? v, parseBool? chk, parseNat? raw, parseBool? ty with
    | some v, some chk, some raw, some ty =>
      match d.nodes[v]? with
      | some nd =>
        if raw > 3 then bad else
        return bump { d with nodes := d.nodes.set! v { nd with checked := chk, stateRaw := raw, hard := ty }, sets := d.sets + 1 } line
      | none => bad
    | _, _, _, _ => bad
  | ["T", p, inside] =>
    match parseNat? p, parseBool? inside with
    | some p, some inside =>
      if p ≥ d.closed.size then bad else
      return bump { d with closed := d.closed.set! p (!inside) } line
    | _, _ => bad
  | "L" :: rest =>
    let (_, post) := splitBar rest
    match post with
    | [io] =>
      let nn := d.nodes.size
      let g := mkGraph d.nodes (d.live.map (·.2))
      let new := d.pending.map (·.2)
      let mo := match cycleCheck g new nn with
        | .ok _ => "ok" | .cycle => "cycle" | .fuelOut => "fuelout"
      let mut d := bump d (line.takeWhile (· != '|')).toString
      if mo != io then
        IO.println s!"MISMATCH line={n} case={d.caseNo} what=load impl={io} model={mo}"
        d := { d with mismatches := d.mismatches + 1 }
      -- the property on the implementation's answer
      let gAll := mkGraph d.nodes (d.live.map (·.2) ++ new)
      match specLoad nn gAll (io == "ok") with
      | some cl =>
        if !d.caseFailed then IO.println s!"SPECFAIL line={n} case={d.caseNo} clause={cl.name}"
        -- the implementation now holds a cyclic graph: nothing the property says applies to the rest of the case (and
        -- the model's own recursion would fan out below its 256-level guard exactly like the code's)
        return markNontrivial { d with specfails := d.specfails + 1, caseFailed := true, skipRest := true, pending := [] }
      | none => pure ()
      if io == "ok" then
        -- first load: pending path (PushDependencyGroupsToRegistry); later batches: runtime AddDependency
        let rst' := if d.caseLoads == 0 then
            pushAll (d.pending.map ldep) d.rst ((d.pending.map (fun x => (x.2.child, x.2.key))).eraseDups)
          else addAll d.rst d.pending
        return { d with live := d.pending.foldl (fun acc x => insertSorted x acc) d.live, pending := [],
                        hrev := d.hrev ++ d.pending.map (fun x => (x.2.parent, x)),
                        loadsOk := d.loadsOk + 1, adds := d.adds + (if d.caseLoads > 0 then new.length else 0),
                        rst := rst', caseLoads := d.caseLoads + 1 }
      else
        return markNontrivial { d with pending := [], loadsCycle := d.loadsCycle + (if io == "cycle" then 1 else 0),
                                       refusedLater := d.caseLoads > 0, skipRest := d.caseLoads == 0 }
    | _ => bad
  | "E" :: rest =>
    if rest == ["evaluation-timeout"] then
      -- the harness gave up waiting for IsReachable: "so evaluation always terminates" is violated on this input
      let mut d := d
      match specObs d.nodes.size (mkCfg d.nodes d.live d.closed) .hung with
      | some cl =>
        if !d.caseFailed then IO.println s!"SPECFAIL line={n} case={d.caseNo} clause={cl.name}"
        d := { d with specfails := d.specfails + 1, caseFailed := true }
      | none => pure ()
      return markNontrivial { d with skipRest := true }
    else if d.refusedLater then return { d with skipRest := true } else bad
  | "A" :: rest =>
    let (pre, post) := splitBar rest
    match parseDep pre d.nodes, post with
    | some (id, dep), io :: obs =>
      if (d.live ++ d.pending).any (fun x => x.1 == id) || d.caseLoads == 0 || !d.pending.isEmpty then bad else
      let nn := d.nodes.size
      let g := mkGraph d.nodes (d.live.map (·.2))
      let (g', acc) := runtimeAdd g [dep] nn
      let mo := if acc then "ok" else match cycleCheck g [dep] nn with | .fuelOut => "fuelout" | _ => "cycle"
      let mut d := bump d (line.takeWhile (· != '|')).toString
      d := { d with rtAdds := d.rtAdds + 1 }
      let rst' := if acc then addDep d.rst (ldep (id, dep)) else d.rst
      let mcounts := (List.range nn).map (fun v => toString (depsOf g' v).length)
      if obs.filter (fun w => w.startsWith "reg=") == [s!"reg={rst'.registry.length}"] then
        d := { d with reprAgree := d.reprAgree + 1 }
      else
        d := { d with reprDiffer := d.reprDiffer + 1 }
      let mline := " ".intercalate (mo :: mcounts)
      let iline := " ".intercalate (io :: obs.filter (fun w => !w.startsWith "reg="))
      if mline != iline then
        IO.println s!"MISMATCH line={n} case={d.caseNo} what=runtime-add impl={iline.replace " " ","} model={mline.replace " " ","}"
        d := { d with mismatches := d.mismatches + 1 }
      let counts := (obs.filter (fun w => !w.startsWith "reg=")).map String.toNat?
      if counts.any Option.isNone || counts.length != nn then
        IO.println s!"BADLINE line={n}"; return d
      let carr := (counts.filterMap (fun o => o)).toArray
      match specObs nn (mkCfg d.nodes d.live d.closed) (.load [(id, dep)] (io == "ok") (fun v => carr[v]?.getD 0)) with
      | some cl =>
        if !d.caseFailed then IO.println s!"SPECFAIL line={n} case={d.caseNo} clause={cl.name}"
        d := { d with specfails := d.specfails + 1, caseFailed := true }
        if cl == .cycleRejected then return markNontrivial { d with skipRest := true }
      | none => pure ()
      if io == "ok" then
        -- follow the implementation
        return { d with live := insertSorted (id, dep) d.live, rst := addDep d.rst (ldep (id, dep)), adds := d.adds + 1,
                        hrev := d.hrev ++ [(dep.parent, (id, dep))] }
      else
        return markNontrivial { d with refusedLater := true, rtRefused := d.rtRefused + 1 }
    | _, _ => bad
  | "R" :: rest =>
    let (pre, post) := splitBar rest
    match pre, post with
    | [id], [io] =>
      match parseNat? id with
      | some id =>
        match d.live.find? (fun x => x.1 == id) with
        | some x =>
          let mut d := bump d (line.takeWhile (· != '|')).toString
          if io != "ok" then
            IO.println s!"MISMATCH line={n} case={d.caseNo} what=runtime-delete impl={io} model=ok"
            return { d with mismatches := d.mismatches + 1 }
          return { d with live := d.live.filter (fun y => y.1 != id), removes := d.removes + 1,
                          rtDeletes := d.rtDeletes + 1, rst := removeDep d.rst (ldep x),
                          hrev := d.hrev.filter (fun e => e.2.1 != id) }
        | none => bad
      | none => bad
    | _, _ => bad
  | "G" :: rest =>
    let (_, post) := splitBar rest
    match post with
    | [io] =>
      let mo := modelGroups d.rst d.nodes.size
      let mut d := { d with groupsCmp := d.groupsCmp + 1 }
      if mo == io then d := { d with reprAgree := d.reprAgree + 1 } else d := { d with reprDiffer := d.reprDiffer + 1 }
      -- compared: the denotation the property names — per checkable, its live dependencies grouped by
      -- redundancy group (all dependencies outside redundancy groups form one class)
      let iden := denoteGroups io
      let mden := denoteGroups mo
      if mden != iden then
        IO.println s!"MISMATCH line={n} case={d.caseNo} what=groups impl={iden} model={mden}"
        d := { d with mismatches := d.mismatches + 1 }
      let sden := liveDenotation d.live d.nodes.size
      if sden != iden then
        if !d.caseFailed then IO.println s!"SPECFAIL line={n} case={d.caseNo} clause={Clause.liveSet.name}"
        d := { d with specfails := d.specfails + 1, caseFailed := true }
      return d
    | _ => bad
  | "V" :: rest =>
    let (_, post) := splitBar rest
    match post with
    | [io] =>
      let nn := d.nodes.size
      let parts := io.splitOn ";"
      let parsed := parts.map parseEdges
      if parsed.any Option.isNone || parts.length != nn then bad else
      let arr := (parsed.filterMap id).toArray
      let cfg := mkCfg d.nodes d.live d.closed
      let hs : HState := { cfg := cfg, rev := d.hrev }
      let mut d := bump { d with edgesCmp := d.edgesCmp + 1 } "V"
      let mo := ";".intercalate ((List.range nn).map (fun v => s!"{showIds (hs.parents v)}/{showIds (hs.children v)}/{showIds (hs.reverse v)}"))
      if mo != io then
        IO.println s!"MISMATCH line={n} case={d.caseNo} what=edges impl={io} model={mo}"
        d := { d with mismatches := d.mismatches + 1 }
      let get := fun (v : Nat) => arr[v]?.getD ([], [], [])
      -- GetParents() the way the code computes it: from the key sets of the registry model's group objects
      -- (`parents_via_registry` proves this equal to the parents of the live dependencies)
      let rpar := (List.range nn).map (fun v => sortedSet (parentsR d.rst v))
      if rpar != (List.range nn).map (fun v => (get v).1) then
        IO.println s!"MISMATCH line={n} case={d.caseNo} what=parents-registry impl={io} model={";".intercalate (rpar.map showIds)}"
        d := { d with mismatches := d.mismatches + 1 }
      match specObs nn cfg (.edges (fun v => (get v).1) (fun v => (get v).2.1) (fun v => (get v).2.2)) with
      | some cl =>
        if !d.caseFailed then IO.println s!"SPECFAIL line={n} case={d.caseNo} clause={cl.name}"
        d := { d with specfails := d.specfails + 1, caseFailed := true }
      | none => pure ()
      return d
    | _ => bad
  | "Q" :: rest =>
    let (pre, post) := splitBar rest
    match pre with
    | [bits] =>
      let bitsL := if bits == "-" then [] else bits.toList
      match applyClosed d.live bitsL with
      | none => bad
      | some _ =>
        let nn := d.nodes.size
        -- the closed periods follow from the D/T lines; the bits the harness read from the Dependency objects
        -- (`GetPeriod()` + `IsInside`) are compared with them, not trusted
        let cfg := mkCfg d.nodes d.live d.closed
        let g := cfg.graph
        let deps := g.deps
        let derived := deps.map (fun x => if x.periodClosed then '1' else '0')
        -- implementation's observation
        let regTok := post.filter (fun w => w.startsWith "reg=")
        let nodeToks := post.filter (fun w => !w.startsWith "reg=")
        let parsed := nodeToks.map parseNodeObs
        if parsed.any Option.isNone || nodeToks.length != nn || regTok.length != 1 then bad else
        let obsArr : Array (Bool × Bool × Bool × Nat × Nat) := (parsed.filterMap id).toArray
        let mut d := bump d (String.ofList derived ++ "Q")
        d := { d with queries := d.queries + 1, evals := d.evals + 3 * nn, periodCmp := d.periodCmp + deps.length }
        if derived != bitsL then
          IO.println s!"MISMATCH line={n} case={d.caseNo} what=period impl={bits} model={String.ofList derived}"
          d := { d with mismatches := d.mismatches + 1 }
        -- model
        -- compared: reachability bits and the number of live dependencies per checkable (what the property
        -- names).  The number of group objects and the registry size are representation: statistics only.
        let stripGroups := fun (t : String) => ":".intercalate ((t.splitOn ":").take 2)
        let mtoksFull := (List.range nn).map (modelNodeObs g)
        let mregN := registrySize g (List.range nn)
        let mreg := if mregN == d.rst.registry.length then s!"reg={mregN}" else s!"reg={mregN}|{d.rst.registry.length}"
        if " ".intercalate (mtoksFull ++ [mreg]) == " ".intercalate (nodeToks ++ regTok) then
          d := { d with reprAgree := d.reprAgree + 1 }
        else
          d := { d with reprDiffer := d.reprDiffer + 1 }
        let mline := " ".intercalate (mtoksFull.map stripGroups)
        let iline := " ".intercalate (nodeToks.map stripGroups)
        if mline != iline then
          IO.println s!"MISMATCH line={n} case={d.caseNo} what=query impl={iline.replace " " ","} model={mline.replace " " ","}"
          d := { d with mismatches := d.mismatches + 1 }
        -- the same question answered the way the code walks it: over the registry model's group objects (kept in step
        -- with every D/X/L/A/R line); `reachable_via_registry` proves this equal to the answer on the live set
        let rbits := fun (v : Nat) =>
          String.join (Aspect.all.map (fun dt => if isReachableR d.rst cfg.node cfg.eff dt v then "1" else "0"))
        let rline := " ".intercalate ((List.range nn).map rbits)
        let ibits := " ".intercalate (nodeToks.map (fun t => (t.splitOn ":").headD ""))
        d := { d with regQueries := d.regQueries + 1 }
        if rline != ibits then
          IO.println s!"MISMATCH line={n} case={d.caseNo} what=query-registry impl={ibits.replace " " ","} model={rline.replace " " ","}"
          d := { d with mismatches := d.mismatches + 1 }
        -- histogram
        let zeros := obsArr.foldl (fun acc o => acc + (if o.1 then 0 else 1) + (if o.2.1 then 0 else 1) + (if o.2.2.1 then 0 else 1)) 0
        d := { d with bits0 := d.bits0 + zeros, bits1 := d.bits1 + (3 * nn - zeros) }
        if zeros > 0 then d := markNontrivial d
        -- the property on the implementation's observation, when the live graph is acyclic and ≤ 256 deep
        if queryInScope nn g then
          let depth := (rankArr nn g).foldl max 0
          if depth > d.maxDepth then d := { d with maxDepth := depth }
          let obs : Aspect → Nat → Bool := fun dt v =>
            match obsArr[v]? with
            | some o => (match dt with | .state => o.1 | .checkExec => o.2.1 | .notification => o.2.2.1)
            | none => false
          let nd : Nat → Nat := fun v => match obsArr[v]? with | some o => o.2.2.2.1 | none => 0
          d := { d with specQ := d.specQ + 1 }
          match specObs nn cfg (.query obs nd) with
          | some cl =>
            if !d.caseFailed then IO.println s!"SPECFAIL line={n} case={d.caseNo} clause={cl.name}"
            d := { d with specfails := d.specfails + 1, caseFailed := true }
          | none => pure ()
        else
          d := { d with specSkipped := d.specSkipped + 1 }
        return d
    | _ => bad
  | _ => bad

def main : IO Unit := do
  let stdin ← IO.getStdin
  let d ← foldLines stdin handle ({} : DSt)
  let d := closeCase d
  IO.println s!"STATS cases={d.caseNo} queries={d.queries} evaluations={d.evals} unreachable_bits={d.bits0} reachable_bits={d.bits1} spec_queries={d.specQ} spec_skipped={d.specSkipped} loads_ok={d.loadsOk} loads_cycle={d.loadsCycle} adds={d.adds} removes={d.removes} state_sets={d.sets} max_depth={d.maxDepth} groups_compared={d.groupsCmp} edges_compared={d.edgesCmp} period_bits_compared={d.periodCmp} registry_queries={d.regQueries} repr_agree={d.reprAgree} repr_differ={d.reprDiffer} runtime_adds={d.rtAdds} runtime_refused={d.rtRefused} runtime_deletes={d.rtDeletes} nontrivial={d.nontrivial} mismatches={d.mismatches} specfails={d.specfails}"

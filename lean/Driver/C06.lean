/-
  vd_c06 — replays the harness's operation lines through the C06 model, compares the observations and
  evaluates the specification predicate on the implementation's own trace.

  Input lines (stdin):
    C <kind h|s> <max> <volatile 0|1>                                   start of a case (fresh, never-checked object)
    R <state> <execStart> <execEnd> <now> | <obs>
    A <via h|a|e|x|c> <sticky> <notify> <persistent> <expiry> <now> | <obs>      (h = HTTP request, modelled as a)
    A <via f|y> <sticky 0..3> <notify 0..2> <persistent 0..2> <expiry> <now> | <obs>   (external commands, literal arguments)
    X <via h|a|e|c> <now> | <obs>
    T <now> [<reader>] | <obs>                                           (<reader>: which getter looks first; the model
                                                                          and the specification do not depend on it)
    P <now> <fired> | <obs>                                              timer pump; <fired> is an oracle input
    D <on> <now> | <obs>                                                 downtime in effect added / removed
    U <on> <now> | <obs>                                                 object paused (SetAuthority(false)) / resumed
    N <now> | <obs>                                                      NotificationTimerHandler with the reminder due
    F <now> | <obs>                                                      Checkable::FireSuppressedNotifications()
    <obs> = <acc> <ack> <expiry> <handled> <problem> <state> <stype> <attempt> <nSet> <nClr> <nAckN> <nProbN> <comments>
            <raw> <sevAck> <suppProblem> <suppRecovery> <nRecN> <nReminders>
    <comments> = `-` or `entry:persistent:expire,...` (sorted)
  Output lines:
    MISMATCH line=<n> case=<k> impl=<...> model=<...>
    SPECFAIL line=<n> case=<k> clause=<name>
    BADLINE line=<n>
    STATS k=v ...
-/
import Std.Data.HashSet
import IcingaModel.Common.Proto
import IcingaModel.C06.Model
import IcingaModel.C06.Spec

open Icinga Icinga.C06 Icinga.Proto
open Icinga.C01 (Cfg Kind SState SType stateChange)

structure DSt where
  cfg : Cfg := { kind := .service, max := 1, volatile := false }
  st : MSt := init
  sp : SpecSt := specInit
  caseNo : Nat := 0
  steps : Nat := 0
  results : Nat := 0
  dropped : Nat := 0
  stateChanges : Nat := 0
  acks : Nat := 0
  ackAccepted : Nat := 0
  refusedPre : Nat := 0        -- refused for OK/Up or a bad expiry
  refusedAcked : Nat := 0      -- refused because already acknowledged
  ackGone : Nat := 0           -- accepted with an expiry already in the past (cluster): set and cleared at once
  removes : Nat := 0
  advances : Nat := 0
  pumps : Nat := 0
  pumpsFired : Nat := 0
  cmtExpired : Nat := 0        -- comments removed by the comment-expiry timer
  downtimeOps : Nat := 0
  pauseOps : Nat := 0
  pausedAcks : Nat := 0        -- acknowledgements accepted with notify on a paused object (no notification)
  rawLagged : Nat := 0         -- looks at which the raw attribute was still set and the first reader found it expired
  stashed : Nat := 0           -- results whose state notification went into the stash
  stashedWhileAcked : Nat := 0
  recoveryNotifs : Nat := 0
  reminds : Nat := 0
  reminders : Nat := 0         -- reminders attempted
  remindersWithheldAck : Nat := 0  -- due reminders of a hard problem withheld only because of the acknowledgement
  fires : Nat := 0             -- runs of the suppressed-notification handler
  firesPending : Nat := 0      -- … with something in the stash
  firesKeptAck : Nat := 0      -- … that kept the stash only because of the acknowledgement
  firesReleased : Nat := 0     -- … that emptied the stash
  firesNotified : Nat := 0     -- … and requested the owed notification
  firesAfterExpiry : Nat := 0  -- … after noticing themselves that the acknowledgement had run out
  readerFirst : Nat := 0       -- T lines on which a reader other than GetHandled looked first
  handledDowntimeOnly : Nat := 0   -- looks at which the object is handled without being acknowledged
  httpOps : Nat := 0           -- acknowledge / remove operations that went through HttpHandler::ProcessRequest
  setEvents : Nat := 0
  clearedEvents : Nat := 0
  clrExpiry : Nat := 0         -- lazy expiry
  clrNormal : Nat := 0         -- normal acknowledgement, state change
  clrSticky : Nat := 0         -- sticky acknowledgement, recovery
  stickyKept : Nat := 0        -- sticky acknowledgement survived a state change
  clrRemove : Nat := 0
  ackNotifs : Nat := 0
  problemNotifs : Nat := 0
  handledLooks : Nat := 0
  cmtRemoved : Nat := 0        -- comments removed by a result
  cmtKeptLater : Nat := 0      -- non-persistent comments that survived a clearing result (entered later)
  cmtKeptPersistent : Nat := 0
  caseFailed : Bool := false
  caseSet : Bool := false
  caseHash : UInt64 := 7
  caseCounted : Bool := false
  seen : Std.HashSet UInt64 := {}
  nontrivial : Nat := 0
  mismatches : Nat := 0
  specfails : Nat := 0

def showCmts (l : List Cmt) : String :=
  if l.isEmpty then "-" else ",".intercalate (l.map fun c => s!"{c.entry}:{showBool c.persistent}:{c.expire}")

def showObs (o : Obs) : String :=
  s!"{showBool o.acc},{o.ack.toNat},{o.expiry},{showBool o.handled},{showBool o.problem},{o.state.toNat},{o.stype.toNat},{o.attempt},{o.nSet},{o.nClr},{o.nAckN},{o.nProbN},{showCmts o.comments},{o.raw.toNat},{showBool o.sevAck},{showBool o.suppP},{showBool o.suppR},{o.nRecN},{o.nRem}"

def parseCmt (s : String) : Option Cmt :=
  match s.splitOn ":" with
  | [e, p, x] => do
    let e ← parseInt? e
    let p ← parseBool? p
    let x ← parseInt? x
    pure { entry := e, persistent := p, expire := x }
  | _ => none

def parseCmts (s : String) : Option (List Cmt) :=
  if s == "-" then some [] else (s.splitOn ",").mapM parseCmt

def parseObs (ws : List String) : Option Obs :=
  match ws with
  | [acc, ack, ex, h, p, st, ty, at_, ns, nc, na, np, cm, raw, sev, sp_, sr, nr, nm] => do
    let acc ← parseBool? acc
    let ack ← (parseNat? ack) >>= Ack.ofNat?
    let ex ← parseInt? ex
    let h ← parseBool? h
    let p ← parseBool? p
    let st ← (parseNat? st) >>= SState.ofNat?
    let ty ← (parseNat? ty) >>= SType.ofNat?
    let at_ ← parseNat? at_
    let ns ← parseNat? ns
    let nc ← parseNat? nc
    let na ← parseNat? na
    let np ← parseNat? np
    let cm ← parseCmts cm
    let raw ← (parseNat? raw) >>= Ack.ofNat?
    let sev ← parseBool? sev
    let sp_ ← parseBool? sp_
    let sr ← parseBool? sr
    let nr ← parseNat? nr
    let nm ← parseNat? nm
    pure { acc := acc, ack := ack, expiry := ex, handled := h, problem := p, state := st, stype := ty, attempt := at_,
           nSet := ns, nClr := nc, nAckN := na, nProbN := np, comments := cm,
           raw := raw, sevAck := sev, suppP := sp_, suppR := sr, nRecN := nr, nRem := nm }
  | _ => none

def parseVia (s : String) : Option Via :=
  match s with
  | "a" => some .api | "h" => some .api | "e" => some .ext | "x" => some .extExpire | "c" => some .cluster | _ => none

def parseRVia (s : String) : Option RVia :=
  match s with
  | "a" => some .api | "h" => some .api | "e" => some .ext | "c" => some .cluster | _ => none

def parseOp (ws : List String) : Option Op :=
  match ws with
  | ["R", st, es, ee, nw] => do
    let st ← (parseNat? st) >>= SState.ofNat?
    pure (.result st (← parseInt? es) (← parseInt? ee) (← parseInt? nw))
  | ["A", "f", sticky, notify, pers, ex, nw] => do
    -- the external command's literal arguments: sticky iff 2, notify / persistent iff > 0
    pure (.ack .ext ((← parseNat? sticky) == 2) ((← parseNat? notify) != 0) ((← parseNat? pers) != 0) (← parseInt? ex) (← parseInt? nw))
  | ["A", "y", sticky, notify, pers, ex, nw] => do
    pure (.ack .extExpire ((← parseNat? sticky) == 2) ((← parseNat? notify) != 0) ((← parseNat? pers) != 0) (← parseInt? ex) (← parseInt? nw))
  | ["A", via, sticky, notify, pers, ex, nw] => do
    pure (.ack (← parseVia via) (← parseBool? sticky) (← parseBool? notify) (← parseBool? pers) (← parseInt? ex) (← parseInt? nw))
  | ["X", via, nw] => do pure (.remove (← parseRVia via) (← parseInt? nw))
  | ["T", nw] => do pure (.advance (← parseInt? nw))
  | ["T", nw, rd] => do
    let _ ← parseNat? rd
    pure (.advance (← parseInt? nw))
  | ["P", nw, f] => do pure (.pump (← parseInt? nw) (← parseBool? f))
  | ["D", on, nw] => do pure (.downtime (← parseBool? on) (← parseInt? nw))
  | ["U", on, nw] => do pure (.pause (← parseBool? on) (← parseInt? nw))
  | ["N", nw] => do pure (.remind (← parseInt? nw))
  | ["F", nw] => do pure (.fire (← parseInt? nw))
  | _ => none

def bump (d : DSt) (op : Op) (io : Obs) : DSt := Id.run do
  let mut d := { d with steps := d.steps + 1, setEvents := d.setEvents + io.nSet, clearedEvents := d.clearedEvents + io.nClr,
                        ackNotifs := d.ackNotifs + io.nAckN, problemNotifs := d.problemNotifs + io.nProbN }
  if io.handled then d := { d with handledLooks := d.handledLooks + 1 }
  if io.raw != .none && io.ack == .none then d := { d with rawLagged := d.rawLagged + 1 }
  d := { d with recoveryNotifs := d.recoveryNotifs + io.nRecN }
  if (io.suppP && !d.sp.suppP) || (io.suppR && !d.sp.suppR) then
    d := { d with stashed := d.stashed + 1 }
    if io.ack != .none then d := { d with stashedWhileAcked := d.stashedWhileAcked + 1 }
  let wasExpired := expired d.st op.now
  if wasExpired then d := { d with clrExpiry := d.clrExpiry + 1 }
  match op with
  | .result new _ ee _ =>
    d := { d with results := d.results + 1 }
    if !io.acc then d := { d with dropped := d.dropped + 1 }
    else
      if stateChange d.cfg.kind d.st.base.state new then
        d := { d with stateChanges := d.stateChanges + 1 }
        if !wasExpired then
          if d.st.ack == .normal then d := { d with clrNormal := d.clrNormal + 1 }
          if d.st.ack == .sticky && io.ack == .none then d := { d with clrSticky := d.clrSticky + 1 }
          if d.st.ack == .sticky && io.ack == .sticky then d := { d with stickyKept := d.stickyKept + 1 }
      if io.ack == .none then
        let before := d.sp.comments
        d := { d with cmtRemoved := d.cmtRemoved + (before.length - io.comments.length),
                      cmtKeptLater := d.cmtKeptLater + (before.filter fun c => !c.persistent && decide (c.entry > ee)).length,
                      cmtKeptPersistent := d.cmtKeptPersistent + (before.filter (·.persistent)).length }
  | .ack via _ notify _ ex nw =>
    d := { d with acks := d.acks + 1 }
    if io.acc then
      d := { d with ackAccepted := d.ackAccepted + 1, caseSet := true }
      if notify && d.sp.paused then d := { d with pausedAcks := d.pausedAcks + 1 }
      if io.ack == .none then d := { d with ackGone := d.ackGone + 1 }
    else if preRefuse d.cfg d.st via ex nw then d := { d with refusedPre := d.refusedPre + 1 }
    else d := { d with refusedAcked := d.refusedAcked + 1 }
  | .remove _ _ =>
    d := { d with removes := d.removes + 1 }
    if d.st.ack != .none && !wasExpired then d := { d with clrRemove := d.clrRemove + 1 }
  | .advance _ => d := { d with advances := d.advances + 1 }
  | .pump _ fired =>
    d := { d with pumps := d.pumps + 1 }
    if fired then
      d := { d with pumpsFired := d.pumpsFired + 1, cmtExpired := d.cmtExpired + (d.sp.comments.length - io.comments.length) }
  | .downtime _ _ => d := { d with downtimeOps := d.downtimeOps + 1 }
  | .pause _ _ => d := { d with pauseOps := d.pauseOps + 1 }
  | .remind _ =>
    d := { d with reminds := d.reminds + 1, reminders := d.reminders + io.nRem }
    if remindable d.cfg d.st && io.ack != .none then d := { d with remindersWithheldAck := d.remindersWithheldAck + 1 }
  | .fire _ =>
    d := { d with fires := d.fires + 1 }
    if d.sp.suppP || d.sp.suppR then
      d := { d with firesPending := d.firesPending + 1 }
      if !io.suppP && !io.suppR then
        d := { d with firesReleased := d.firesReleased + 1 }
        if io.nProbN + io.nRecN > 0 then d := { d with firesNotified := d.firesNotified + 1 }
        if wasExpired then d := { d with firesAfterExpiry := d.firesAfterExpiry + 1 }
      else if io.ack != .none && !d.sp.inDt && !d.sp.paused && d.sp.stype == .hard then
        d := { d with firesKeptAck := d.firesKeptAck + 1 }
  if io.handled && io.ack == .none then d := { d with handledDowntimeOnly := d.handledDowntimeOnly + 1 }
  -- a case is non-trivial once an acknowledgement was set and later cleared; distinct by hash of its operations
  if d.caseSet && io.nClr > 0 && !d.caseCounted then
    d := { d with caseCounted := true }
  return d

def closeCase (d : DSt) : DSt :=
  if d.caseCounted && !d.seen.contains d.caseHash then
    { d with seen := d.seen.insert d.caseHash, nontrivial := d.nontrivial + 1, caseCounted := false }
  else { d with caseCounted := false }

def handle (d : DSt) (n : Nat) (line : String) : IO DSt := do
  let ws := words line
  match ws with
  | [] => return d
  | "C" :: k :: mx :: vol :: _ =>
    match (if k == "h" then some Kind.host else if k == "s" then some Kind.service else none),
          parseNat? mx, parseBool? vol with
    | some k, some mx, some vol =>
      let d := closeCase d
      return { d with cfg := { kind := k, max := mx, volatile := vol }, st := init, sp := specInit,
                      caseNo := d.caseNo + 1, caseFailed := false, caseSet := false,
                      caseHash := mixHash 7 (hash line) }
    | _, _, _ => IO.println s!"BADLINE line={n}"; return d
  | _ =>
    let (pre, post) := splitBar ws
    match parseOp pre, parseObs post with
    | some op, some io =>
      let p := step d.cfg d.st op
      let mo := obsOf d.cfg p
      -- whether the expiry is evaluated already inside an operation or only by the first reader afterwards is not the
      -- property's business: a raw attribute that is either still what it was or already what the readers see is taken
      -- as the model's (the specification states what the raw attribute may be)
      let mo := if io.raw == io.ack || io.raw == d.sp.ack then { mo with raw := io.raw } else mo
      let mut d := { d with caseHash := mixHash d.caseHash (hash (" ".intercalate pre)) }
      if (pre.head? == some "A" || pre.head? == some "X") && (pre.drop 1).head? == some "h" then
        d := { d with httpOps := d.httpOps + 1 }
      if pre.head? == some "T" && pre.length == 3 && (pre.drop 2).head? != some "0" then
        d := { d with readerFirst := d.readerFirst + 1 }
      d := bump d op io
      if mo != io then
        IO.println s!"MISMATCH line={n} case={d.caseNo} impl={showObs io} model={showObs mo}"
        d := { d with mismatches := d.mismatches + 1 }
      -- the specification on the implementation's own observation
      match specStep d.cfg d.sp op io with
      | some cl =>
        if !d.caseFailed then
          IO.println s!"SPECFAIL line={n} case={d.caseNo} clause={cl.name}"
        d := { d with specfails := d.specfails + 1, caseFailed := true }
      | none => pure ()
      d := { d with sp := specNext d.sp op io }
      -- follow the model; on a mismatch resynchronise on the implementation so that one divergence is reported once
      let st' : MSt := if mo != io then
          { p.1 with base := { p.1.base with state := io.state, stype := io.stype, attempt := io.attempt },
                     ack := io.ack, expiry := io.expiry, comments := io.comments,
                     suppProblem := io.suppP, suppRecovery := io.suppR }
        else p.1
      return { d with st := st' }
    | _, _ => IO.println s!"BADLINE line={n}"; return d

def main : IO Unit := do
  let stdin ← IO.getStdin
  let d ← foldLines stdin handle ({} : DSt)
  let d := closeCase d
  IO.println s!"STATS cases={d.caseNo} steps={d.steps} results={d.results} dropped={d.dropped} state_changes={d.stateChanges} acks={d.acks} ack_accepted={d.ackAccepted} refused_ok_or_expiry={d.refusedPre} refused_acked={d.refusedAcked} ack_gone_at_once={d.ackGone} removes={d.removes} advances={d.advances} pumps={d.pumps} pumps_fired={d.pumpsFired} comments_expired_by_timer={d.cmtExpired} downtime_ops={d.downtimeOps} pause_ops={d.pauseOps} paused_acks_with_notify={d.pausedAcks} raw_lagged_looks={d.rawLagged} stashed={d.stashed} stashed_while_acked={d.stashedWhileAcked} recovery_notifs={d.recoveryNotifs} reader_first_looks={d.readerFirst} remind_ops={d.reminds} reminders={d.reminders} reminders_withheld_by_ack={d.remindersWithheldAck} fire_ops={d.fires} fires_pending={d.firesPending} fires_kept_by_ack={d.firesKeptAck} fires_released={d.firesReleased} fires_notified={d.firesNotified} fires_after_expiry={d.firesAfterExpiry} handled_by_downtime_only={d.handledDowntimeOnly} http_ops={d.httpOps} set_events={d.setEvents} cleared_events={d.clearedEvents} clr_expiry={d.clrExpiry} clr_normal_change={d.clrNormal} clr_sticky_recovery={d.clrSticky} sticky_kept_on_change={d.stickyKept} clr_remove={d.clrRemove} ack_notifs={d.ackNotifs} problem_notifs={d.problemNotifs} handled_looks={d.handledLooks} comments_removed={d.cmtRemoved} comments_kept_later={d.cmtKeptLater} comments_kept_persistent={d.cmtKeptPersistent} nontrivial={d.nontrivial} mismatches={d.mismatches} specfails={d.specfails}"

/-
  C19 — sandboxed expressions.  A small *abstract* interpreter with one constructor per node kind of
  lib/config/expression.cpp (every class that has a `DoEvaluate`), parameterised by

    * the guard table  `cfg.guard : class name → Bool`  — "the body of X::DoEvaluate starts with
      `if (frame.Sandboxed) BOOST_THROW_EXCEPTION(ScriptError(..))`" — which the check REGENERATES from
      the source on every run (IcingaProofs/Gen/SandboxGuards.lean),
    * the call check (expression.cpp:481-482) and the no_user_view check (object.cpp:119-124) as flags,
    * the table of native functions: registered name ↦ (side-effect-free flag, semantics).  A native's
      semantics is an arbitrary function on the protected state, so a native that is not flagged safe
      may do anything.

    * the six higher-order natives of lib/base/array-script.cpp (sort/map/reduce/filter/any/all) are INTERPRETED
      (`hofInvoke`): whether each tests its callback's flag under `Sandboxed` is a generated flag (`cfg.cbCheck`),
    * operators at the level of value types (lib/base/value-operators.cpp: which operand types are accepted, what is
      returned, when an error is raised),
    * two ghost logs: `calls` (every function actually invoked) and `reads` (every attribute of a live config object
      whose value `Object::GetFieldByName` handed to the script).

  Nothing here is nicer than the code: an unguarded mutating node performs its mutation also in a
  sandboxed frame, errors keep the state reached so far (C++ exceptions do not roll back), try/except
  continues from that state.

  Core Lean only (the driver is a compiled executable).
-/
namespace Icinga.C19

/-- lib/config/expression.hpp:175-180 `ScopeSpecifier`. -/
inductive Scope | locals | this | globals
  deriving DecidableEq, Repr, Inhabited

/-- What a Reference object points into (lib/base/reference.hpp: parent object + index). -/
inductive RefParent
  | obj (name : String)                          -- a live ConfigObject
  | globals                                      -- the globals namespace
  | locals                                       -- the frame's locals / `this` dictionary
  | dict (l : List (String × String))            -- some other dictionary value
  deriving DecidableEq, Repr, Inhabited

/-- Script values.  Containers hold strings only (enough for `in`, `for`, literals); live config
    objects, natives and script functions are references by name. -/
inductive Value
  | empty
  | num (n : Int)
  | str (s : String)
  | bool (b : Bool)
  | arr (l : List String)
  | dict (l : List (String × String))
  | obj (name : String)          -- a live ConfigObject
  | fn (name : String)           -- native function / prototype method, by registered name ("Array#len")
  | closure (id : String)        -- script function (vmops.hpp:93-117: never side-effect free)
  | scope (s : Scope)            -- the globals namespace / the locals dictionary as a value
  | type_ (name : String)        -- a Type object (constructor calls)
  | refr (parent : RefParent) (index : String)   -- a Reference object (`&x`, `&o.f`)
  deriving DecidableEq, Repr, Inhabited

structure Obj where
  type : String
  attrs : List (String × Value)
  deriving DecidableEq, Repr, Inhabited

/-- What the property protects: globals, constants, config objects (incl. runtime attributes), files,
    and the registries a config statement writes to (config items, apply rules, zone directories). -/
structure Prot where
  globals : List (String × Value) := []
  consts : List (String × Value) := []
  objects : List (String × Obj) := []
  files : List (String × String) := []
  items : List String := []
  app : Bool := true          -- the process-wide application singleton `Application::m_Instance` is set (application.cpp:49,83-84)
  deriving DecidableEq, Repr, Inhabited

inductive UnOp | negate | logicalNegate
  deriving DecidableEq, Repr

inductive BinOp
  | add | subtract | multiply | divide | modulo | xor | binaryAnd | binaryOr | shiftLeft | shiftRight
  | equal | notEqual | lessThan | greaterThan | lessThanOrEqual | greaterThanOrEqual | in_ | notIn
  deriving DecidableEq, Repr

/-- expression.hpp `CombinedSetOp`. -/
inductive SetOp | literal | add | subtract | multiply | divide | modulo | xor | binaryAnd | binaryOr
  deriving DecidableEq, Repr

inductive IncKind | regular | recursive | zones
  deriving DecidableEq, Repr

/-- One constructor per node kind (several for SetExpression: one per shape of the left-hand side,
    two for FunctionCallExpression: plain and method call). -/
inductive Expr
  | lit (v : Value)                                   -- LiteralExpression          :92
  | var (name : String)                               -- VariableExpression         :111
  | varIn (imports : List Expr) (name : String)       -- VariableExpression after `using e1; using e2; …` (m_Imports)
  | ref (target : Expr)                               -- RefExpression              :152  (&x, &o.f)
  | deref (e : Expr)                                  -- DerefExpression            :166
  | unop (op : UnOp) (e : Expr)                       -- Negate/LogicalNegate       :193,:201
  | binop (op : BinOp) (a b : Expr)                   -- Add … NotIn                :209-:417
  | land (a b : Expr)                                 -- LogicalAndExpression       :419
  | lor (a b : Expr)                                  -- LogicalOrExpression        :434
  | call (f : Expr) (args : List Expr)                -- FunctionCallExpression     :449 (no self)
  | mcall (recv : Expr) (meth : String) (args : List Expr)   -- FunctionCallExpression :449 (self.meth(..))
  | array (es : List Expr)                            -- ArrayExpression            :496
  | dict (inline_ : Bool) (es : List Expr)            -- DictExpression             :511
  | getScope (s : Scope)                              -- GetScopeExpression         :542
  | setVar (name : String) (op : SetOp) (rhs : Expr)          -- SetExpression      :606  x = …
  | setScoped (s : Scope) (name : String) (op : SetOp) (rhs : Expr)   -- SetExpression   var x = … / globals.x = …
  | setField (o : Expr) (field : String) (op : SetOp) (rhs : Expr)    -- SetExpression   o.field = …
  | setDeref (r : Expr) (op : SetOp) (rhs : Expr)             -- SetExpression   *r = …  (DerefExpression::GetReference :180)
  | setConst (name : String) (e : Expr)               -- SetConstExpression         :674
  | cond (c t : Expr) (f : Option Expr)               -- ConditionalExpression      :687
  | while_ (c body : Expr)                            -- WhileExpression            :700
  | return_ (e : Expr)                                -- ReturnExpression           :719
  | break_                                            -- BreakExpression            :727
  | continue_                                         -- ContinueExpression         :732
  | index (a b : Expr)                                -- IndexerExpression          :737
  | throw_ (e : Expr)                                 -- ThrowExpression            :847
  | import_ (name : Expr)                             -- ImportExpression           :855
  | importDefaults                                    -- ImportDefaultTemplatesExpression :884
  | function (name : String) (params : List String) (body : Expr)     -- FunctionExpression :905
  | apply_ (type target : String) (name : Expr)       -- ApplyExpression            :910
  | namespace_ (body : Expr)                          -- NamespaceExpression        :922
  | object_ (type name : Expr)                        -- ObjectExpression           :933
  | for_ (kvar vvar : String) (e body : Expr)         -- ForExpression              :955
  | library (e : Expr)                                -- LibraryExpression          :966
  | include_ (k : IncKind) (path : Expr)              -- IncludeExpression          :980
  | breakpoint                                        -- BreakpointExpression       :1049
  | tryExcept (t e : Expr)                            -- TryExceptExpression        :1056
  deriving Repr, Inhabited

def UnOp.kind : UnOp → String
  | .negate => "NegateExpression" | .logicalNegate => "LogicalNegateExpression"

def BinOp.kind : BinOp → String
  | .add => "AddExpression" | .subtract => "SubtractExpression" | .multiply => "MultiplyExpression"
  | .divide => "DivideExpression" | .modulo => "ModuloExpression" | .xor => "XorExpression"
  | .binaryAnd => "BinaryAndExpression" | .binaryOr => "BinaryOrExpression"
  | .shiftLeft => "ShiftLeftExpression" | .shiftRight => "ShiftRightExpression"
  | .equal => "EqualExpression" | .notEqual => "NotEqualExpression" | .lessThan => "LessThanExpression"
  | .greaterThan => "GreaterThanExpression" | .lessThanOrEqual => "LessThanOrEqualExpression"
  | .greaterThanOrEqual => "GreaterThanOrEqualExpression" | .in_ => "InExpression" | .notIn => "NotInExpression"

/-- The C++ class whose `DoEvaluate` a node runs — the key into the generated guard table. -/
def Expr.kind : Expr → String
  | .lit _ => "LiteralExpression" | .var _ => "VariableExpression" | .varIn _ _ => "VariableExpression" | .ref _ => "RefExpression"
  | .deref _ => "DerefExpression" | .unop op _ => op.kind | .binop op _ _ => op.kind
  | .land _ _ => "LogicalAndExpression" | .lor _ _ => "LogicalOrExpression"
  | .call _ _ => "FunctionCallExpression" | .mcall _ _ _ => "FunctionCallExpression"
  | .array _ => "ArrayExpression" | .dict _ _ => "DictExpression" | .getScope _ => "GetScopeExpression"
  | .setVar _ _ _ => "SetExpression" | .setScoped _ _ _ _ => "SetExpression" | .setField _ _ _ _ => "SetExpression"
  | .setDeref _ _ _ => "SetExpression"
  | .setConst _ _ => "SetConstExpression" | .cond _ _ _ => "ConditionalExpression"
  | .while_ _ _ => "WhileExpression" | .return_ _ => "ReturnExpression" | .break_ => "BreakExpression"
  | .continue_ => "ContinueExpression" | .index _ _ => "IndexerExpression" | .throw_ _ => "ThrowExpression"
  | .import_ _ => "ImportExpression" | .importDefaults => "ImportDefaultTemplatesExpression"
  | .function _ _ _ => "FunctionExpression" | .apply_ _ _ _ => "ApplyExpression"
  | .namespace_ _ => "NamespaceExpression" | .object_ _ _ => "ObjectExpression" | .for_ _ _ _ _ => "ForExpression"
  | .library _ => "LibraryExpression" | .include_ _ _ => "IncludeExpression"
  | .breakpoint => "BreakpointExpression" | .tryExcept _ _ => "TryExceptExpression"

/-- All node kinds of the model (= the classes the translator must find). -/
def allKinds : List String :=
  ["LiteralExpression", "VariableExpression", "RefExpression", "DerefExpression", "NegateExpression",
   "LogicalNegateExpression", "AddExpression", "SubtractExpression", "MultiplyExpression", "DivideExpression",
   "ModuloExpression", "XorExpression", "BinaryAndExpression", "BinaryOrExpression", "ShiftLeftExpression",
   "ShiftRightExpression", "EqualExpression", "NotEqualExpression", "LessThanExpression", "GreaterThanExpression",
   "LessThanOrEqualExpression", "GreaterThanOrEqualExpression", "InExpression", "NotInExpression",
   "LogicalAndExpression", "LogicalOrExpression", "FunctionCallExpression", "ArrayExpression", "DictExpression",
   "GetScopeExpression", "SetExpression", "SetConstExpression", "ConditionalExpression", "WhileExpression",
   "ReturnExpression", "BreakExpression", "ContinueExpression", "IndexerExpression", "ThrowExpression",
   "ImportExpression", "ImportDefaultTemplatesExpression", "FunctionExpression", "ApplyExpression",
   "NamespaceExpression", "ObjectExpression", "ForExpression", "LibraryExpression", "IncludeExpression",
   "BreakpointExpression", "TryExceptExpression"]

/-- The node kinds whose own clause of `eval` writes to the protected state (globals / constants /
    object attributes / item, rule and zone-dir registries).  The other guarded kinds of the code
    (While, For, Import*, Library) only run sub-expressions or write frame locals. -/
def mutatingKinds : List String :=
  ["SetExpression", "SetConstExpression", "ApplyExpression", "ObjectExpression", "IncludeExpression"]

def mutating (k : String) : Bool := mutatingKinds.contains k

inductive Callee
  | native (name : String)
  | script (id : String)
  deriving DecidableEq, Repr

inductive Err
  | sandbox (kind : String)              -- "… not allowed in sandbox mode" thrown by a node guard
  | notSafe (callee : Callee)            -- "Function is not marked as safe for sandbox mode."
  | hidden (type field : String)         -- "Accessing the field … is not allowed in sandbox mode."
  | script (msg : String)                -- any other ScriptError
  | fuel                                 -- recursion limit (scriptframe.cpp:80-86 / model fuel)
  deriving DecidableEq, Repr

/-- expression.hpp:118-124 `ExpressionResultCode`. -/
inductive Code | ok | return_ | break_ | continue_
  deriving DecidableEq, Repr

abbrev Out := Value × Code

/-- Evaluation state.  `locals` (frame locals / `this`) and the table of script functions are not
    protected state; `calls` is a ghost log of every function actually invoked (newest first). -/
structure Env where
  prot : Prot := {}
  locals : List (String × Value) := []
  closures : List (String × (List String × Expr)) := []
  calls : List Callee := []
  /-- ghost log: (type, field) of every attribute of a live config object whose VALUE was handed to the script (newest first) -/
  reads : List (String × String) := []
  deriving Repr, Inhabited

/-- State-and-error monad in which an error KEEPS the state (a C++ exception undoes nothing). -/
def M (α : Type) := Env → Except Err α × Env

namespace M
def pure {α} (a : α) : M α := fun s => (.ok a, s)
def bind {α β} (m : M α) (f : α → M β) : M β := fun s =>
  match m s with
  | (.ok a, s') => f a s'
  | (.error e, s') => (.error e, s')
def fail {α} (e : Err) : M α := fun s => (.error e, s)
/-- `try { m } catch (std::exception&) { h }` -/
def catch_ {α} (m : M α) (h : Err → M α) : M α := fun s =>
  match m s with
  | (.ok a, s') => (.ok a, s')
  | (.error e, s') => h e s'
def get : M Env := fun s => (.ok s, s)
def modify (f : Env → Env) : M Unit := fun s => (.ok (), f s)
end M

instance : Monad M where
  pure := M.pure
  bind := M.bind

/-- A native function: its side-effect-free flag and what it does to the protected state. -/
structure Native where
  safe : Bool
  run : Value → List Value → Prot → Except String Value × Prot

structure Cfg where
  guard : String → Bool                      -- generated: throw guard at the head of X::DoEvaluate
  callCheck : Bool                           -- generated: expression.cpp:481-482 present
  fieldCheck : Bool                          -- generated: object.cpp:119-124 present
  refGetSandboxed : Bool := true             -- generated: the literal `sandboxed` argument in Reference::Get (reference.cpp:22)
  initDictOff : Bool := true                 -- generated: `if (frame.Sandboxed) init_dict = false;` (expression.cpp:758-759)
  importSandboxed : Bool := true             -- generated: VMOps::FindVarImport reads through GetField(…, frame.Sandboxed, …) (vmops.hpp:43-53)
  /-- generated per higher-order native (array-script.cpp:83-212 `Array#sort/map/reduce/filter/any/all`): its body tests
      `vframe->Sandboxed && !function->IsSideEffectFree()` before it invokes the script-supplied function. -/
  cbCheck : String → Bool := fun _ => true
  /-- Types whose instantiation has an effect on process-wide state: `Type::Instantiate` builds the object, the script drops
      it, and the destructor runs.  `Application::~Application()` (lib/base/application.cpp:105-108) executes
      `m_Instance = nullptr` unconditionally, so this is true of every instantiable type derived from Application. -/
  ctorEffect : String → Bool := fun _ => false
  native : String → Option Native
  hidden : String → String → Bool            -- type, field ↦ FANoUserView
  tmpl : String → Option Expr := fun _ => none      -- templates known to ConfigItem (import)
  defaults : List Expr := []                 -- default templates
  parse : String → Option Expr := fun _ => none     -- compiling the text of an included file

def lookup {α} (k : String) : List (String × α) → Option α
  | [] => none
  | (k', v) :: r => if k' = k then some v else lookup k r

def upsert {α} (k : String) (v : α) : List (String × α) → List (String × α)
  | [] => [(k, v)]
  | (k', v') :: r => if k' = k then (k, v) :: r else (k', v') :: upsert k v r

def Value.toBool : Value → Bool      -- lib/base/value.cpp Value::ToBool
  | .empty => false | .num n => n != 0 | .str s => s != "" | .bool b => b
  | .arr l => !l.isEmpty | .dict l => !l.isEmpty | _ => true

def Value.toStr : Value → String
  | .empty => "" | .num n => toString n | .str s => s | .bool b => if b then "true" else "false"
  | .arr _ => "Object of type 'Array'" | .dict _ => "Object of type 'Dictionary'"
  | .obj n => "Object of type '" ++ n ++ "'" | .fn n => n | .closure n => n
  | .scope _ => "Object of type 'Namespace'" | .type_ n => n | .refr _ _ => "Object of type 'Reference'"

def Value.typeName : Value → String
  | .empty => "Empty" | .num _ => "Number" | .str _ => "String" | .bool _ => "Boolean" | .arr _ => "Array"
  | .dict _ => "Dictionary" | .obj _ => "ConfigObject" | .fn _ => "Function" | .closure _ => "Function"
  | .scope .globals => "Namespace" | .scope _ => "Dictionary" | .type_ _ => "Type" | .refr _ _ => "Reference"

def numOf : Value → Option Int
  | .empty => some 0 | .num n => some n | .bool b => some (if b then 1 else 0) | _ => none

/-- Operands of the arithmetic operators as value-operators.cpp reads them: `(IsNumber() || IsEmpty())` on both sides and
    not both Empty; Empty counts as 0.  Booleans, strings and objects are NOT numbers there (`IsNumber()` is
    `GetType() == ValueNumber`). -/
def numPair (a b : Value) : Option (Int × Int) :=
  match a, b with
  | .num m, .num n => some (m, n)
  | .num m, .empty => some (m, 0)
  | .empty, .num n => some (0, n)
  | _, _ => none

def opErr (op : String) (a b : Value) : Except String Value :=
  .error ("Operator " ++ op ++ " cannot be applied to values of type '" ++ a.typeName ++ "' and '" ++ b.typeName ++ "'")

/-- lib/base/value-operators.cpp at the level of value TYPES (numbers are integers, containers hold strings): which operand
    types an operator accepts, what type it returns, when it raises — never a state change, the operators are free
    functions on values.  `+` (:208-235): numbers, strings (with Empty/number), Array+Array/Empty (a NEW array),
    Dictionary+Dictionary/Empty (a NEW dictionary), Empty+Empty and everything else raise.  `-` (:257-298): numbers,
    Array-Array/Empty (a NEW array).  `* ^ & | << >>`: numbers only.  `/` `%`: right side Empty or 0 raises.
    `< > <= >=`: two strings, numbers, two arrays. -/
def binop (op : BinOp) (a b : Value) : Except String Value :=
  match op with
  | .equal => .ok (.bool (a == b))
  | .notEqual => .ok (.bool (a != b))
  | .in_ => match b with
    | .arr l => .ok (.bool (l.contains a.toStr))
    | .empty => .ok (.bool false)
    | _ => .error "Invalid right side argument for 'in' operator"
  | .notIn => match b with
    | .arr l => .ok (.bool (!l.contains a.toStr))
    | .empty => .ok (.bool true)
    | _ => .error "Invalid right side argument for 'in' operator"
  | .add => match a, b with
    | .str x, .str y => .ok (.str (x ++ y))
    | .str x, .empty => .ok (.str x)
    | .empty, .str y => .ok (.str y)
    | .str x, .num n => .ok (.str (x ++ toString n))
    | .num m, .str y => .ok (.str (toString m ++ y))
    | .arr x, .arr y => .ok (.arr (x ++ y))
    | .arr x, .empty => .ok (.arr x)
    | .empty, .arr y => .ok (.arr y)
    | .dict x, .dict y => .ok (.dict (x ++ y))
    | .dict x, .empty => .ok (.dict x)
    | .empty, .dict y => .ok (.dict y)
    | x, y => match numPair x y with
      | some (m, n) => .ok (.num (m + n))
      | none => opErr "+" x y
  | .subtract => match a, b with
    | .arr x, .arr y => .ok (.arr (x.filter fun s => !y.contains s))
    | .arr x, .empty => .ok (.arr x)
    | .empty, .arr _ => .ok (.arr [])
    | x, y => match numPair x y with
      | some (m, n) => .ok (.num (m - n))
      | none => opErr "-" x y
  | .divide => match b with
    | .num n =>
      if n = 0 then .error "Right-hand side argument for operator / is 0."
      else match a with
        | .num m => .ok (.num (m / n))
        | .empty => .ok (.num 0)
        | _ => opErr "/" a b
    | .empty => .error "Right-hand side argument for operator / is Empty."
    | _ => opErr "/" a b
  | .modulo => match b with
    | .num n =>
      if n = 0 then .error "Right-hand side argument for operator % is 0."
      else match a with
        | .num m => .ok (.num (m % n))
        | .empty => .ok (.num 0)
        | .bool t => .ok (.num ((if t then 1 else 0) % n))
        | _ => .error "cannot convert the left-hand side to a number"
    | .empty => .error "Right-hand side argument for operator % is Empty."
    | _ => opErr "%" a b
  | .lessThan | .greaterThan | .lessThanOrEqual | .greaterThanOrEqual =>
    match a, b with
    | .str x, .str y =>
      .ok (.bool (match op with
        | .lessThan => x < y | .greaterThan => y < x | .lessThanOrEqual => !(y < x) | _ => !(x < y)))
    | .arr _, .arr _ => .ok (.bool false)          -- element-wise (:  the elements' values are not modelled)
    | x, y => match numPair x y with
      | some (m, n) =>
        .ok (.bool (match op with
          | .lessThan => m < n | .greaterThan => m > n | .lessThanOrEqual => m ≤ n | _ => m ≥ n))
      | none => opErr "<" x y
  | _ => match numPair a b with
    | some (m, n) =>
      match op with
      | .multiply => .ok (.num (m * n))
      | .xor => .ok (.num (Int.ofNat (m.toNat ^^^ n.toNat)))
      | .binaryAnd => .ok (.num (Int.ofNat (m.toNat &&& n.toNat)))
      | .binaryOr => .ok (.num (Int.ofNat (m.toNat ||| n.toNat)))
      | .shiftLeft => .ok (.num (m * 2 ^ n.toNat))
      | .shiftRight => .ok (.num (m / 2 ^ n.toNat))
      | _ => .error "unreachable"
    | none => opErr "arithmetic" a b

def SetOp.binop? : SetOp → Option BinOp
  | .literal => none | .add => some .add | .subtract => some .subtract | .multiply => some .multiply
  | .divide => some .divide | .modulo => some .modulo | .xor => some .xor
  | .binaryAnd => some .binaryAnd | .binaryOr => some .binaryOr

def liftE {α} (r : Except String α) : M α :=
  match r with
  | .ok a => pure a
  | .error m => M.fail (.script m)

/-- The guard at the head of a `DoEvaluate` (expression.cpp:608,702,857,886,912,935,957,968,982):
    present iff the generated table says so. -/
def guardCheck (cfg : Cfg) (sb : Bool) (kind : String) : M Unit :=
  if sb && cfg.guard kind then M.fail (.sandbox kind) else pure ()

def when_ (c : Bool) (m : M Unit) : M Unit := if c then m else pure ()

/-- CHECK_RESULT (expression.hpp:165-169): a non-OK result code is passed up unchanged. -/
def chk (m : M Out) (f : Value → M Out) : M Out := do
  let r ← m
  if r.2 != Code.ok then pure r else f r.1

/-- Evaluate a list of sub-expressions left to right (arguments, array elements). -/
def evalList (ev : Expr → M Out) : List Expr → (List Value → M Out) → M Out
  | [], k => k []
  | e :: es, k => chk (ev e) fun v => evalList ev es fun vs => k (v :: vs)

/-- DictExpression body: run the statements in order, result of the last one (expression.cpp:523-527). -/
def evalSeq (ev : Expr → M Out) : List Expr → Value → M Out
  | [], last => pure (last, .ok)
  | e :: es, _ => chk (ev e) fun v => evalSeq ev es v

/-- GetPrototypeField(…, not_found_error = false): the prototype method of that name, else Empty. -/
def protoOr (cfg : Cfg) (type field : String) : Value :=
  if (cfg.native (type ++ "#" ++ field)).isSome then .fn (type ++ "#" ++ field) else .empty

/-- Object::GetFieldByName (lib/base/object.cpp:106-126) behind VMOps::GetField (vmops.hpp:236-247). -/
def getField (cfg : Cfg) (sb : Bool) (ctx : Value) (field : String) : M Value := do
  let env ← M.get
  match ctx with
  | .empty => pure .empty                                             -- vmops.hpp:238-239
  | .obj name =>
    match lookup name env.prot.objects with
    | none => M.fail (.script "object vanished")
    | some o =>
      match lookup field o.attrs with
      | none =>                                                       -- fid == -1 → prototype (object.cpp:115-116)
        if cfg.native ("ConfigObject#" ++ field) |>.isSome then pure (.fn ("ConfigObject#" ++ field))
        else pure .empty
      | some v =>
        if sb && cfg.fieldCheck && cfg.hidden o.type field then       -- object.cpp:118-123
          M.fail (.hidden o.type field)
        else do
          M.modify fun e => { e with reads := (o.type, field) :: e.reads }     -- ghost: the attribute's value leaves the object
          pure v                                                      -- object.cpp:125
  | .scope .globals =>                                                -- Namespace::GetFieldByName (namespace.cpp:134-144)
    match lookup field env.prot.consts with
    | some v => pure v
    | none => match lookup field env.prot.globals with
      | some v => pure v
      | none => pure (protoOr cfg "Namespace" field)                  -- prototype, else Empty (no error)
  | .scope _ =>                                                       -- Dictionary::GetFieldByName (dictionary.cpp:283-291)
    match lookup field env.locals with
    | some v => pure v
    | none => pure (protoOr cfg "Dictionary" field)
  | .dict l =>
    match lookup field l with
    | some s => pure (.str s)
    | none => pure (protoOr cfg "Dictionary" field)
  | v =>                                                              -- GetPrototypeField (vmops.hpp:242)
    if cfg.native (v.typeName ++ "#" ++ field) |>.isSome then pure (.fn (v.typeName ++ "#" ++ field))
    else M.fail (.script ("Invalid field access (for value of type '" ++ v.typeName ++ "'): '" ++ field ++ "'"))

/-- VariableExpression::DoEvaluate (expression.cpp:111-123): locals, then (imports →) constants and
    globals; an unknown name is an error (ScriptGlobal::Get throws). -/
def readVar (name : String) : M Value := do
  let env ← M.get
  match lookup name env.locals with
  | some v => pure v
  | none => match lookup name env.prot.consts with
    | some v => pure v
    | none => match lookup name env.prot.globals with
      | some v => pure v
      | none => M.fail (.script ("Tried to access undefined script variable '" ++ name ++ "'"))   -- scriptglobal.cpp Get

/-- Object::HasOwnField as VMOps::FindVarImportRef uses it (vmops.hpp:29-41). -/
def hasOwnField (env : Env) (v : Value) (name : String) : Bool :=
  match v with
  | .obj n => match lookup n env.prot.objects with
    | some o => (lookup name o.attrs).isSome
    | none => false
  | .scope .globals => (lookup name env.prot.consts).isSome || (lookup name env.prot.globals).isSome
  | .scope _ => (lookup name env.locals).isSome
  | .dict l => (lookup name l).isSome
  | _ => false

/-- VMOps::FindVarImport (vmops.hpp:43-53) over the imports of a variable, then ScriptGlobal::Get: the first
    import that has the name as an own field is read through VMOps::GetField with the sandbox flag the source
    passes there (generated into `cfg.importSandboxed`). -/
def findImport (cfg : Cfg) (sb : Bool) (ev : Expr → M Out) : List Expr → String → M Out
  | [], name => do let v ← readVar name; pure (v, .ok)
  | imp :: rest, name => chk (ev imp) fun iv => do
      let env ← M.get
      if hasOwnField env iv name then do
        let v ← getField cfg (sb && cfg.importSandboxed) iv name
        pure (v, .ok)
      else findImport cfg sb ev rest name

/-- Write a global through the namespace (Namespace::Set, lib/base/namespace.cpp): constants refuse. -/
def writeGlobal (name : String) (v : Value) : M Unit := do
  let env ← M.get
  if (lookup name env.prot.consts).isSome then M.fail (.script "Constants must not be modified.")
  else M.modify fun e => { e with prot := { e.prot with globals := upsert name v e.prot.globals } }

def writeLocal (name : String) (v : Value) : M Unit :=
  M.modify fun e => { e with locals := upsert name v e.locals }

def writeAttr (oname field : String) (v : Value) : M Unit := do
  let env ← M.get
  match lookup oname env.prot.objects with
  | none => M.fail (.script "object vanished")
  | some o =>
    if (lookup field o.attrs).isNone then M.fail (.script "Invalid field access")
    else M.modify fun e => { e with prot := { e.prot with
           objects := upsert oname { o with attrs := upsert field v o.attrs } e.prot.objects } }

/-- Combine with the old value for `+=` … (expression.cpp:622-653). -/
def combine (op : SetOp) (old new : Value) : M Value :=
  match op.binop? with
  | none => pure new
  | some b => liftE (binop b old new)

def RefParent.toValue : RefParent → Value
  | .obj n => .obj n | .globals => .scope .globals | .locals => .scope .locals | .dict l => .dict l

/-- Reference::Get (lib/base/reference.cpp:20-23): `m_Parent->GetFieldByName(m_Index, <literal>, …)` — the
    sandbox flag is the LITERAL in the source (generated into `cfg.refGetSandboxed`), not the frame's. -/
def refRead (cfg : Cfg) (r : Value) : M Value :=
  match r with
  | .refr p idx => getField cfg cfg.refGetSandboxed p.toValue idx
  | _ => M.fail (.script "Invalid reference specified.")

/-- Reference::Set (reference.cpp:25-28): `m_Parent->SetFieldByName(...)` — no sandbox parameter at all. -/
def refWrite (r : Value) (v : Value) : M Unit :=
  match r with
  | .refr (.obj n) idx => writeAttr n idx v
  | .refr .globals idx => writeGlobal idx v
  | .refr .locals idx => writeLocal idx v
  | .refr (.dict _) _ => pure ()                        -- writes into a temporary the model does not track
  | _ => M.fail (.script "Invalid reference specified.")

/-- A native of the table: whatever its state transformer does to the protected state. -/
def runOpaque (f : Native) (self : Value) (args : List Value) : M Value := do
  let env ← M.get
  let (r, p') := f.run self args env.prot
  M.modify fun e => { e with prot := p' }
  liftE r

/-- Invoking a function value (Function::Invoke/InvokeThis behind VMOps::FunctionCall): logged.
    `Reference#get` / `Reference#set` (reference-script.cpp) are built in; every other native is the opaque
    state transformer of the table. -/
def invokeNative (cfg : Cfg) (name : String) (f : Native) (self : Value) (args : List Value) : M Value := do
  M.modify fun e => { e with calls := .native name :: e.calls }
  if name = "Reference#get" then refRead cfg self
  else if name = "Reference#set" then do
    refWrite self (args.headD .empty)
    pure .empty
  else runOpaque f self args

def bindParams : List String → List Value → List (String × Value)
  | p :: ps, a :: as => (p, a) :: bindParams ps as
  | _, _ => []

/-- The natives that invoke a function handed to them by the script (lib/base/array-script.cpp:63-212). -/
def hofNames : List String := ["Array#sort", "Array#map", "Array#reduce", "Array#filter", "Array#any", "Array#all"]

/-- The argument tuples the callback is invoked with: one element each (map/filter/any/all, :117-120,:160-164,:181-185,
    :202-206), neighbouring pairs for reduce (:141-143) and sort (:85-88; which pairs `std::sort` compares is not fixed —
    the model takes neighbours). -/
def cbTuples (name : String) (l : List String) : List (List Value) :=
  if name = "Array#reduce" || name = "Array#sort" then (l.zip (l.drop 1)).map fun p => [.str p.1, .str p.2]
  else l.map fun x => [.str x]

/-- `function->Invoke({…})` once per tuple, in order; an error of the callback ends the native (C++ exception). -/
def invokeEach (inv : List Value → M Value) : List (List Value) → M Unit
  | [] => pure ()
  | a :: rest => do let _ ← inv a; invokeEach inv rest

/-- A script function applied to evaluated arguments (the wrapper of VMOps::NewFunction, vmops.hpp:97-114). -/
def applyClosure (ev : Expr → M Out) (id : String) (vs : List Value) : M Out := do
  let env ← M.get
  match lookup id env.closures with
  | none => M.fail (.script "Argument is not a callable object.")
  | some (params, body) =>
    if vs.length < params.length then M.fail (.script "Too few arguments for function")    -- vmops.hpp:99-100
    else
      M.modify fun e => { e with calls := .script id :: e.calls }
      let saved := (← M.get).locals
      M.modify fun e => { e with locals := bindParams params vs }         -- vmops.hpp:104-110
      let r ← ev body
      M.modify fun e => { e with locals := saved }
      pure (r.1, .ok)

/-- A higher-order native of array-script.cpp on evaluated arguments: logged like every invocation; without a function
    argument `sort` sorts a copy (:75-77) and the others raise (REQUIRE_NOT_NULL); with one, the callback's flag is tested
    under `Sandboxed` iff the generated table says this native's body has that test (`cfg.cbCheck`), and then the callback
    is invoked per element — a native through `invokeNative`, a script function through `applyClosure` (the nested frame
    inherits `Sandboxed`, scriptframe.cpp:59-69: `ev` is the sandboxed evaluator).  The result is a value of the right
    shape (the elements' values are not modelled). -/
def hofInvoke (cfg : Cfg) (sb : Bool) (ev : Expr → M Out) (name : String) (self : Value) (vs : List Value) : M Out := do
  M.modify fun e => { e with calls := .native name :: e.calls }
  match self with
  | .arr l =>
    match vs with
    | [] => if name = "Array#sort" then pure (.arr l, .ok) else M.fail (.script "Function argument must not be null")
    | .fn cb :: _ =>
      match cfg.native cb with
      | none => M.fail (.script "Argument is not a callable object.")
      | some g =>
        if sb && cfg.cbCheck name && !g.safe then M.fail (.notSafe (.native cb))      -- array-script.cpp:83-84,111-112,…
        else do
          invokeEach (fun a => invokeNative cfg cb g .empty a) (cbTuples name l)
          pure (if name = "Array#any" || name = "Array#all" then .bool true else .arr l, .ok)
    | .closure id :: _ =>
      if sb && cfg.cbCheck name then M.fail (.notSafe (.script id))                   -- script functions never carry the flag
      else do
        invokeEach (fun a => do let r ← applyClosure ev id a; pure r.1) (cbTuples name l)
        pure (if name = "Array#any" || name = "Array#all" then .bool true else .arr l, .ok)
    | _ => M.fail (.script "Function argument must not be null")
  | _ => M.fail (.script "Self must be an array")

/-- FunctionCallExpression::DoEvaluate from `if (!vfunc.IsObjectType<Function>())` on
    (expression.cpp:476-493), given the already resolved function value. -/
def callValue (cfg : Cfg) (sb : Bool) (ev : Expr → M Out) (evArgs : List Expr → (List Value → M Out) → M Out)
    (vfunc self : Value) (args : List Expr) : M Out :=
  match vfunc with
  | .fn name =>
    match cfg.native name with
    | none => M.fail (.script "Argument is not a callable object.")
    | some f =>
      if !f.safe && sb && cfg.callCheck then M.fail (.notSafe (.native name))          -- :481-482
      else evArgs args fun vs =>                                                          -- :484-493
        if hofNames.contains name then hofInvoke cfg sb ev name self vs
        else do let r ← invokeNative cfg name f self vs; pure (r, .ok)
  | .closure id => do
    if sb && cfg.callCheck then M.fail (.notSafe (.script id))        -- vmops.hpp:115: side_effect_free = false
    else evArgs args fun vs => applyClosure ev id vs
  | .type_ t => evArgs args fun vs =>                                 -- VMOps::ConstructorCall (:463-474): BEFORE the whitelist test (:481)
      if cfg.ctorEffect t then                                        -- vmops.hpp:81 type->Instantiate(args)
        if vs.isEmpty then do                                         -- the temporary dies with the script's value
          M.modify fun e => { e with prot := { e.prot with app := false } }     -- application.cpp:105-108
          pure (.empty, .ok)
        else M.fail (.script "Constructor does not take any arguments.")      -- objectfactory: refused before anything is built
      else
      match t, vs with
      | "String", [] => pure (.str "", .ok)
      | "String", [v] => pure (.str v.toStr, .ok)
      | "Number", [] => pure (.num 0, .ok)
      | "Boolean", [] => pure (.bool false, .ok)
      | "Boolean", [v] => pure (.bool v.toBool, .ok)
      | "Array", _ => pure (.arr (vs.map Value.toStr), .ok)
      | "Dictionary", _ => pure (.dict [], .ok)
      | _, _ => M.fail (.script "cannot instantiate")
  | _ => M.fail (.script "Argument is not a callable object.")        -- :476-477

/-- `while` with the model's fuel as loop bound (expression.cpp:705-714, CHECK_RESULT_LOOP). -/
def loopWhile (ev : Expr → M Out) (c body : Expr) : Nat → M Out
  | 0 => M.fail .fuel
  | n + 1 => chk (ev c) fun cv =>
      if !cv.toBool then pure (.empty, .ok)
      else do
        let r ← ev body
        match r.2 with
        | .break_ => pure (.empty, .ok)
        | .return_ => pure r
        | _ => loopWhile ev c body n

/-- VMOps::For over the items of a container (vmops.hpp `For`): binds the loop variables in the frame's
    locals, runs the body, honours break/continue/return. -/
def loopFor (ev : Expr → M Out) (kvar vvar : String) (body : Expr) : List (String × String) → M Out
  | [] => pure (.empty, .ok)
  | (k, v) :: rest => do
    writeLocal kvar (.str k)
    when_ (vvar != "") (writeLocal vvar (.str v))
    let r ← ev body
    match r.2 with
    | .break_ => pure (.empty, .ok)
    | .return_ => pure r
    | _ => loopFor ev kvar vvar body rest

/-- The `init_dict` step of IndexerExpression::GetReference for a left-hand side `base.k.field`
    (expression.cpp:758-776): if `base.k` is missing/Empty it is created as an empty dictionary — one level,
    on a live object, the globals namespace or the locals (deeper containers are values the model does not
    write back). -/
def initDict (cfg : Cfg) (sb : Bool) (ev : Expr → M Out) (o : Expr) : M Out :=
  if sb && cfg.initDictOff then pure (.empty, .ok)                    -- :758-759
  else match o with
    | .index base key => chk (ev base) fun bv => chk (ev key) fun kv => do
        let old ← M.catch_ (getField cfg sb bv kv.toStr) fun _ => pure .empty
        (if old == .empty then
           (match bv with
            | .obj n => M.catch_ (writeAttr n kv.toStr (.dict [])) fun _ => pure ()
            | .scope .globals => writeGlobal kv.toStr (.dict [])
            | .scope _ => writeLocal kv.toStr (.dict [])
            | _ => pure () : M Unit)
         else pure () : M Unit)
        pure (.empty, .ok)
    | _ => pure (.empty, .ok)

/-- One node.  `ev` evaluates sub-expressions (one unit of fuel less), `fuel` bounds `while`. -/
def evalNode (cfg : Cfg) (sb : Bool) (fuel : Nat) (ev : Expr → M Out) (e : Expr) : M Out :=
  match e with
  | .lit v => pure (v, .ok)
  | .var name => do let v ← readVar name; pure (v, .ok)
  | .varIn imports name => do                                         -- :111-123 locals, then the imports, then globals
      let env ← M.get
      match lookup name env.locals with
      | some v => pure (v, .ok)
      | none => findImport cfg sb ev imports name
  | .ref target =>                                                    -- :152-164 GetReference(frame, false, …)
      match target with
      | .var name => do                                               -- VariableExpression::GetReference :125-150
        let env ← M.get
        if (lookup name env.locals).isSome then pure (.refr .locals name, .ok)
        else if (lookup name env.prot.consts).isSome || (lookup name env.prot.globals).isSome then pure (.refr .globals name, .ok)
        else pure (.refr .locals name, .ok)
      | .index a b => chk (ev a) fun pv => chk (ev b) fun iv =>       -- IndexerExpression::GetReference :748-799 (init_dict = false)
        match pv with
        | .obj n => pure (.refr (.obj n) iv.toStr, .ok)
        | .scope .globals => pure (.refr .globals iv.toStr, .ok)
        | .scope _ => pure (.refr .locals iv.toStr, .ok)
        | .dict l => pure (.refr (.dict l) iv.toStr, .ok)
        | _ => M.fail (.script "Cannot obtain reference for expression because parent is not an object.")
      | _ => M.fail (.script "Cannot obtain reference for expression.")
  | .deref e => chk (ev e) fun v => do let r ← refRead cfg v; pure (r, .ok)      -- :166-178 ref->Get()
  | .unop op e => chk (ev e) fun v =>
      match op with
      | .logicalNegate => pure (.bool (!v.toBool), .ok)
      | .negate => match numOf v with
        | some n => pure (.num (-n - 1), .ok)
        | none => M.fail (.script "cannot negate")
  | .binop op a b => chk (ev a) fun x => chk (ev b) fun y => do let r ← liftE (binop op x y); pure (r, .ok)
  | .land a b => chk (ev a) fun x => if !x.toBool then pure (x, .ok) else chk (ev b) fun y => pure (y, .ok)
  | .lor a b => chk (ev a) fun x => if x.toBool then pure (x, .ok) else chk (ev b) fun y => pure (y, .ok)
  | .call f args => chk (ev f) fun vf => callValue cfg sb ev (evalList ev) vf .empty args
  | .mcall recv meth args =>                                          -- :454-455 GetReference + GetField
      chk (ev recv) fun self => do
        let vf ← getField cfg sb self meth
        callValue cfg sb ev (evalList ev) vf self args
  | .array es => evalList ev es fun vs => pure (.arr (vs.map Value.toStr), .ok)
  | .dict inline_ es =>
      if inline_ then evalSeq ev es .empty
      else do                                                         -- :515-518: a fresh `this`
        let saved := (← M.get).locals
        let r ← M.catch_ (evalSeq ev es .empty) fun err => do
          M.modify fun e => { e with locals := saved }                -- :528-532
          M.fail err
        M.modify fun e => { e with locals := saved }
        if r.2 != Code.ok then pure r else pure (.dict [], .ok)
  | .getScope s => pure (.scope s, .ok)
  | .setVar name op rhs =>                                            -- :616 VariableExpression::GetReference
      chk (ev rhs) fun v => do
        let env ← M.get
        let old ← M.catch_ (readVar name) fun _ => pure .empty       -- :623 only for `+=` …; GetField of a missing key is Empty
        let nv ← combine op old v
        (if (lookup name env.locals).isSome then writeLocal name nv
         else if (lookup name env.prot.consts).isSome || (lookup name env.prot.globals).isSome then writeGlobal name nv
         else writeLocal name nv : M Unit)
        pure (.empty, .ok)
  | .setScoped s name op rhs =>
      chk (ev rhs) fun v => do
        let old ← getField cfg sb (.scope s) name |> fun m => M.catch_ m fun _ => pure .empty
        let nv ← combine op old v
        (match s with
         | .globals => writeGlobal name nv
         | _ => writeLocal name nv : M Unit)
        pure (.empty, .ok)
  | .setField o field op rhs =>                                       -- IndexerExpression::GetReference :748-799
      -- :616 GetReference(frame, init_dict = true, …): a MISSING intermediate key is created as an empty
      -- dictionary first (:762-776) unless the frame is sandboxed and `init_dict` is forced off (:758-759)
      chk (initDict cfg sb ev o) fun _ =>
      chk (ev o) fun ov => chk (ev rhs) fun v => do
        let old ← (if op == .literal then pure Value.empty else getField cfg sb ov field : M Value)   -- :623
        let nv ← combine op old v
        (match ov with
         | .obj name => writeAttr name field nv                       -- :655 SetField
         | .scope .globals => writeGlobal field nv
         | .scope _ => writeLocal field nv
         | _ => M.fail (.script "Cannot set field on a value that is not an object.") : M Unit)
        pure (.empty, .ok)
  | .setDeref r op rhs =>                                             -- *r = …  (:180-191, :616-655)
      chk (ev r) fun rv => chk (ev rhs) fun v => do
        let old ← (if op == .literal then pure Value.empty else refRead cfg rv : M Value)
        let nv ← combine op old v
        refWrite rv nv
        pure (.empty, .ok)
  | .setConst name e =>                                               -- :674-685
      chk (ev e) fun v => do
        let env ← M.get
        if (lookup name env.prot.consts).isSome then M.fail (.script "Constants must not be modified.")
        else
          M.modify fun en => { en with prot := { en.prot with consts := upsert name v en.prot.consts } }
          pure (.empty, .ok)
  | .cond c t f => chk (ev c) fun cv =>
      if cv.toBool then ev t
      else match f with
        | some fe => ev fe
        | none => pure (.empty, .ok)
  | .while_ c body => loopWhile ev c body fuel
  | .return_ e => chk (ev e) fun v => pure (v, .return_)
  | .break_ => pure (.empty, .break_)
  | .continue_ => pure (.empty, .continue_)
  | .index a b => chk (ev a) fun x => chk (ev b) fun y => do let v ← getField cfg sb x y.toStr; pure (v, .ok)
  | .throw_ e => chk (ev e) fun v => M.fail (.script v.toStr)
  | .import_ name => chk (ev name) fun nv =>                          -- :860-881
      match nv with
      | .str n => match cfg.tmpl n with
        | none => M.fail (.script "Import references unknown template")
        | some body => chk (ev body) fun _ => pure (.empty, .ok)
      | _ => M.fail (.script "Template/object name must be a string")
  | .importDefaults => evalSeq ev cfg.defaults .empty                 -- :892-900
  | .function name params body => do                                  -- vmops.hpp:93-117 NewFunction
      M.modify fun e => { e with closures := upsert name (params, body) e.closures }
      pure (.closure name, .ok)
  | .apply_ type target name => chk (ev name) fun nv => do            -- :915-919 ApplyRule::AddRule
      M.modify fun e => { e with prot := { e.prot with items := ("apply " ++ type ++ " " ++ nv.toStr ++ " to " ++ target) :: e.prot.items } }
      pure (.empty, .ok)
  | .namespace_ body => chk (ev body) fun _ => pure (.scope .this, .ok)    -- :924-930 (inner frame inherits Sandboxed)
  | .object_ type name => chk (ev type) fun tv => chk (ev name) fun nv => do      -- :938-952 ConfigItemBuilder … Register
      M.modify fun e => { e with prot := { e.prot with items := ("object " ++ tv.toStr ++ " " ++ nv.toStr) :: e.prot.items } }
      pure (.empty, .ok)
  | .for_ kvar vvar e body => chk (ev e) fun v =>                     -- :960-963
      match v with
      | .arr l => loopFor ev kvar "" body (l.map fun s => (s, ""))
      | .dict l => loopFor ev kvar vvar body l
      | _ => M.fail (.script "Invalid type in for expression")
  | .library e => chk (ev e) fun _ => pure (.empty, .ok)              -- :971-977 (only logs)
  | .include_ k path => chk (ev path) fun pv => do                    -- :985-1046
      when_ (k == .zones) <|                                          -- HandleIncludeZones → RegisterZoneDir
        M.modify fun e => { e with prot := { e.prot with items := ("zonedir " ++ pv.toStr) :: e.prot.items } }
      let env ← M.get
      match lookup pv.toStr env.prot.files with
      | none => M.fail (.script "Include file does not exist")
      | some text => match cfg.parse text with
        | none => M.fail (.script "syntax error")
        | some body => ev body
  | .breakpoint => pure (.empty, .ok)                                 -- :1049-1054 (signal only)
  | .tryExcept t e =>                                                 -- :1056-1067
      M.catch_ (chk (ev t) fun _ => pure (.empty, .ok)) fun _ => chk (ev e) fun _ => pure (.empty, .ok)

/-- `Expression::Evaluate` (expression.cpp:40-63): depth check, then the node — whose first act, if the
    generated table says so, is the sandbox guard. -/
def eval (cfg : Cfg) (sb : Bool) : Nat → Expr → M Out
  | 0, _ => M.fail .fuel
  | n + 1, e => do
    guardCheck cfg sb e.kind
    evalNode cfg sb n (eval cfg sb n) e

/-- Is this callee a native that carries the side-effect-free flag?  (Script functions never do.) -/
def safeCallee (cfg : Cfg) : Callee → Bool
  | .native n => match cfg.native n with
    | some f => f.safe
    | none => false
  | .script _ => false

/-- What one evaluation looks like from outside. -/
inductive Outcome | ok | sandbox | hidden | err
  deriving DecidableEq, Repr

def Outcome.name : Outcome → String
  | .ok => "ok" | .sandbox => "sandbox" | .hidden => "hidden" | .err => "err"

def Outcome.ofName? : String → Option Outcome
  | "ok" => some .ok | "sandbox" => some .sandbox | "hidden" => some .hidden | "err" => some .err | _ => none

def outcomeOf {α} : Except Err α → Outcome
  | .ok _ => .ok
  | .error (.sandbox _) => .sandbox
  | .error (.notSafe _) => .sandbox
  | .error (.hidden _ _) => .hidden
  | .error _ => .err

/-- `EventsFilter::Push` (lib/remote/eventqueue.cpp:250-275), the `/v1/events` path, and likewise
    `EventQueue::ProcessEvent` (:30-56): for every subscribed filter a FRESH frame with `Sandboxed = true`
    (:253-254), the filter is evaluated on the event (:257), an error is logged and swallowed (:260-264), the
    event is delivered to the subscribers of that filter iff the filter evaluated to a true value (:257-258,
    :267-269).  Returns per filter (delivered, outcome of the evaluation) and the state afterwards — the state
    is threaded through, errors roll nothing back. -/
def pushEvent (cfg : Cfg) (fuel : Nat) : List Expr → Env → List (Bool × Outcome) × Env
  | [], env => ([], env)
  | f :: fs, env =>
    let r := eval cfg true fuel f { env with locals := [] }
    let d := match r.1 with
      | .ok (v, _) => v.toBool
      | .error _ => false
    let rest := pushEvent cfg fuel fs r.2
    ((d, outcomeOf r.1) :: rest.1, rest.2)

/-- The model's observation of running `e` sandboxed from `env`: outcome and "did protected state change". -/
def observe (cfg : Cfg) (fuel : Nat) (e : Expr) (env : Env) : Outcome × Bool :=
  let r := eval cfg true fuel e env
  (outcomeOf r.1, decide (r.2.prot ≠ env.prot))

end Icinga.C19

/-
  C19 — the property as an executable predicate over what was OBSERVED about sandboxed evaluations
  (it never looks at the model).  One observation per evaluated program:

    kind      what was evaluated: a program (statement forms), a call of one native function / prototype
              method found by reflection, or a read of one reflected field of a live object
    flagged   native: the implementation's own side-effect-free flag; field: its no_user_view attribute
    outcome   value | sandbox refusal | hidden-field refusal | other error
    changed   deep snapshot of globals+constants / config objects / data directory differs afterwards
    unsafeInvoked   a function WITHOUT the side-effect-free flag was actually invoked during the evaluation
              (observed by counting wrappers around the natives' callbacks, not by error texts)
    leak      the value handed back to the caller contains a hidden attribute's value
    matchedDespiteError   (event streams: several subscribers' filters on one event) the call site treated a filter as
              matching — the event reached that subscriber — although that filter, evaluated in a sandboxed frame,
              can only raise an error: the call site did not evaluate it sandboxed

  The property (properties.jsonl C19): sandboxed evaluation "cannot change any global variable or
  constant, configuration object, runtime attribute or file, and cannot call functions that are not
  marked side-effect free; it can only compute a value or raise an error.  It also cannot read
  attributes that are hidden from API users".
-/
import IcingaModel.C19.Model

namespace Icinga.C19

inductive OpKind | program | native | field | events
  deriving DecidableEq, Repr

structure Obs where
  kind : OpKind
  flagged : Bool
  outcome : Outcome
  changed : Bool
  leak : Bool
  unsafeInvoked : Bool := false
  matchedDespiteError : Bool := false
  deriving DecidableEq, Repr

inductive Clause | stateUnchanged | onlySafeCalls | hiddenFieldUnreadable | noLeak | sandboxedAtSite
  deriving DecidableEq, Repr

def Clause.name : Clause → String
  | .stateUnchanged => "protected_state_unchanged"
  | .onlySafeCalls => "only_side_effect_free_functions_called"
  | .hiddenFieldUnreadable => "no_user_view_field_unreadable"
  | .noLeak => "no_hidden_value_in_result"
  | .sandboxedAtSite => "evaluated_sandboxed_at_call_site"

/-- The attributes the property names outright — "attributes that are hidden from API users, such as passwords and the
    ticket salt" — PINNED here, not read from the implementation (lib/remote/apiuser.ti:14-15, lib/remote/apilistener.ti:51,
    lib/db_ido_mysql/idomysqlconnection.ti:24, lib/db_ido_pgsql/idopgsqlconnection.ti:23, lib/icingadb/icingadb.ti:23): an
    observation of a read of one of them counts as a read of a hidden field whatever flag the implementation reports. -/
def secretAttrs : List (String × String) :=
  [("ApiUser", "password"), ("ApiUser", "password_hash"), ("ApiListener", "ticket_salt"),
   ("IdoMysqlConnection", "password"), ("IdoPgsqlConnection", "password"), ("IcingaDB", "password")]

def isSecretAttr (t f : String) : Bool := secretAttrs.contains (t, f)

/-- First violated clause of one observation, if any. -/
def specStep (o : Obs) : Option Clause :=
  if o.changed then some .stateUnchanged
  else if o.unsafeInvoked || (o.kind == .native && !o.flagged && o.outcome == .ok) then some .onlySafeCalls
  else if o.kind == .field && o.flagged && o.outcome == .ok then some .hiddenFieldUnreadable
  else if o.leak then some .noLeak
  else if o.matchedDespiteError then some .sandboxedAtSite
  else none

def specTrace : List Obs → Option Clause
  | [] => none
  | o :: rest =>
    match specStep o with
    | some c => some c
    | none => specTrace rest

/-- The model's observation of a sandboxed evaluation (the model has no notion of a leaked value other
    than a successful read of a hidden field, which `hiddenFieldUnreadable` covers). -/
def modelObs (cfg : Cfg) (kind : OpKind) (flagged : Bool) (fuel : Nat) (e : Expr) (env : Env) : Obs :=
  let o := observe cfg fuel e env
  let calls := (eval cfg true fuel e env).2.calls
  { kind := kind, flagged := flagged, outcome := o.1, changed := o.2, leak := false,
    unsafeInvoked := calls.any fun c => !(env.calls.contains c) && !safeCallee cfg c }

/-- The model's observation of one event handed to several subscribers' filters (`pushEvent`): combined outcome
    (a value iff every filter yields a value, else the first refusal/error), state change and invocations of functions without the flag
    over the whole call, and "delivered although the evaluation was not a value". -/
def modelEventsObs (cfg : Cfg) (fuel : Nat) (filters : List Expr) (env : Env) : Obs :=
  let r := pushEvent cfg fuel filters env
  { kind := .events, flagged := false,
    outcome := ((r.1.map Prod.snd).find? (· != .ok)).getD .ok,
    changed := decide (r.2.prot ≠ env.prot), leak := false,
    unsafeInvoked := r.2.calls.any fun c => !(env.calls.contains c) && !safeCallee cfg c,
    matchedDespiteError := r.1.any fun p => p.1 && p.2 != .ok }

end Icinga.C19

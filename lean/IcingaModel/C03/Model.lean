/-
  C03 — notification delivery: filters, periods, per-user incident state, reminders.
  Executable transcription of
    * `Notification::BeginExecuteNotification`      lib/icinga/notification.cpp:226-501
    * `Notification::CheckNotificationUserFilters`  lib/icinga/notification.cpp:503-570
    * `Checkable::SendNotifications`                lib/icinga/checkable-notification.cpp:33-112
    * `FireSuppressedNotifications` (file-static)   lib/notification/notificationcomponent.cpp:76-124
    * `NotificationComponent::NotificationTimerHandler` lib/notification/notificationcomponent.cpp:131-262
  for ONE notification object with a list of users (user groups flattened).  Everything the code reads
  from its surroundings (checkable facts, period open/closed bits, the users' attributes, the enable
  flags) is an input (`Env`).  Core Lean only.
-/
namespace Icinga.C03

/-- lib/icinga/notification.hpp:40-51 -/
inductive NType
  | downtimeStart | downtimeEnd | downtimeRemoved | custom | ack | problem | recovery | flapStart | flapEnd
  deriving DecidableEq, Repr, Inhabited

def NType.bit : NType → Nat
  | .downtimeStart => 1 | .downtimeEnd => 2 | .downtimeRemoved => 4 | .custom => 8 | .ack => 16
  | .problem => 32 | .recovery => 64 | .flapStart => 128 | .flapEnd => 256

def NType.ofBit? : Nat → Option NType
  | 1 => some .downtimeStart | 2 => some .downtimeEnd | 4 => some .downtimeRemoved | 8 => some .custom
  | 16 => some .ack | 32 => some .problem | 64 => some .recovery | 128 => some .flapStart
  | 256 => some .flapEnd | _ => none

/-- `filter & bit` is non-zero. -/
def admits (mask bit : Nat) : Bool := (mask &&& bit) != 0

/-- `ServiceStateToFilter` / `HostStateToFilter` (notification.cpp:614-640, notification.hpp:24-35):
    OK 1, Warning 2, Critical 4, Unknown 8, Up 16, Down 32.  `state` is `service->GetState()` resp.
    `host->GetState()` as a small integer. -/
def stateBit (isHost : Bool) (state : Nat) : Nat :=
  if isHost then (if state == 0 then 16 else 32)
  else match state with | 0 => 1 | 1 => 2 | 2 => 4 | _ => 8

/-- The notification object's configuration (fixed during a case). -/
structure Cfg where
  isHost : Bool
  interval : Int
  tbegin : Option Int      -- times.begin (none = Empty)
  tend : Option Int        -- times.end
  typeFilter : Nat
  stateFilter : Nat
  deriving Repr, DecidableEq

/-- One user as the code sees it while it processes a notification. -/
structure UEnv where
  id : Nat
  enabled : Bool           -- enable_notifications
  periodOpen : Bool        -- no period, or `IsInside(now)`
  typeFilter : Nat
  stateFilter : Nat
  deriving Repr, DecidableEq

/-- What the code reads from its surroundings during one operation (oracle inputs). -/
structure Env where
  now : Int
  state : Nat              -- service->GetState() / host->GetState()
  hard : Bool              -- GetStateType() == StateTypeHard
  lhsc : Int               -- last_hard_state_change
  volatile : Bool
  reachable : Bool         -- IsReachable(DependencyNotification)
  inDowntime : Bool
  acked : Bool
  flapping : Bool
  ckProblemPending : Bool  -- checkable's suppressed_notifications has the Problem bit
  periodOpen : Bool        -- the notification's period: none, or IsInside(now)
  globalEnabled : Bool     -- IcingaApplication enable_notifications
  ckEnabled : Bool         -- checkable enable_notifications
  paused : Bool            -- the notification object is paused
  haSkip : Bool            -- a local endpoint exists and enable_ha is set (timer skips paused objects)
  likelySoon : Bool        -- IsLikelyToBeCheckedSoon()
  problemApplies : Bool    -- NotificationReasonApplies(Problem): last result exists and is not OK
  recoveryApplies : Bool   -- NotificationReasonApplies(Recovery)
  force : Bool             -- force_next_notification (read and reset by SendNotifications)
  authUpdated : Bool       -- ApiListener::UpdatedObjectAuthority(): false during the cold-start phase
  users : List UEnv        -- users ∪ members of the user groups
  deriving Repr, DecidableEq

/-- `suppressed_notifications` of the notification object (only these four bits are ever set). -/
structure Sup where
  problem : Bool := false
  recovery : Bool := false
  flapStart : Bool := false
  flapEnd : Bool := false
  deriving DecidableEq, Repr

def Sup.toNat (s : Sup) : Nat :=
  (if s.problem then 32 else 0) + (if s.recovery then 64 else 0) +
  (if s.flapStart then 128 else 0) + (if s.flapEnd then 256 else 0)

def Sup.ofNat (n : Nat) : Sup :=
  { problem := n / 32 % 2 == 1, recovery := n / 64 % 2 == 1,
    flapStart := n / 128 % 2 == 1, flapEnd := n / 256 % 2 == 1 }

def Sup.isEmpty (s : Sup) : Bool := !(s.problem || s.recovery || s.flapStart || s.flapEnd)

def Sup.has (s : Sup) : NType → Bool
  | .problem => s.problem | .recovery => s.recovery | .flapStart => s.flapStart | .flapEnd => s.flapEnd
  | _ => false

def Sup.clear (s : Sup) : NType → Sup
  | .problem => { s with problem := false } | .recovery => { s with recovery := false }
  | .flapStart => { s with flapStart := false } | .flapEnd => { s with flapEnd := false }
  | _ => s

/-- The bookkeeping attributes of the notification object (notification.ti:72-100). -/
structure St where
  npu : List Nat               -- notified_problem_users
  lns : Nat → Option Nat       -- last_notified_state_per_user
  next : Int                   -- next_notification
  noMore : Bool                -- no_more_notifications
  number : Nat                 -- notification_number
  sup : Sup                    -- suppressed_notifications
  stash : List (NType × Bool)  -- stashed_notifications: (type, force) in arrival order

def init : St := { npu := [], lns := fun _ => none, next := 0, noMore := false, number := 0, sup := {}, stash := [] }

/-- What one call of `BeginExecuteNotification` shows to the outside: for every type the call that got
    past the notification-level filters (`OnNotificationSentToAllUsers`, with the users the command was
    queued for); for Recovery also the call that did not (`OnLastNotifiedStatePerUserCleared` fires at
    the very beginning of every Recovery call). -/
structure Event where
  ty : NType
  reminder : Bool
  passed : Bool
  force : Bool          -- the call was forced (force_next_notification of the request it stems from)
  users : List Nat
  deriving Repr, DecidableEq

/-! ## BeginExecuteNotification -/

/-- notification.cpp:253-283: a non-reminder notification withheld only because the period is closed. -/
def stashSup (s : Sup) (ty : NType) (reminder : Bool) : Sup :=
  if reminder then s else
  let cancel (a : Sup) : Sup :=
    let a := if a.problem && a.recovery then { a with problem := false, recovery := false } else a
    if a.flapStart && a.flapEnd then { a with flapStart := false, flapEnd := false } else a
  match ty with
  | .problem => cancel { s with problem := true }
  | .recovery => cancel { s with recovery := true }
  | .flapStart => cancel { s with flapStart := true }
  | .flapEnd => cancel { s with flapEnd := true }
  | _ => s

/-- notification.cpp:295: `timesBegin != Empty && timesBegin >= 0 && now < lhsc + timesBegin`. -/
def beforeBegin (c : Cfg) (e : Env) : Bool :=
  match c.tbegin with
  | some b => decide (0 ≤ b) && decide (e.now < e.lhsc + b)
  | none => false

/-- notification.cpp:314: `timesEnd != Empty && timesEnd >= 0 && now > lhsc + timesEnd`. -/
def afterEnd (c : Cfg) (e : Env) : Bool :=
  match c.tend with
  | some x => decide (0 ≤ x) && decide (e.now > e.lhsc + x)
  | none => false

/-- The five notification-level guards of notification.cpp:245-376, each with its `!force`. -/
def gPeriod (force : Bool) (e : Env) : Bool := !force && !e.periodOpen
def gBegin (c : Cfg) (ty : NType) (force : Bool) (e : Env) : Bool := !force && ty == .problem && beforeBegin c e
def gEnd (c : Cfg) (ty : NType) (force : Bool) (e : Env) : Bool := !force && ty == .problem && afterEnd c e
def gType (c : Cfg) (ty : NType) (force : Bool) : Bool := !force && !admits c.typeFilter ty.bit
def gState (c : Cfg) (ty : NType) (force : Bool) (e : Env) : Bool :=
  !force && ty == .problem && !admits c.stateFilter (stateBit c.isHost e.state)

/-- notification.cpp:418-429 + 503-576: the user's enable flag (not bypassed by force) and
    `CheckNotificationUserFilters` (period, type filter, state filter for every type but Recovery). -/
def userOk (c : Cfg) (ty : NType) (force : Bool) (e : Env) (u : UEnv) : Bool :=
  u.enabled && (force || (u.periodOpen && admits u.typeFilter ty.bit &&
    (ty == .recovery || admits u.stateFilter (stateBit c.isHost e.state))))

/-- notification.cpp:431-449: Recovery / Acknowledgement only to users notified of the problem (or not
    subscribed to Problem). -/
def wasNotified (npu : List Nat) (ty : NType) (u : UEnv) : Bool :=
  !(ty == .recovery || ty == .ack) || npu.contains u.id || !admits u.typeFilter NType.problem.bit

/-- `(uint_fast8_t)GetLastNotifiedStatePerUser()->Get(userName)`: a missing entry reads as 0. -/
def lnsGet (lns : Nat → Option Nat) (u : Nat) : Nat := (lns u).getD 0

/-- notification.cpp:451-465: non-reminder, non-volatile Problem for the state the user was told last. -/
def isDup (lns : Nat → Option Nat) (ty : NType) (reminder : Bool) (e : Env) (u : UEnv) : Bool :=
  ty == .problem && !reminder && !e.volatile && e.state == lnsGet lns u.id

def lnsSet (lns : Nat → Option Nat) (u st : Nat) : Nat → Option Nat :=
  fun v => if v == u then some st else lns v

/-- notification.cpp:415-493, one iteration.  Returns npu, lns, delivered? -/
def userStep (c : Cfg) (ty : NType) (force reminder : Bool) (e : Env) (npu : List Nat) (lns : Nat → Option Nat)
    (u : UEnv) : List Nat × (Nat → Option Nat) × Bool :=
  if userOk c ty force e u && wasNotified npu ty u && !isDup lns ty reminder e u then
    if ty == .problem then
      (if npu.contains u.id then npu else npu ++ [u.id],
       if e.state != lnsGet lns u.id then lnsSet lns u.id e.state else lns, true)
    else (npu, lns, true)
  else (npu, lns, false)

/-- notification.cpp:415-493, the loop.  Returns npu, lns and the users a command was queued for. -/
def userLoop (c : Cfg) (ty : NType) (force reminder : Bool) (e : Env) :
    List Nat → (Nat → Option Nat) → List UEnv → List Nat × (Nat → Option Nat) × List Nat
  | npu, lns, [] => (npu, lns, [])
  | npu, lns, u :: rest =>
    let r := userStep c ty force reminder e npu lns u
    let q := userLoop c ty force reminder e r.1 r.2.1 rest
    (q.1, q.2.1, if r.2.2 then u.id :: q.2.2 else q.2.2)

/-- What a call that stops at a notification-level guard shows. -/
def filteredEv (ty : NType) (reminder force : Bool) : Option Event :=
  if ty == .recovery then some ⟨ty, reminder, false, force, []⟩ else none

/-- notification.cpp:383-400: the bookkeeping once the notification-level filters are passed. -/
def book (c : Cfg) (s : St) (ty : NType) (e : Env) : St :=
  { s with
    number := s.number + 1,
    noMore := if ty == .problem && decide (c.interval ≤ 0) then true
              else if ty != .custom then false else s.noMore,
    next := if ty == .problem && decide (c.interval > 0) then e.now + c.interval else s.next }

/-- notification.cpp:226-501. -/
def beginExec (c : Cfg) (s : St) (ty : NType) (force reminder : Bool) (e : Env) : St × Option Event :=
  -- 236-241
  let s : St := if ty == .recovery then { s with lns := fun _ => none } else s
  if gPeriod force e then ({ s with sup := stashSup s.sup ty reminder }, filteredEv ty reminder force)        -- 248-286
  else if gBegin c ty force e then
    ({ s with next := e.lhsc + c.tbegin.getD 0 + 1, noMore := false }, filteredEv ty reminder force)             -- 295-312
  else if gEnd c ty force e then (s, filteredEv ty reminder force)                                             -- 314-319
  else if gType c ty force then
    ({ s with noMore := if ty == .recovery && decide (c.interval ≤ 0) then false else s.noMore,
              npu := if ty == .recovery then [] else s.npu },                                             -- fix cec0506
     filteredEv ty reminder force)                                                                              -- 329-350
  else if gState c ty force e then (s, filteredEv ty reminder force)                                           -- 349-376
  else
    let s := book c s ty e
    let r := userLoop c ty force reminder e s.npu s.lns e.users
    -- 499-501: the list is cleared here and (since fix cec0506, F-C03a) on the type-filter return above; a Recovery
    -- withheld by the closed period keeps it — it is re-sent later to exactly these users
    let npu := if ty == .recovery then [] else r.1
    ({ s with npu := npu, lns := r.2.1 }, some ⟨ty, reminder, true, force, r.2.2⟩)

/-- One call of `BeginExecuteNotification` as a step: the new state and the events it shows (at most one). -/
def beginStep (c : Cfg) (ty : NType) (force reminder : Bool) (e : Env) : St → St × List Event :=
  fun s => ((beginExec c s ty force reminder e).1, (beginExec c s ty force reminder e).2.toList)

/-- Run `f`, then `g` on the resulting state; the events are concatenated. -/
def seq (f g : St → St × List Event) : St → St × List Event :=
  fun s => let a := f s; let b := g a.1; (b.1, a.2 ++ b.2)

/-! ## Checkable::SendNotifications (checkable-notification.cpp:33-112) -/

/-- checkable-notification.cpp:43-49: global / checkable switch unless forced. -/
def sendBlocked (e : Env) : Bool := !(e.globalEnabled && e.ckEnabled) && !e.force

/-- checkable-notification.cpp:66-111 for one notification object: during the cold-start phase (object authority
    not yet updated) the request is stashed; afterwards a paused object is skipped, a request that finds
    earlier ones still stashed queues up behind them, otherwise it is processed at once. -/
def sendStep (c : Cfg) (s : St) (ty : NType) (e : Env) : St × List Event :=
  if sendBlocked e then (s, [])
  else if !e.authUpdated then ({ s with stash := s.stash ++ [(ty, e.force)] }, [])
  else if e.paused then (s, [])
  else if !s.stash.isEmpty then ({ s with stash := s.stash ++ [(ty, e.force)] }, [])
  else beginStep c ty e.force false e s

/-! ## NotificationComponent: FireSuppressedNotifications + NotificationTimerHandler -/

/-- `Checkable::NotificationReasonApplies` (checkable-notification.cpp:270-291). -/
def applies (e : Env) : NType → Bool
  | .problem => e.problemApplies | .recovery => e.recoveryApplies
  | .flapStart => e.flapping | .flapEnd => !e.flapping | _ => false

/-- `Checkable::NotificationReasonSuppressed` (checkable-notification.cpp:300-312). -/
def reasonSuppressed (e : Env) : NType → Bool
  | .problem | .recovery => !e.reachable || e.inDowntime || e.acked
  | .flapStart | .flapEnd => e.inDowntime
  | _ => false

/-- notificationcomponent.cpp:97-117, one type: `fire` was decided on the types read at entry. -/
def fireOne (c : Cfg) (fire : Bool) (ty : NType) (e : Env) : St → St × List Event :=
  fun s =>
    if fire then
      let r := beginExec c { s with sup := s.sup.clear ty } ty false false e
      (r.1, r.2.toList)
    else (s, [])

/-- notificationcomponent.cpp:76-124.  The types whose reason no longer applies are dropped; the others
    are re-sent when the period is open again, no check is imminent and the type is not suppressed on
    the checkable.  (The code subtracts the dropped bits together with the first re-sent one or at the
    end; the model subtracts them first — `BeginExecuteNotification` does not read the bits while the
    period is open.) -/
def fireSup (c : Cfg) (e : Env) : St → St × List Event :=
  fun s =>
    let keep (t : NType) : Bool := s.sup.has t && applies e t
    let go : Bool := e.periodOpen && !e.likelySoon
    let fire (t : NType) : Bool := keep t && go && !reasonSuppressed e t
    let s0 : St := { s with sup := { problem := keep .problem, recovery := keep .recovery,
                                     flapStart := keep .flapStart, flapEnd := keep .flapEnd } }
    seq (fireOne c (fire .problem) .problem e)
      (seq (fireOne c (fire .recovery) .recovery e)
        (seq (fireOne c (fire .flapStart) .flapStart e) (fireOne c (fire .flapEnd) .flapEnd e))) s0

/-- notificationcomponent.cpp:146-169: paused (HA), global / checkable switch. -/
def tickSkipped (e : Env) : Bool := (e.paused && e.haSkip) || !(e.globalEnabled && e.ckEnabled)

/-- notificationcomponent.cpp:214-221. -/
def reminderDue (c : Cfg) (s : St) (e : Env) : Bool :=
  !(decide (c.interval ≤ 0) && s.noMore) && !decide (s.next > e.now)

/-- notificationcomponent.cpp:235-248. -/
def reminderAllowed (s : St) (e : Env) : Bool :=
  e.hard && !(e.state == 0) && !(e.ckProblemPending || s.sup.problem) &&
  !(!e.reachable || e.inDowntime || e.acked || e.flapping)

/-- notificationcomponent.cpp:214-260 for one notification object. -/
def reminderStep (c : Cfg) (e : Env) : St → St × List Event :=
  fun s =>
    if reminderDue c s e then
      let s1 : St := { s with next := e.now + c.interval }     -- 223-226
      if reminderAllowed s1 e then
        let r := beginExec c s1 .problem false true e           -- 255
        (r.1, r.2.toList)
      else (s1, [])
    else (s, [])

/-- notificationcomponent.cpp:187-208: the stashed requests, in arrival order, each with its own force flag. -/
def unstashList (c : Cfg) (e : Env) : List (NType × Bool) → St → St × List Event
  | [], s => (s, [])
  | (ty, force) :: rest, s => seq (beginStep c ty force false e) (unstashList c e rest) s

/-- notificationcomponent.cpp:175-209: the stash is emptied, then replayed. -/
def unstash (c : Cfg) (e : Env) : St → St × List Event :=
  fun s => unstashList c e s.stash { s with stash := [] }

/-- notificationcomponent.cpp:171-212: stashed and suppressed notifications, only while reachable. -/
def supStep (c : Cfg) (e : Env) : St → St × List Event :=
  fun s => if e.reachable then seq (unstash c e) (fireSup c e) s else (s, [])

/-- notificationcomponent.cpp:146-157: a paused object drops what is stashed once the authority is known. -/
def dropStash (s : St) (e : Env) : St := if e.paused && e.authUpdated then { s with stash := [] } else s

/-- notificationcomponent.cpp:131-262 for one (active) notification object. -/
def tickStep (c : Cfg) (s : St) (e : Env) : St × List Event :=
  if tickSkipped e then (dropStash s e, [])
  else seq (supStep c e) (reminderStep c e) (dropStash s e)

/-! ## The checkable's side of a request (checkable-notification.cpp:33-63) -/

/-- What `Checkable::SendNotifications` reads of the checkable itself before it reaches a notification object:
    `force_next_notification` (a [state] attribute: it survives reloads and restarts) and whether this notification
    object is among `GetNotifications()` at all (objects appear and disappear with config reloads, apply rules and
    API-created objects). -/
structure CkSt where
  force : Bool := false
  attached : Bool := true
  deriving DecidableEq, Repr

/-- checkable-notification.cpp:39-41: every request reads the flag and resets it, first thing — before the enable
    flags (:43-49) and before the "no notification objects" return (:55-63).  Returns the new state and the `force`
    of this request. -/
def ckRequest (k : CkSt) : CkSt × Bool := ({ k with force := false }, k.force)

/-- `SetForceNextNotification(true)`: send-custom-notification API action / SEND_CUSTOM_*_NOTIFICATION with the
    force option, right before the request it is meant for (apiactions.cpp, externalcommandprocessor.cpp). -/
def ckSetForce (k : CkSt) : CkSt := { k with force := true }

end Icinga.C03

/-
  C03 — the property as executable predicates over an observed trace.

  The observed trace is a list of operations (`send` = one `Checkable::SendNotifications`, `tick` = one run
  of the notification timer), each with the environment facts the implementation read (oracle inputs) and
  the events it produced: which notification type went to which users, whether it was a reminder, and —
  for Recovery — also the calls that were stopped by a notification-level filter.

  The property's sentences are four independent checkers, each with property-level bookkeeping of its own
  (never the model's attributes):

    * `delivery`   — first sentence: a user is notified only if every enable flag, period and filter
                     admits it; forced notifications only need the user's enable flag.
    * `recipients` — Recovery / Acknowledgement only to users who were sent a Problem for the current
                     incident (or who do not subscribe to Problem).  The incident ends when the notification
                     object processes a Recovery (sends it, or discards it by its type filter), or when the
                     checkable requests a Recovery that is dropped because notifications are switched off; a
                     Recovery that is only withheld because the notification period is closed does not end it.
    * `noDup`      — non-volatile: no non-reminder Problem to a user for the state of the Problem that user
                     was sent last, without a Recovery in between.
    * `owed`       — forced notifications out of the timer only for forced requests that could not be processed at once.
    * `reminder`   — reminders only from the timer, only in a hard problem state that is neither
                     suppressed nor flapping, never while the initial Problem is still held back (on the
                     checkable after a suppression, or on the notification object after a closed period), at least `interval` after the last (unforced) Problem of the
                     same notification object, and with `interval ≤ 0` none after a Problem until a Recovery
                     is processed (F-C03c: the code re-arms the reminder on every other type but Custom).  The last two are stated for stretches
                     without a hard state change (`last_hard_state_change` unchanged) and with a clock
                     that does not run backwards (DESIGN.md §3 Q-C03).
-/
import IcingaModel.C03.Model

namespace Icinga.C03

inductive OpKind | send | tick
  deriving DecidableEq, Repr

structure Obs where
  kind : OpKind
  env : Env
  events : List Event
  heldAfter : Bool   -- after the operation the notification object still holds back a Problem (suppressed_notifications)
  req : Option NType -- the notification type the checkable requested (`send`); `none` for a timer run
  deriving Repr

inductive Clause
  | forceClaim | forcedBypass | enableFlags | paused | notifPeriod | notifTypeFilter | notifStateFilter | timesWindow | userFilters
  | recoveryAckRecipients | duplicateProblem
  | reminderOnlyFromTimer | reminderCond | reminderBeforeHeld | reminderSpacing | reminderInterval0
  deriving Repr, DecidableEq

def Clause.name : Clause → String
  | .forceClaim => "forced_only_if_force_next_notification_was_set"
  | .forcedBypass => "forced_notification_reaches_every_enabled_user"
  | .enableFlags => "delivery_only_if_enabled_globally_and_for_checkable"
  | .paused => "paused_notification_object_sends_nothing"
  | .notifPeriod => "delivery_only_if_notification_period_open"
  | .notifTypeFilter => "delivery_only_if_notification_type_filter_admits"
  | .notifStateFilter => "problem_only_if_notification_state_filter_admits"
  | .timesWindow => "problem_only_inside_times_window"
  | .userFilters => "delivery_only_if_user_enabled_period_open_filters_admit"
  | .recoveryAckRecipients => "recovery_ack_only_to_users_sent_a_problem_this_incident"
  | .duplicateProblem => "no_duplicate_problem_for_same_state"
  | .reminderOnlyFromTimer => "reminder_only_from_timer_and_of_type_problem"
  | .reminderCond => "reminder_only_in_hard_unsuppressed_nonflapping_problem"
  | .reminderBeforeHeld => "no_reminder_while_the_initial_problem_is_held_back"
  | .reminderSpacing => "reminder_at_least_interval_after_last_problem"
  | .reminderInterval0 => "interval_zero_no_reminder_after_problem"

/-- Process the events of one operation in order; stop at the first violated clause. -/
def evFold {G : Type} (f : G → Event → Option Clause × G) : G → List Event → Option Clause × G
  | g, [] => (none, g)
  | g, ev :: rest =>
    match f g ev with
    | (some cl, g') => (some cl, g')
    | (none, g') => evFold f g' rest

/-! ### delivery (first sentence) -/

/-- times.begin / times.end window relative to the last hard state change. -/
def timesOpen (c : Cfg) (e : Env) : Bool :=
  (match c.tbegin with | some b => !(decide (0 ≤ b) && decide (e.now < e.lhsc + b)) | none => true) &&
  (match c.tend with | some x => !(decide (0 ≤ x) && decide (e.now > e.lhsc + x)) | none => true)

/-- Some user with this identity satisfies the user-level conditions. -/
def userAdmits (c : Cfg) (e : Env) (ty : NType) (force : Bool) (uid : Nat) : Bool :=
  e.users.any fun u => u.id == uid && u.enabled &&
    (force || (u.periodOpen && admits u.typeFilter ty.bit &&
      (ty == .recovery || admits u.stateFilter (stateBit c.isHost e.state))))

/-- Does the operation skip a paused notification object?  `SendNotifications` always, the timer only in
    an HA cluster. -/
def pausedFor (k : OpKind) (e : Env) : Bool :=
  match k with | .send => e.paused | .tick => e.paused && e.haSkip

/-- `ev.force`: the request the event stems from was forced.  A request processed by `SendNotifications` at
    once is forced iff force_next_notification was set; a forced event in a timer run stems from a stashed
    forced request (cold start).  The timer does not run at all for a checkable whose notifications are
    switched off, so the enable flags hold for everything it sends. -/
def deliveryEv (c : Cfg) (k : OpKind) (e : Env) (_ : Unit) (ev : Event) : Option Clause × Unit :=
  let force := ev.force
  (if !ev.passed then none
   else if force && k == .send && !e.force then some .forceClaim
   else if (!force || k == .tick) && !(e.globalEnabled && e.ckEnabled) then some .enableFlags
   else if pausedFor k e then some .paused
   else if !force && !e.periodOpen then some .notifPeriod
   else if !force && !admits c.typeFilter ev.ty.bit then some .notifTypeFilter
   else if !force && ev.ty == .problem && !admits c.stateFilter (stateBit c.isHost e.state) then some .notifStateFilter
   else if !force && ev.ty == .problem && !timesOpen c e then some .timesWindow
   else if !ev.users.all (userAdmits c e ev.ty force) then some .userFilters
   else none, ())

/-! ### recipients (second sentence, first half) -/

/-- Some user with this identity does not subscribe to Problem. -/
def notSubscribed (e : Env) (uid : Nat) : Bool :=
  e.users.any fun u => u.id == uid && !admits u.typeFilter NType.problem.bit

/-- A Recovery that is merely withheld: unforced, while the notification period is closed.  It does not end
    the incident — it is kept and re-sent later to exactly the users of the incident (or neutralised by a new
    Problem, in which case those users were never told that the problem ended). -/
def recoveryWithheld (e : Env) (ev : Event) : Bool := !ev.force && !e.periodOpen

/-- `ps`: users sent a Problem for the current incident, i.e. since the last Recovery the notification object
    processed (sent to its users, or discarded by its type filter). -/
def recipientsEv (e : Env) (ps : List Nat) (ev : Event) : Option Clause × List Nat :=
  (if ev.passed && (ev.ty == .recovery || ev.ty == .ack) &&
      !ev.users.all (fun uid => ps.contains uid || notSubscribed e uid) then some .recoveryAckRecipients else none,
   if ev.ty == .recovery then (if !ev.passed && recoveryWithheld e ev then ps else [])
   else if ev.ty == .problem && ev.passed then ev.users ++ ps else ps)

/-! ### noDup (second sentence, second half) -/

/-- `ls`: the state of the Problem each user was sent last since the last Recovery. -/
def noDupUsers (check : Bool) (state : Nat) : (Nat → Option Nat) → List Nat → Option Clause × (Nat → Option Nat)
  | ls, [] => (none, ls)
  | ls, uid :: rest =>
    if check && ls uid == some state then (some .duplicateProblem, ls)
    else noDupUsers check state (lnsSet ls uid state) rest

def noDupEv (e : Env) (ls : Nat → Option Nat) (ev : Event) : Option Clause × (Nat → Option Nat) :=
  if ev.ty == .recovery then (none, fun _ => none)
  else if ev.ty == .problem && ev.passed then noDupUsers (!ev.reminder && !e.volatile) e.state ls ev.users
  else (none, ls)

/-! ### reminder (third sentence) -/

structure RemSt where
  lastProb : Option (Int × Int) := none   -- (time, last_hard_state_change) of the last unforced Problem that was sent
  quiet : Bool := false                   -- … and no other type (but Custom) or Recovery was processed since
  deriving Repr, DecidableEq

/-- At the start of an operation: the spacing obligations only span stretches without a hard state change
    and without the clock running backwards. -/
def remValidate (e : Env) (g : RemSt) : RemSt :=
  match g.lastProb with
  | some (t1, l) => if l == e.lhsc && decide (t1 ≤ e.now) then g else {}
  | none => g

def remCondOk (e : Env) : Bool :=
  e.hard && !(e.state == 0) && e.reachable && !e.inDowntime && !e.acked && !e.flapping

def remSpacingOk (c : Cfg) (e : Env) (g : RemSt) : Bool :=
  match g.lastProb with
  | some (t1, _) => decide (c.interval ≤ 0) || decide (t1 + c.interval ≤ e.now)
  | none => true

def remInterval0Ok (c : Cfg) (g : RemSt) : Bool :=
  !(decide (c.interval ≤ 0) && g.quiet && g.lastProb.isSome)

/-- `strict = true` is the specification: with `interval ≤ 0` the object stays `quiet` from the (unforced) Problem until
    a Recovery is processed — "none once a Problem has been sent for the incident".  `strict = false` is the weaker
    reading the code implements (any other notification type but Custom re-arms the reminder: notification.cpp:394-397);
    it is not part of the specification — it is proved of the model without hypothesis, and the driver runs it beside
    the strict one to tell the known finding F-C03c from any other violation of the clause. -/
def reminderEv (strict : Bool) (c : Cfg) (k : OpKind) (e : Env) (g : RemSt) (ev : Event) : Option Clause × RemSt :=
  (if !ev.reminder then none
   else if !(k == .tick && ev.ty == .problem) then some .reminderOnlyFromTimer
   else if !remCondOk e then some .reminderCond
   else if e.ckProblemPending then some .reminderBeforeHeld
   else if !remSpacingOk c e g then some .reminderSpacing
   else if !remInterval0Ok c g then some .reminderInterval0
   else none,
   if !ev.passed then { g with quiet := false }
   else if ev.ty == .problem then (if ev.force then g else { lastProb := some (e.now, e.lhsc), quiet := true })
   else if ev.ty == .custom then g
   else if ev.ty == .recovery || !strict then { g with quiet := false }
   else g)

/-- With `interval ≤ 0`: a notification of a type other than Problem, Custom and Recovery that passes the
    notification-level filters — the code re-arms the reminder here (F-C03c). -/
def rearms (c : Cfg) (ev : Event) : Bool :=
  decide (c.interval ≤ 0) && ev.passed && !(ev.ty == .problem || ev.ty == .custom || ev.ty == .recovery)

/-- A reminder never overtakes the initial Problem: not while the checkable still holds one back (clause in
    `reminderEv`: the pending bit of the checkable is an environment fact), and not while the notification
    object itself holds one back because its period was closed — after an operation that sent a reminder the
    object holds no Problem back. -/
def heldObs (o : Obs) : Option Clause :=
  if o.heldAfter && o.events.any (fun ev => ev.reminder) then some .reminderBeforeHeld else none

def heldTrace : List Obs → Option Clause
  | [] => none
  | o :: rest => match heldObs o with | some cl => some cl | none => heldTrace rest

/-! ### forced notifications out of the timer -/

/-- The timer itself never forces anything: a forced notification in a timer run is the late processing of a forced
    REQUEST the notification object could not process at once (cold-start phase, or queued behind stashed requests).
    `owed`: the types of the forced requests (`env.force` of a request = its request was forced) that produced no
    notification when they arrived.  A forced event of a timer run must be of such a type. -/
def owedObs (owed : List NType) (o : Obs) : Option Clause × List NType :=
  match o.kind with
  | .send => (none, if o.env.force && !o.events.any (fun ev => ev.passed) then o.req.toList ++ owed else owed)
  | .tick => (if o.events.all (fun ev => !ev.force || owed.contains ev.ty) then none else some .forceClaim, owed)

/-! ### forced notifications bypass every filter except the user's enable flag -/

/-- The types without per-user incident rules (a forced Problem may still be withheld as a duplicate, a forced Recovery /
    Acknowledgement from users who were not told about the problem). -/
def plainType (ty : NType) : Bool := !(ty == .problem || ty == .recovery || ty == .ack)

/-- "forced notifications bypass every filter except the user's enable flag", the positive half: a forced notification of
    such a type that is sent at all is sent to EVERY attached user whose enable flag is set — no period, type filter or
    state filter of a user keeps it away. -/
def bypassEv (e : Env) (ev : Event) : Bool :=
  !(ev.passed && ev.force && plainType ev.ty) || e.users.all (fun u => !u.enabled || ev.users.contains u.id)

def bypassObs (o : Obs) : Bool := o.events.all (bypassEv o.env)

def bypassTrace : List Obs → Bool
  | [] => true
  | o :: rest => bypassObs o && bypassTrace rest

/-! ### the checkers over a trace, and their conjunction -/

/-- Run a checker (bookkeeping `G`, one step per observed operation) over a trace. -/
def runTrace {G : Type} (step : G → Obs → Option Clause × G) : G → List Obs → Option Clause
  | _, [] => none
  | g, o :: rest =>
    match step g o with
    | (some cl, _) => some cl
    | (none, g') => runTrace step g' rest

/-- The checkable announced the end of the incident — it requested a Recovery notification — while notifications
    were switched off (globally or for the checkable) and the request was not forced: `SendNotifications` drops the
    request, nobody is told, and the incident is over all the same.  Users who were sent a Problem before this point
    were not "sent a Problem for the current incident" when the next incident's Acknowledgement / Recovery goes out
    (F-C03b: the code keeps notified_problem_users across the dropped request).  A paused notification object is
    exempt, as it is for a request that is not dropped: its bookkeeping is the business of the node that has the
    authority (cluster sync, not modelled). -/
def recoveryDropped (o : Obs) : Bool :=
  o.kind == .send && o.req == some .recovery && !o.env.force && !(o.env.globalEnabled && o.env.ckEnabled) && !o.env.paused

def deliveryObs (c : Cfg) (g : Unit) (o : Obs) : Option Clause × Unit := evFold (deliveryEv c o.kind o.env) g o.events
def recipientsObs (ps : List Nat) (o : Obs) : Option Clause × List Nat :=
  evFold (recipientsEv o.env) (if recoveryDropped o then [] else ps) o.events
/-- The weaker reading (the incident ends only with a Recovery the notification object processed).  Not part of the
    specification: the driver runs it beside `recipientsObs` to tell the known finding F-C03b (this one accepts, the
    specification rejects) from any other violation of the clause. -/
def recipientsObsLoose (ps : List Nat) (o : Obs) : Option Clause × List Nat := evFold (recipientsEv o.env) ps o.events
/-- A dropped Recovery request also is "a recovery in between" for the duplicate clause (the bookkeeping forgets,
    i.e. the clause demands less — the code happens to remember, and withholds the next incident's Problem). -/
def noDupObs (ls : Nat → Option Nat) (o : Obs) : Option Clause × (Nat → Option Nat) :=
  evFold (noDupEv o.env) (if recoveryDropped o then fun _ => none else ls) o.events
def reminderObsOf (strict : Bool) (c : Cfg) (g : RemSt) (o : Obs) : Option Clause × RemSt :=
  evFold (reminderEv strict c o.kind o.env) (remValidate o.env g) o.events
def reminderObs (c : Cfg) (g : RemSt) (o : Obs) : Option Clause × RemSt := reminderObsOf true c g o
def reminderObsLoose (c : Cfg) (g : RemSt) (o : Obs) : Option Clause × RemSt := reminderObsOf false c g o

def deliveryTrace (c : Cfg) (tr : List Obs) : Option Clause := runTrace (deliveryObs c) () tr
def recipientsTrace (tr : List Obs) : Option Clause := runTrace recipientsObs [] tr
def noDupTrace (tr : List Obs) : Option Clause := runTrace noDupObs (fun _ => none) tr
def reminderTrace (c : Cfg) (tr : List Obs) : Option Clause := runTrace (reminderObs c) {} tr
def reminderTraceLoose (c : Cfg) (tr : List Obs) : Option Clause := runTrace (reminderObsLoose c) {} tr
def owedTrace (tr : List Obs) : Option Clause := runTrace owedObs [] tr

/-- The whole property on a trace: the first violated clause of the four checkers, if any. -/
def specTrace (c : Cfg) (tr : List Obs) : Option Clause :=
  match deliveryTrace c tr with
  | some cl => some cl
  | none =>
    match recipientsTrace tr with
    | some cl => some cl
    | none =>
      match noDupTrace tr with
      | some cl => some cl
      | none =>
        match reminderTrace c tr with
        | some cl => some cl
        | none =>
          match heldTrace tr with
          | some cl => some cl
          | none =>
            match owedTrace tr with
            | some cl => some cl
            | none => if bypassTrace tr then none else some .forcedBypass

/-- Incremental form used by the driver (one operation at a time; same checkers, same bookkeeping). -/
structure SpecSt where
  ps : List Nat := []
  ls : Nat → Option Nat := fun _ => none
  rem : RemSt := {}
  owed : List NType := []

def specStep (c : Cfg) (sp : SpecSt) (o : Obs) : List Clause × SpecSt :=
  let d := deliveryObs c () o
  let r := recipientsObs sp.ps o
  let n := noDupObs sp.ls o
  let m := reminderObs c sp.rem o
  let w := owedObs sp.owed o
  (d.1.toList ++ r.1.toList ++ n.1.toList ++ m.1.toList ++ (heldObs o).toList ++ w.1.toList ++
     (if bypassObs o then [] else [Clause.forcedBypass]),
   { ps := r.2, ls := n.2, rem := m.2, owed := w.2 })

/-! ### the model's trace -/

/-- Operations: one `SendNotifications(type)` or one run of the notification timer, each with the
    environment the code reads while it runs. -/
inductive Op
  | send (ty : NType) (e : Env)
  | tick (e : Env)
  deriving Repr

def applyOp (c : Cfg) (s : St) : Op → St × Obs
  | .send ty e => let r := sendStep c s ty e; (r.1, ⟨.send, e, r.2, r.1.sup.problem, some ty⟩)
  | .tick e => let r := tickStep c s e; (r.1, ⟨.tick, e, r.2, r.1.sup.problem, none⟩)

def traceOf (c : Cfg) : St → List Op → List Obs
  | _, [] => []
  | s, op :: rest => let p := applyOp c s op; p.2 :: traceOf c p.1 rest

/-! ### the checkable's side: one-shot force, notification objects that appear later

  "Forced notifications bypass every filter": a notification is forced when the REQUEST it stems from was forced — a
  requester set force_next_notification (`setForce`) for it.  The flag belongs to the next request of the checkable and to
  that one only, whether or not the request reaches a notification object (a checkable without notification objects, or
  whose objects are attached later).  The specification therefore derives "this request was forced" from the observed
  sequence of operations itself (`reqForced`), never from the implementation's flag. -/

/-- Operations at the level of the checkable. -/
inductive COp
  | setForce                     -- SetForceNextNotification(true) by a requester
  | attach (b : Bool)            -- the notification object is registered with / removed from the checkable
  | send (ty : NType) (e : Env)  -- a request; `e.force` is NOT an input here, the model supplies the checkable's flag
  | tick (e : Env)               -- a run of the notification timer
  deriving Repr

/-- What is observed at the level of the checkable. -/
inductive CObs
  | setForce          -- a requester set force_next_notification
  | unseen            -- a request of the checkable while the notification object was not registered with it
  | op (o : Obs)      -- a request / timer run the notification object saw
  deriving Repr

def cApply (c : Cfg) (k : CkSt) (s : St) : COp → (CkSt × St) × Option CObs
  | .setForce => ((ckSetForce k, s), some .setForce)
  | .attach b => (({ k with attached := b }, s), none)
  | .send ty e =>
    let r := ckRequest k
    if k.attached then
      let p := applyOp c s (.send ty { e with force := r.2 })
      ((r.1, p.1), some (.op p.2))
    else ((r.1, s), some .unseen)
  | .tick e =>
    -- the timer walks the existing notification objects (notificationcomponent.cpp:138-140)
    if k.attached then let p := applyOp c s (.tick e); ((k, p.1), some (.op p.2)) else ((k, s), none)

def crun (c : Cfg) : CkSt → St → List COp → CkSt × St
  | k, s, [] => (k, s)
  | k, s, op :: rest => let r := cApply c k s op; crun c r.1.1 r.1.2 rest

def ctraceOf (c : Cfg) : CkSt → St → List COp → List CObs
  | _, _, [] => []
  | k, s, op :: rest =>
    let r := cApply c k s op
    match r.2 with
    | some o => o :: ctraceOf c r.1.1 r.1.2 rest
    | none => ctraceOf c r.1.1 r.1.2 rest

/-- The specification's own notion of "this request was forced": a `setForce` was observed since the checkable's
    previous request (seen by the notification object or not).  Returns the per-object trace in which every request
    carries that bit as `env.force`. -/
def reqForced : Bool → List CObs → List Obs
  | _, [] => []
  | _, .setForce :: rest => reqForced true rest
  | _, .unseen :: rest => reqForced false rest
  | p, .op o :: rest =>
    match o.kind with
    | .send => { o with env := { o.env with force := p } } :: reqForced false rest
    | .tick => o :: reqForced p rest

/-- The whole property on a checkable-level trace. -/
def specTraceC (c : Cfg) (tr : List CObs) : Option Clause := specTrace c (reqForced false tr)

end Icinga.C03

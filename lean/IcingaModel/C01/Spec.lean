/-
  C01 — the property as an executable predicate over an *observed* trace (result, observation),
  written at the level of properties.jsonl: consecutive non-OK results since the last OK/Up.
  It never looks at the model; the driver evaluates it on the implementation's trace and the
  theorems in IcingaProofs/C01.lean show that every trace of the model satisfies it.
-/
import IcingaModel.C01.Model

namespace Icinga.C01

/-- Specification bookkeeping: what a reader of the history knows. -/
structure SpecSt where
  everOk : Bool      -- an OK/Up result has been seen
  streak : Nat       -- consecutive non-OK results since the last OK/Up (since the start if none yet)
  prev : SState      -- raw state of the previous result
  deriving Repr, DecidableEq

def specInit : SpecSt := { everOk := false, streak := 0, prev := .unknown }

def specNext (c : Cfg) (sp : SpecSt) (r : SState) : SpecSt :=
  if isOK c.kind r then { everOk := true, streak := 0, prev := r }
  else { sp with streak := sp.streak + 1, prev := r }

/-- Expected event, `none` = not constrained: a volatile object that is in a soft state *after* the
    result (the quantifier's "events emitted while in a soft state").  The last retry and the return
    from a soft state to OK/Up leave the object hard, so they are constrained for volatile objects too. -/
def specEvent (c : Cfg) (n n' : Nat) (prev new : SState) : Option Ev :=
  if c.volatile && (0 < n' && n' < c.max) then none
  else
    let lastRetry := n < c.max && n' == c.max
    let hardToOtherHard := c.max ≤ n && c.max ≤ n' && proj c.kind prev != proj c.kind new
    let recovery := 1 ≤ n && n' == 0
    let volatileRepeat := c.volatile && c.max ≤ n && 0 < n'
    if lastRetry || hardToOtherHard || recovery || volatileRepeat then some .hard
    else if proj c.kind prev != proj c.kind new || (0 < n' && n' < c.max) then some .soft
    else some .none

/-- Clauses of the property; the driver reports the first one that fails by name. -/
inductive Clause
  | okHardAttempt1 | hardAttempt1 | attemptRange | hardAfterMax
  | streakHard | streakSoft | event | stateRecorded | droppedAlthoughNotOlder
  | droppedChangesSomething | apiProjection | varsAfter | lastState
  | lastHardAtHardEvent | lastHardUnchanged | previousHardState | previousHardUnchanged
  | concurrentSerial | eventOvertaken
  deriving Repr, DecidableEq

def Clause.name : Clause → String
  | .okHardAttempt1 => "ok_implies_hard_attempt1"
  | .hardAttempt1 => "hard_implies_attempt1"
  | .attemptRange => "attempt_in_1_max"
  | .hardAfterMax => "hard_after_max_nonok"
  | .streakHard => "streak_0_or_ge_max_is_hard_attempt1"
  | .streakSoft => "streak_below_max_is_soft_attempt_eq_streak"
  | .event => "state_change_event"
  | .stateRecorded => "state_is_latest_result"
  | .droppedAlthoughNotOlder => "result_not_older_than_the_latest_is_processed"
  | .droppedChangesSomething => "dropped_result_changes_nothing"
  | .apiProjection => "api_state_is_projection_of_raw_state"
  | .varsAfter => "vars_after_is_state_after_result"
  | .lastState => "last_state_is_state_of_previous_result"
  | .lastHardAtHardEvent => "hard_event_records_last_hard_state"
  | .lastHardUnchanged => "last_hard_state_changes_only_with_hard_event"
  | .previousHardState => "previous_hard_state_is_hard_state_before_latest_hard_event"
  | .previousHardUnchanged => "previous_hard_state_changes_only_with_hard_event"
  | .concurrentSerial => "concurrent_results_count_as_a_sequence"
  | .eventOvertaken => "state_change_event_of_overtaken_result"

/-- May a result be dropped?  Only when it is strictly older than the latest accepted one
    (with non-decreasing timestamps every result is processed). -/
def mayDrop (lastExec : Option Int) (execStart : Int) : Bool :=
  match lastExec with
  | none => false
  | some cur => decide (execStart < cur)

/-- Check one accepted result against the property.  `sp` is the bookkeeping *before* the result. -/
def specStep (c : Cfg) (sp : SpecSt) (r : SState) (o : Obs) : Option Clause :=
  let okNew := isOK c.kind r
  let sp' := specNext c sp r
  let n' := sp'.streak
  if o.state != r then some .stateRecorded
  else if okNew && !(o.stype == .hard && o.attempt == 1) then some .okHardAttempt1
  else if o.stype == .hard && o.attempt != 1 then some .hardAttempt1
  else if !(1 ≤ o.attempt && o.attempt ≤ c.max) then some .attemptRange
  else if c.max ≤ n' && o.stype != .hard then some .hardAfterMax
  else if sp'.everOk && (n' == 0 || c.max ≤ n') && !(o.stype == .hard && o.attempt == 1) then some .streakHard
  else if sp'.everOk && (0 < n' && n' < c.max) && !(o.stype == .soft && o.attempt == n') then some .streakSoft
  else if sp.everOk && (match specEvent c sp.streak n' sp.prev r with
                        | none => false
                        | some e => e != o.ev) then some .event
  else none

/-- Check the accepted results of a trace against the state/attempt/event clauses only (kept for the
    refinement lemma; the full specification is `specFull` below). -/
def specTrace (c : Cfg) : SpecSt → List (SState × Obs) → Option Clause
  | _, [] => none
  | sp, (r, o) :: rest =>
    match specStep c sp r o with
    | some cl => some cl
    | none => specTrace c (specNext c sp r) rest

/-! ## The hard-state bookkeeping ("the hard state changes exactly with a hard event") and dropped results

These clauses relate *observations* of one trace to each other: the hard state an object shows
(`last_hard_state`), the one before it (`previous_hard_state` of the check result), the previous state
(`last_state`), and the events. -/

/-- What a reader of the trace remembers beside the streak. -/
structure HistSt where
  last : Option Obs        -- previous observation (or the known start state); `none` = never-checked object
  hardAt : Option SState   -- state of the result at the most recent hard event (or the known start hard state)
  lastExec : Option Int    -- execution start of the latest accepted result
  deriving Repr

def histInit : HistSt := { last := none, hardAt := none, lastExec := none }

/-- Projection of a raw state number (99 = "never" has none). -/
def projN (k : Kind) (n : Nat) : Option Nat := (SState.ofNat? n).map (proj k)

def histStep (c : Cfg) (h : HistSt) (r : SState) (o : Obs) : Option Clause :=
  if o.apiState != proj c.kind r || o.apiLastHard != proj c.kind o.lastHard then some .apiProjection
  else if !(o.vaState == o.state.toNat && o.vaType == o.stype.toNat && o.vaAttempt == o.attempt) then some .varsAfter
  else if o.ev == .hard && proj c.kind o.lastHard != proj c.kind r then some .lastHardAtHardEvent
  else if o.ev == .hard && (match h.hardAt with
                            | some x => projN c.kind o.prevHard != some (proj c.kind x)
                            | none => false) then some .previousHardState
  else match h.last with
    | none => none
    | some lo =>
      if o.apiLastState != proj c.kind lo.state then some .lastState
      else if o.ev != .hard && proj c.kind o.lastHard != proj c.kind lo.lastHard then some .lastHardUnchanged
      else if o.ev != .hard && !c.volatile && projN c.kind o.prevHard != projN c.kind lo.prevHard then
        some .previousHardUnchanged
      else none

def histNext (h : HistSt) (r : Res) (o : Obs) : HistSt :=
  { last := some o, hardAt := if o.ev == .hard then some r.state else h.hardAt, lastExec := some r.execStart }

/-- Two observations show the same object state (everything but `accepted` and the event). -/
def sameState (a b : Obs) : Bool :=
  a.state == b.state && a.stype == b.stype && a.attempt == b.attempt && a.lastHard == b.lastHard &&
  a.prevHard == b.prevHard && a.vaState == b.vaState && a.vaType == b.vaType && a.vaAttempt == b.vaAttempt &&
  a.apiState == b.apiState && a.apiLastState == b.apiLastState && a.apiLastHard == b.apiLastHard

/-- A result that was not processed: it must be strictly older than the latest accepted one, report no
    event and leave every observable as it was. -/
def dropStep (h : HistSt) (r : Res) (o : Obs) : Option Clause :=
  if !mayDrop h.lastExec r.execStart then some .droppedAlthoughNotOlder
  else if o.ev != .none then some .droppedChangesSomething
  else match h.last with
    | none => none
    | some lo => if sameState lo o then none else some .droppedChangesSomething

/-- One line of the trace against the whole specification; returns the advanced bookkeeping too. -/
def fullStep (c : Cfg) (sp : SpecSt) (h : HistSt) (r : Res) (o : Obs) : Option Clause × SpecSt × HistSt :=
  if o.accepted then
    ((specStep c sp r.state o).or (histStep c h r.state o), specNext c sp r.state, histNext h r o)
  else
    (dropStep h r o, sp, h)

/-- The whole specification over a whole trace (accepted and dropped results). -/
def specFull (c : Cfg) : SpecSt → HistSt → List (Res × Obs) → Option Clause
  | _, _, [] => none
  | sp, h, (r, o) :: rest =>
    match fullStep c sp h r o with
    | (some cl, _, _) => some cl
    | (none, sp', h') => specFull c sp' h' rest

/-! ## Two results processed concurrently

"After any sequence of check results": results that are processed at the same time still form a sequence —
the object must end up as after one of the two orders, and each result must have reported a hard event exactly
when the rule demands one at its place in that order.  Only what the implementation fixes while it holds the
object lock is read (state, type, attempt, recorded hard state, hard events). -/

/-- What is observed once both calls have returned. -/
structure PairObs where
  accA : Bool
  accB : Bool
  state : SState
  stype : SType
  attempt : Nat
  lastHard : SState
  hardA : Nat      -- 0 no hard event for A, 1 exactly one, 9 more than one event
  hardB : Nat
  deriving Repr, DecidableEq

/-- Does the hard-event flag contradict the expected event? -/
def hardBad (e : Option Ev) (h : Nat) : Bool :=
  match e with
  | none => decide (1 < h)
  | some .hard => h != 1
  | some _ => h != 0

/-- The observation of the final state, with the event the rule expects filled in (the event of the second
    result is judged through its hard flag). -/
def pairFinalObs (c : Cfg) (po : PairObs) (e : Option Ev) : Obs :=
  { accepted := true, state := po.state, stype := po.stype, attempt := po.attempt, lastHard := po.lastHard,
    ev := e.getD .none, prevHard := 99, vaState := po.state.toNat, vaType := po.stype.toNat, vaAttempt := po.attempt,
    apiState := proj c.kind po.state, apiLastState := 0, apiLastHard := proj c.kind po.lastHard }

/-- The pair read as the sequence `x` then `y` (`hx`, `hy` their hard flags). -/
def pairOrder (c : Cfg) (sp : SpecSt) (x y : SState) (po : PairObs) (hx hy : Nat) : Option Clause :=
  let sp1 := specNext c sp x
  let sp2 := specNext c sp1 y
  let e1 := specEvent c sp.streak sp1.streak sp.prev x
  let e2 := specEvent c sp1.streak sp2.streak x y
  if sp.everOk && hardBad e1 hx then some .event
  else if sp1.everOk && hardBad e2 hy then some .event
  else if hy == 1 && proj c.kind po.lastHard != proj c.kind y then some .lastHardAtHardEvent
  else specStep c sp1 y (pairFinalObs c po e2)

/-- Two concurrently processed results, both accepted: one of the two orders explains the observation. -/
def specPair (c : Cfg) (sp : SpecSt) (a b : SState) (po : PairObs) : Option Clause :=
  match pairOrder c sp a b po po.hardA po.hardB with
  | none => none
  | some _ =>
    match pairOrder c sp b a po po.hardB po.hardA with
    | none => none
    | some _ => some .concurrentSerial

/-- The whole clause for an `X` operation: none of the two may be dropped unless it is strictly older than the
    latest accepted result (both carry the same execution start). -/
def pairStep (c : Cfg) (sp : SpecSt) (lastExec : Option Int) (a b : SState) (execStart : Int) (po : PairObs) : Option Clause :=
  if (!po.accA || !po.accB) && !mayDrop lastExec execStart then some .droppedAlthoughNotOlder
  else if !po.accA || !po.accB then none
  else specPair c sp a b po

/-- A result whose state-change report was overtaken by the next result (it was held by a subscriber of
    its new-check-result signal): the same specification; a wrong event is reported under its own name
    (F-C01a, repaired by b75b8e7: the report must not depend on what the overtaking result wrote). -/
def overtakenStep (c : Cfg) (sp : SpecSt) (h : HistSt) (r : Res) (o : Obs) : Option Clause × SpecSt × HistSt :=
  match fullStep c sp h r o with
  | (some .event, sp', h') => (some .eventOvertaken, sp', h')
  | x => x

/-! ## Start states other than the never-checked one (state file, cluster sync)

A start state of the shape the state machine itself produces determines the streak: (OK/Up, hard, 1)
is streak 0; (non-OK, soft, a) with a < max is streak a; (non-OK, hard, 1) is a streak ≥ max.  From such
a state everything is required at once; from any other state only the universal invariants until the
first OK/Up result. -/
def specStart (c : Cfg) (s : St) : SpecSt :=
  if isOK c.kind s.state && s.stype == .hard && s.attempt == 1 then
    { everOk := true, streak := 0, prev := s.state }
  else if !isOK c.kind s.state && s.stype == .soft && 1 ≤ s.attempt && s.attempt < c.max then
    { everOk := true, streak := s.attempt, prev := s.state }
  else if !isOK c.kind s.state && s.stype == .hard && s.attempt == 1 then
    { everOk := true, streak := c.max, prev := s.state }
  else { specInit with prev := s.state }

/-- Is the recorded hard state of the start state usable as "the hard state so far"?  (For a volatile
    object every result overwrites it, so it has to agree with the state.) -/
def startKnown (c : Cfg) (s : St) : Bool :=
  !c.volatile || proj c.kind s.lastHard == proj c.kind s.state

def histStart (c : Cfg) (s : St) : HistSt :=
  if startKnown c s then
    { last := some (stObs c s),
      hardAt := if s.hist / 100 == s.lastHard.toNat then some s.lastHard else none,
      lastExec := s.lastExec }
  else { last := none, hardAt := none, lastExec := s.lastExec }

end Icinga.C01

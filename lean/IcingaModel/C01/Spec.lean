/-
  C01 — the property as an executable predicate over an *observed* trace (result, observation),
  written at the level of properties.jsonl: consecutive non-OK results since the last OK/Up.
  It never looks at the model; the driver evaluates it on the implementation's trace and the
  theorems in IcingaProofs/C01.lean show that every trace of the model satisfies it.
-/
import IcingaModel.C01.Model

namespace Icinga.C01

/-- Specification bookkeeping: what a reader of the history knows. -/
structure SpecSt where
  everOk : Bool      -- an OK/Up result has been seen
  streak : Nat       -- consecutive non-OK results since the last OK/Up (since the start if none yet)
  prev : SState      -- raw state of the previous result
  deriving Repr, DecidableEq

def specInit : SpecSt := { everOk := false, streak := 0, prev := .unknown }

def specNext (c : Cfg) (sp : SpecSt) (r : SState) : SpecSt :=
  if isOK c.kind r then { everOk := true, streak := 0, prev := r }
  else { sp with streak := sp.streak + 1, prev := r }

/-- Expected event, `none` = not constrained (volatile object in or entering a soft state). -/
def specEvent (c : Cfg) (n n' : Nat) (prev new : SState) : Option Ev :=
  if c.volatile && ((0 < n && n < c.max) || (0 < n' && n' < c.max)) then none
  else
    let lastRetry := n < c.max && n' == c.max
    let hardToOtherHard := c.max ≤ n && c.max ≤ n' && proj c.kind prev != proj c.kind new
    let recovery := 1 ≤ n && n' == 0
    let volatileRepeat := c.volatile && c.max ≤ n && 0 < n'
    if lastRetry || hardToOtherHard || recovery || volatileRepeat then some .hard
    else if proj c.kind prev != proj c.kind new || (0 < n' && n' < c.max) then some .soft
    else some .none

/-- Clauses of the property; the driver reports the first one that fails by name. -/
inductive Clause
  | okHardAttempt1 | hardAttempt1 | attemptRange | hardAfterMax
  | streakHard | streakSoft | event | stateRecorded | droppedAlthoughNotOlder
  deriving Repr, DecidableEq

def Clause.name : Clause → String
  | .okHardAttempt1 => "ok_implies_hard_attempt1"
  | .hardAttempt1 => "hard_implies_attempt1"
  | .attemptRange => "attempt_in_1_max"
  | .hardAfterMax => "hard_after_max_nonok"
  | .streakHard => "streak_0_or_ge_max_is_hard_attempt1"
  | .streakSoft => "streak_below_max_is_soft_attempt_eq_streak"
  | .event => "state_change_event"
  | .stateRecorded => "state_is_latest_result"
  | .droppedAlthoughNotOlder => "result_not_older_than_the_latest_is_processed"

/-- May a result be dropped?  Only when it is strictly older than the latest accepted one
    (with non-decreasing timestamps every result is processed). -/
def mayDrop (lastExec : Option Int) (execStart : Int) : Bool :=
  match lastExec with
  | none => false
  | some cur => decide (execStart < cur)

/-- Check one accepted result against the property.  `sp` is the bookkeeping *before* the result. -/
def specStep (c : Cfg) (sp : SpecSt) (r : SState) (o : Obs) : Option Clause :=
  let okNew := isOK c.kind r
  let sp' := specNext c sp r
  let n' := sp'.streak
  if o.state != r then some .stateRecorded
  else if okNew && !(o.stype == .hard && o.attempt == 1) then some .okHardAttempt1
  else if o.stype == .hard && o.attempt != 1 then some .hardAttempt1
  else if !(1 ≤ o.attempt && o.attempt ≤ c.max) then some .attemptRange
  else if c.max ≤ n' && o.stype != .hard then some .hardAfterMax
  else if sp'.everOk && (n' == 0 || c.max ≤ n') && !(o.stype == .hard && o.attempt == 1) then some .streakHard
  else if sp'.everOk && (0 < n' && n' < c.max) && !(o.stype == .soft && o.attempt == n') then some .streakSoft
  else if sp.everOk && (match specEvent c sp.streak n' sp.prev r with
                        | none => false
                        | some e => e != o.ev) then some .event
  else none

/-- Check a whole trace (only accepted results count; a dropped result must change nothing,
    which the driver checks separately against the previous observation). -/
def specTrace (c : Cfg) : SpecSt → List (SState × Obs) → Option Clause
  | _, [] => none
  | sp, (r, o) :: rest =>
    match specStep c sp r o with
    | some cl => some cl
    | none => specTrace c (specNext c sp r) rest

end Icinga.C01

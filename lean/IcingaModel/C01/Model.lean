/-
  C01 — soft/hard state machine.  Executable transcription of
  `Checkable::ProcessCheckResult` (lib/icinga/checkable-check.cpp) restricted to the
  attempt / state-type / hard-change / event computation.  Core Lean only.
-/
namespace Icinga.C01

/-- `ServiceState` (lib/icinga/checkresult.ti): OK=0, WARNING=1, CRITICAL=2, UNKNOWN=3. -/
inductive SState | ok | warning | critical | unknown
  deriving DecidableEq, Repr, Inhabited

/-- `StateType` (lib/icinga/checkresult.ti): Soft=0, Hard=1. -/
inductive SType | soft | hard
  deriving DecidableEq, Repr, Inhabited

inductive Kind | host | service
  deriving DecidableEq, Repr, Inhabited

/-- Which `OnStateChange` signal fired: none, `StateTypeSoft`, `StateTypeHard`. -/
inductive Ev | none | soft | hard
  deriving DecidableEq, Repr, Inhabited

def SState.toNat : SState → Nat
  | .ok => 0 | .warning => 1 | .critical => 2 | .unknown => 3

def SState.ofNat? : Nat → Option SState
  | 0 => some .ok | 1 => some .warning | 2 => some .critical | 3 => some .unknown | _ => none

def SType.toNat : SType → Nat | .soft => 0 | .hard => 1
def SType.ofNat? : Nat → Option SType | 0 => some .soft | 1 => some .hard | _ => none
def Ev.toNat : Ev → Nat | .none => 0 | .soft => 1 | .hard => 2
def Ev.ofNat? : Nat → Option Ev | 0 => some .none | 1 => some .soft | 2 => some .hard | _ => none

/-- `Host::CalculateState` (lib/icinga/host.cpp:141-150): OK/WARNING ⇒ Up, else Down. -/
def hostUp : SState → Bool
  | .ok => true | .warning => true | _ => false

/-- `IsStateOK` (lib/icinga/service.cpp: `state == ServiceOK`; lib/icinga/host.cpp:198-201:
    `CalculateState(state) == HostUp`). -/
def isOK (k : Kind) (s : SState) : Bool :=
  match k with
  | .service => s == .ok
  | .host => hostUp s

/-- The state as the property sees it: raw for services, Up/Down for hosts. -/
def proj (k : Kind) (s : SState) : Nat :=
  match k with
  | .service => s.toNat
  | .host => if hostUp s then 0 else 1

structure Cfg where
  kind : Kind
  max : Nat          -- max_check_attempts
  volatile : Bool
  deriving Repr

structure St where
  state : SState       -- state_raw
  stype : SType        -- state_type
  attempt : Nat        -- check_attempt
  lastHard : SState    -- last_hard_state_raw
  lastExec : Option Int  -- execution_start of last_check_result, if any
  -- fields added later carry their checkable.ti default so that other models' literals stay valid
  hist : Nat := 9999   -- last_hard_states_raw: current * 100 + previous, 99 = "never" (checkable.ti:113-115)
  lastState : SState := .unknown  -- last_state_raw (state of the result before the latest one)
  deriving Repr, DecidableEq

/-- A never-checked checkable (lib/icinga/checkable.ti:98-118 defaults). -/
def pending : St :=
  { state := .unknown, stype := .soft, attempt := 1, lastHard := .unknown, hist := 9999,
    lastState := .unknown, lastExec := none }

structure Res where
  state : SState
  execStart : Int     -- cr->GetExecutionStart()
  now : Int           -- Utility::GetTime() at processing
  deriving Repr

/-- checkable-check.cpp:175-198: a result older than the stored one is dropped unless the stored
    one lies in the future. -/
def stale (s : St) (r : Res) : Bool :=
  match s.lastExec with
  | none => false
  | some cur => if cur > r.now then false else decide (r.execStart < cur)

/-- checkable-check.cpp:258-264. -/
def stateChange (k : Kind) (old new : SState) : Bool :=
  match k with
  | .service => old != new
  | .host => hostUp old != hostUp new

/-- checkable-check.cpp:214-256: new (state type, attempt). -/
def nextTypeAttempt (c : Cfg) (s : St) (new : SState) : SType × Nat :=
  if isOK c.kind new then (.hard, 1)
  else
    let okOld := isOK c.kind s.state
    -- "OK -> NOT-OK change, first SOFT state"
    let ta : SType × Nat := if okOld then (.soft, 1) else (s.stype, 1)
    -- "SOFT state change, increase attempt counter"
    let ta : SType × Nat := if s.stype == .soft && !okOld then (.soft, s.attempt + 1) else ta
    -- "HARD state change"
    if ta.2 ≥ c.max then (.hard, 1) else ta

/-- checkable-check.cpp:284-287. -/
def hardChangeOf (c : Cfg) (s : St) (new : SState) (newType : SType) : Bool :=
  (newType == .hard && s.stype == .soft) ||
  (stateChange c.kind s.state new && s.stype == .hard && newType == .hard)

/-- checkable-check.cpp:443-454. -/
def eventOf (c : Cfg) (s : St) (new : SState) (newType : SType) : Ev :=
  let okOld := isOK c.kind s.state
  let okNew := isOK c.kind new
  if hardChangeOf c s new newType || (c.volatile && !(okOld && okNew)) then .hard
  else if stateChange c.kind s.state new || newType == .soft then .soft
  else .none

/-- The step without the stale-result filter.  checkable-check.cpp:203 (`SetLastStateRaw(old_state)`),
    :297-301 (`if (hardChange || is_volatile) { SetLastHardStateRaw(new_state); …
    SetLastHardStatesRaw(GetLastHardStatesRaw() / 100u + new_state * 100u); }`). -/
def stepCore (c : Cfg) (s : St) (r : Res) : St × Ev :=
  let ta := nextTypeAttempt c s r.state
  let hc := hardChangeOf c s r.state ta.1
  ({ state := r.state, stype := ta.1, attempt := ta.2,
     lastHard := if hc || c.volatile then r.state else s.lastHard,
     hist := if hc || c.volatile then s.hist / 100 + r.state.toNat * 100 else s.hist,
     lastState := s.state,
     lastExec := some r.execStart },
   eventOf c s r.state ta.1)

/-- A result that is overtaken: `a` is processed up to its `OnNewCheckResult` signal, `b` is processed
    completely, then `a` reports its state change (no stale filter: both are accepted).  Since b75b8e7 the
    emission uses the state type `a` itself computed (`new_stateType`, captured under the object lock,
    checkable-check.cpp), so what `b` wrote meanwhile has no influence: the two steps of the sequence. -/
def stepOvertaken (c : Cfg) (s : St) (a b : Res) : (St × Ev) × (St × Ev) :=
  let pa := stepCore c s a
  (pa, stepCore c pa.1 b)

/-- One `ProcessCheckResult` call: (new state, event, accepted?). -/
def step (c : Cfg) (s : St) (r : Res) : St × Ev × Bool :=
  if stale s r then (s, .none, false)
  else let p := stepCore c s r; (p.1, p.2, true)

/-- What the harness observes after each result. -/
structure Obs where
  accepted : Bool
  state : SState       -- state_raw
  stype : SType
  attempt : Nat
  lastHard : SState    -- last_hard_state_raw
  ev : Ev
  prevHard : Nat       -- `previous_hard_state` of the stored check result (99 = never), checkable-check.cpp:307
  vaState : Nat        -- `vars_after` of the stored check result (9 9 0 when there is none), :338-348
  vaType : Nat
  vaAttempt : Nat
  apiState : Nat       -- Host::GetState()/Service::GetState() as the API shows it (host.cpp:156-168)
  apiLastState : Nat   -- …::GetLastState()
  apiLastHard : Nat    -- …::GetLastHardState()
  deriving Repr, DecidableEq

def obsOf (c : Cfg) (p : St × Ev × Bool) : Obs :=
  let s := p.1
  let has := s.lastExec.isSome
  { accepted := p.2.2, state := s.state, stype := s.stype, attempt := s.attempt,
    lastHard := s.lastHard, ev := p.2.1,
    prevHard := s.hist % 100,
    vaState := if has then s.state.toNat else 9,
    vaType := if has then s.stype.toNat else 9,
    vaAttempt := if has then s.attempt else 0,
    apiState := proj c.kind s.state, apiLastState := proj c.kind s.lastState,
    apiLastHard := proj c.kind s.lastHard }

/-- The observation of a state at rest (start state restored from the state file). -/
def stObs (c : Cfg) (s : St) : Obs := obsOf c (s, .none, true)

/-- Run a history, collecting (result, observation) pairs. -/
def trace (c : Cfg) : St → List Res → List (Res × Obs)
  | _, [] => []
  | s, r :: rs => let p := step c s r; (r, obsOf c p) :: trace c p.1 rs

def run (c : Cfg) (s : St) (rs : List Res) : St :=
  rs.foldl (fun s r => (step c s r).1) s

end Icinga.C01

/-
  C09 — the property as executable predicates over what was OBSERVED (the argv the recording plugin
  saw, the command and the state/exit/output/performance data stored in the check result).  Nothing here
  calls the model's resolution functions; shared are only byte-level helpers (`splitLines`, `trim`,
  `splitPerfdata` for cutting a performance-data string into items, the sh lexer `shWords`, `tokenize`).
-/
import IcingaModel.C09.Model

namespace Icinga.C09

inductive Clause
  | exitMapping          -- 0/1/2/3 → OK/WARNING/CRITICAL/UNKNOWN, everything else UNKNOWN; exit status stored as is
  | outputText           -- per line: text after the first '|' is perfdata iff it contains '='; the rest is output
  | perfdata             -- the performance data items are those of the perfdata parts
  | argvMatchesCommand   -- the plugin saw exactly the recorded command (array verbatim / sh words of the line)
  | stringCmdVerbatim    -- string command line: the words the administrator wrote, macro values verbatim
  | failedNotRun         -- a check that failed in argument resolution is UNKNOWN and no process was started
  | timeoutUnknown       -- plugin exceeding its timeout: UNKNOWN, marked, child gone
  | argvLayout           -- every value in exactly one element, or `key ++ separator ++ value` when a separator is configured
  | cachedEqualsDirect   -- resolution from the `resolvedMacros` cache gives the command / argv of the direct resolution
  | fillNotRun           -- the pass that fills `resolvedMacros` starts no process
  | noCrash              -- macro expansion always terminates with a value or an error: never a crash, abort or hang
  | signalUnknown        -- a plugin that ends without an exit code of its own (terminated by a signal) is UNKNOWN
  | envVerbatim          -- environment variables of the command carry the macro values verbatim
  | arrayCmdVerbatim     -- array command line: one argv element per element, the element's text with the macro values verbatim
  | undefinedMissing     -- a macro defined on no host / service / command / custom variable level is a missing macro
  deriving Repr, DecidableEq

def Clause.name : Clause → String
  | .exitMapping => "exit_mapping" | .outputText => "output_text" | .perfdata => "perfdata"
  | .argvMatchesCommand => "argv_matches_command" | .stringCmdVerbatim => "string_cmd_verbatim"
  | .failedNotRun => "failed_not_run" | .timeoutUnknown => "timeout_unknown"
  | .argvLayout => "argv_layout" | .cachedEqualsDirect => "cached_equals_direct" | .fillNotRun => "fill_not_run"
  | .noCrash => "no_crash" | .signalUnknown => "signal_unknown" | .envVerbatim => "env_verbatim"
  | .undefinedMissing => "undefined_macro_missing" | .arrayCmdVerbatim => "array_cmd_verbatim"

/-- Exit codes 0/1/2/3 map to OK/WARNING/CRITICAL/UNKNOWN and anything else to UNKNOWN. -/
def specState (exit : Int) : Nat :=
  match exit with
  | 0 => 0 | 1 => 1 | 2 => 2 | _ => 3

def specExit (exit : Int) (obsState : Nat) (obsExit : Int) : Option Clause :=
  if obsState = specState exit ∧ obsExit = exit then none else some .exitMapping

/-- The text after the first `|` of a line, when that text contains `=`. -/
def perfPart (line : Bytes) : Option Bytes :=
  let after := (line.dropWhile (· ≠ BAR)).drop 1
  if line.contains BAR && after.contains EQ then some after else none

/-- Everything else is plugin output. -/
def textPart (line : Bytes) : Bytes :=
  if (perfPart line).isSome then line.takeWhile (· ≠ BAR) else line

def joinQuirk (sep : UInt8) (parts : List Bytes) : Bytes :=
  parts.foldl (fun acc x => if acc.isEmpty then x else acc ++ sep :: x) []

/-- The text the finished-handler parses: trimmed plugin output, plus the marker for exit codes above 3
    (`suffix`: whatever wording the implementation uses — read from the implementation, not compared). -/
def handledOutput (suffix : Bytes) (exit : Int) (raw : Bytes) : Bytes :=
  if exit > 3 then trim raw ++ suffix else trim raw

def specOutput (suffix : Bytes) (exit : Int) (raw : Bytes) (obsOut : Bytes) (obsPerf : List Bytes) : Option Clause :=
  let lines := splitLines [] (handledOutput suffix exit raw)
  if obsOut ≠ joinQuirk LF (lines.map textPart) then some .outputText
  else if obsPerf ≠ splitPerfdata (trim (joinQuirk SPACE (lines.filterMap perfPart))) then some .perfdata
  else none

/-- The plugin must have seen exactly what the check result records as its command. -/
def specArgvOfCommand (recorded : CmdOut) (argv : List Bytes) : Option Clause :=
  match recorded with
  | .argv l => if argv = l then none else some .argvMatchesCommand
  | .sh line =>
    match shWords line with
    | .ok ws => if argv = ws then none else some .argvMatchesCommand
    | .error _ => none      -- outside the modelled sh fragment: judged by `stringCmdVerbatim`


/-! ### The argument vector an `arguments` dictionary denotes (layout), stated without the code's
    `AddArgumentHelper`: every kept argument contributes its key (unless `skip_key`; for the 2nd, 3rd, …
    element of an array only with `repeat_key`) and each of its values in exactly ONE element — the value
    alone, or `key ++ separator ++ value` in one element when a separator is configured (the empty string is
    a separator: `-p3306`).  `IcingaProofs.C09.argv_shape_independent_of_values` proves the model equal. -/

/-- What an argument contributes, abstracted from the bytes of its values. -/
inductive Slot
  | key          -- the key alone
  | value        -- one value, alone in its element
  | keyValue     -- key ++ separator ++ one value, in one element
  | drop         -- one value consumed, nothing emitted (`skip_value`)
  deriving Repr, DecidableEq

/-- `some n`: an array of `n` elements; `none`: a scalar. -/
def Val.shape : Val → Option Nat
  | .arr l => some l.length
  | _ => none

def Val.elems : Val → List Bytes
  | .arr l => l
  | .str b => [b]
  | .empty => [[]]
  | .bool b => [boolBytes b]
  | .num n => [intBytes n]

def elemSlots (addKey addValue hasSep : Bool) : List Slot :=
  if addKey && addValue && hasSep then [.keyValue]
  else (if addKey then [.key] else []) ++ [if addValue then .value else .drop]

def arrSlots (skipKey repeatKey skipValue hasSep : Bool) : Bool → Nat → List Slot
  | _, 0 => []
  | first, n + 1 =>
    elemSlots (if first then !skipKey else !skipKey && repeatKey) (!skipValue) hasSep
      ++ arrSlots skipKey repeatKey skipValue hasSep false n

/-- The layout of an argument: a function of its flags and of the SHAPE of its value only. -/
def slots (skipKey repeatKey skipValue hasSep : Bool) : Option Nat → List Slot
  | none => elemSlots (!skipKey) (!skipValue) hasSep
  | some n => arrSlots skipKey repeatKey skipValue hasSep true n

/-- Filling a layout: every value-consuming slot takes the next value, whole, into one element. -/
def fill (key sep : Bytes) : List Slot → List Bytes → List Bytes
  | [], _ => []
  | .key :: r, vs => key :: fill key sep r vs
  | .value :: r, v :: vs => v :: fill key sep r vs
  | .keyValue :: r, v :: vs => (key ++ sep ++ v) :: fill key sep r vs
  | .drop :: r, _ :: vs => fill key sep r vs
  | _ :: _, [] => []

def consumers : List Slot → Nat
  | [] => 0
  | .key :: r => consumers r
  | _ :: r => consumers r + 1


/-- The elements one kept argument contributes. -/
def specArgBlock (a : RArg) : List Bytes :=
  fill a.key (a.sep.getD []) (slots a.skipKey a.repeatKey a.skipValue a.sep.isSome a.value.shape) a.value.elems

/-- Arguments sorted by `order`; inside a class of equal `order` any sequence is allowed (`std::sort`).
    All remainders of `obs` after consuming every block of the class once, in any order. -/
def consumePerm : Nat → List (List Bytes) → List Bytes → List (List Bytes)
  | 0, _, _ => []
  | _, [], obs => [obs]
  | fuel + 1, blocks, obs =>
    (List.range blocks.length).flatMap fun i =>
      match blocks[i]? with
      | some blk => if blk.isPrefixOf obs then consumePerm fuel (blocks.eraseIdx i) (obs.drop blk.length) else []
      | none => []

def consumeClasses : List (List (List Bytes)) → List (List Bytes) → List (List Bytes)
  | [], rests => rests
  | g :: gs, rests => consumeClasses gs (rests.flatMap (consumePerm (g.length + 1) g))

def insertClass (a : RArg) : List (Int × List RArg) → List (Int × List RArg)
  | [] => [(a.order, [a])]
  | (o, g) :: r => if a.order = o then (o, g ++ [a]) :: r else if a.order < o then (a.order, [a]) :: (o, g) :: r
                   else (o, g) :: insertClass a r

/-- Classes of equal `order`, ascending. -/
def orderClasses (as : List RArg) : List (List RArg) := (as.foldl (fun acc a => insertClass a acc) []).map (·.2)

/-- `argv` = the command's own elements followed by the kept arguments' blocks, by ascending `order`. -/
def specArgvLayout (base : List Bytes) (kept : List RArg) (argv : List Bytes) : Option Clause :=
  if base.isPrefixOf argv &&
     (consumeClasses ((orderClasses kept).map (·.map specArgBlock)) [argv.drop base.length]).any (·.isEmpty)
  then none else some .argvLayout

/-! ### String command lines: the words the administrator wrote, with macro values verbatim -/

/-- A template seen by the shell lexer at property level: literal bytes, and macros as opaque word constituents. -/
inductive Sym
  | byte (c : UInt8)
  | mac (name : Bytes)
  deriving Repr, DecidableEq

structure SymSt where
  done : List (List Sym) := []
  cur : Option (List Sym) := none
  mode : ShMode := .unq
  deriving Repr, DecidableEq

def SymSt.push (s : SymSt) (x : Sym) : SymSt := { s with cur := some (s.cur.getD [] ++ [x]) }

/-- `shStep` on templates: a literal byte acts as in `shStep`; a macro is an ordinary word constituent. -/
def symStep (s : SymSt) : Sym → Except ShErr SymSt
  | .mac n =>
    match s.mode with
    | .bs => pure { s.push (.mac n) with mode := .unq }
    | _ => pure (s.push (.mac n))
  | .byte c =>
    match s.mode with
    | .sq => if c = SQUOTE then pure { s with mode := .unq } else pure (s.push (.byte c))
    | .bs => if c = LF then throw .interpreted else pure { s.push (.byte c) with mode := .unq }
    | .dq =>
      if c = 34 then pure { s with mode := .unq }
      else if c = 36 || c = 96 || c = BSLASH then throw .interpreted
      else pure (s.push (.byte c))
    | .unq =>
      if c = SQUOTE then pure { s with cur := some (s.cur.getD []), mode := .sq }
      else if c = 34 then pure { s with cur := some (s.cur.getD []), mode := .dq }
      else if c = BSLASH then pure { s with cur := some (s.cur.getD []), mode := .bs }
      else if c = SPACE || c = 9 then
        match s.cur with
        | none => pure s
        | some w => pure { s with done := w :: s.done, cur := none }
      else if shSpecial c then throw .interpreted
      else pure (s.push (.byte c))

def symRun : SymSt → List Sym → Except ShErr SymSt
  | s, [] => pure s
  | s, x :: xs => do
    let s' ← symStep s x
    symRun s' xs

def SymSt.finish (s : SymSt) : Except ShErr (List (List Sym)) :=
  match s.mode with
  | .unq => pure ((match s.cur with | none => s.done | some w => w :: s.done).reverse)
  | _ => throw .unterminated

def symLine : List Tok → Option (List Sym)
  | [] => some []
  | .lit b :: ts => (symLine ts).map (b.map .byte ++ ·)
  | .mac n :: ts => (symLine ts).map (.mac n :: ·)
  | .unclosed :: _ => none

/-- Put each macro's value — verbatim — where the macro stood. -/
def fillSym (valueOf : Bytes → Option Bytes) : List Sym → Bytes
  | [] => []
  | .byte c :: r => c :: fillSym valueOf r
  | .mac n :: r => (valueOf n).getD [] ++ fillSym valueOf r

def fillSt (valueOf : Bytes → Option Bytes) (s : SymSt) : ShSt :=
  { done := s.done.map (fillSym valueOf), cur := s.cur.map (fillSym valueOf), mode := s.mode }

/-- The line the code builds: every macro replaced by `EscapeShellArg(value)`. -/
def renderEsc (valueOf : Bytes → Option Bytes) : List Sym → Bytes
  | [] => []
  | .byte c :: r => c :: renderEsc valueOf r
  | .mac n :: r => escapeShellArg ((valueOf n).getD []) ++ renderEsc valueOf r

/-- Every macro of the template stands where the lexer is in its unquoted state. -/
def UnqAtMacros : SymSt → List Sym → Prop
  | _, [] => True
  | s, .byte c :: r => ∀ s', symStep s (.byte c) = .ok s' → UnqAtMacros s' r
  | s, .mac n :: r => s.mode = .unq ∧ UnqAtMacros (s.push (.mac n)) r


def macroNames : List Tok → List Bytes
  | [] => []
  | .mac n :: ts => n :: macroNames ts
  | _ :: ts => macroNames ts

def symWords (syms : List Sym) : Except ShErr (List (List Sym)) := do
  let s ← symRun {} syms
  s.finish

/-- The argument vector a string command line denotes at property level: lex the TEMPLATE as sh would
    (macros are opaque word constituents there), then put each macro's value — verbatim — where the
    macro stood.  `none`: template outside the lexer's fragment or a macro without a scalar value. -/
def specExpectedArgv (template : Bytes) (valueOf : Bytes → Option Bytes) : Option (List Bytes) :=
  let toks := tokenize template
  match symLine toks with
  | some syms =>
    if (macroNames toks).all (fun n => (valueOf n).isSome) then
      match symWords syms with
      | .ok ws => some (ws.map (fillSym valueOf))
      | .error _ => none
    else none
  | none => none

def specStringCmd (template : Bytes) (valueOf : Bytes → Option Bytes) (argv : List Bytes) : Option Clause :=
  match specExpectedArgv template valueOf with
  | some ws => if argv = ws then none else some .stringCmdVerbatim
  | none => none

/-! ### Array command lines: one argv element per element of the array, macro values verbatim, no shell -/

/-- What one element of an array command line denotes: its text with each macro replaced by the macro's value,
    verbatim (`$$` is the macro named "" whose value is `$`).  `none`: a `$` without partner, or a macro without a
    scalar value (an array-valued macro is joined by `;` — the property does not say so, it is not judged here). -/
def specExpectedElem (valueOf : Bytes → Option Bytes) (tmpl : Bytes) : Option Bytes :=
  let toks := tokenize tmpl
  match symLine toks with
  | some syms => if (macroNames toks).all (fun n => (valueOf n).isSome) then some (fillSym valueOf syms) else none
  | none => none

/-- The argument vector begins with exactly one element per element of the command array — whatever bytes the values
    contain, nothing is split, merged, quoted or dropped — followed by what the `arguments` dictionary contributes
    (clause `argv_layout`); without a dictionary nothing follows. -/
def specArrayCmd (elems : List Bytes) (valueOf : Bytes → Option Bytes) (hasArgs : Bool) (argv : List Bytes) : Option Clause :=
  match elems.mapM (specExpectedElem valueOf) with
  | some ws => if (if hasArgs then ws.isPrefixOf argv else argv = ws) then none else some .arrayCmdVerbatim
  | none => none

/-- Argument resolution failed (the output is the diagnostic of the exception): UNKNOWN, nothing ran. -/
def specFailed (ran : Bool) (obsState : Nat) (obsExit : Int) : Option Clause :=
  if !ran ∧ obsState = 3 ∧ obsExit = 3 then none else some .failedNotRun

/-- A plugin exceeding its timeout is killed and reported as UNKNOWN — whatever the plugin does when it is
    told to terminate (dies, catches the signal and exits 0/1/2/3 on its own, ignores it and has to be killed).
    The wording of the marker the implementation puts into the output is not part of the property. -/
def specTimeout (obsState : Nat) (gone : Bool) : Option Clause :=
  if obsState = 3 ∧ gone then none else some .timeoutUnknown

/-- "Its timeout": the `check_timeout` of the host or service when it has one, else the `timeout` of the command. -/
def itsTimeout (command : Nat) (checkable : Option Nat) : Nat :=
  match checkable with
  | some t => t
  | none => command

/-- "Exit codes 0/1/2/3 map to OK/WARNING/CRITICAL/UNKNOWN and anything else to UNKNOWN": a plugin that is
    terminated by a signal (SIGSEGV, SIGHUP, SIGKILL by the OOM killer, …) has no exit code at all — it is
    UNKNOWN, whatever the number of the signal (SIGHUP = 1 is not WARNING). -/
def specSignal (obsState : Nat) : Option Clause :=
  if obsState = 3 then none else some .signalUnknown

/-- Macro values are inserted verbatim into the environment of the plugin as well: the variable holds the
    text of the definition with every macro replaced by its value (an array value: its elements joined by
    `;`), no quoting added, nothing interpreted.  `expected`: that text (`none`: a macro without value —
    the property does not say what the variable holds then); `seen`: what the plugin found in its
    environment (`none`: variable absent). -/
def specEnv (expected : Option Bytes) (seen : Option Bytes) : Option Clause :=
  match expected with
  | none => none
  | some e => if seen = some e then none else some .envVerbatim

/-! ### Where macro values come from -/

/-- Macro values come from the host, service, command and custom variable levels (the global `Vars` constant
    included): a short macro name — no `object.` prefix — is DEFINED when one of the levels has a custom variable
    or an attribute of that name.  (`vars` itself names the dictionary of a level.) -/
def definedOnSomeLevel (levels : List Obj) (n : Bytes) : Bool :=
  n = sVars || levels.any (fun o => (assoc o.vars n).isSome || (assoc o.attrs n).isSome)

/-- A short macro name that no level defines: whatever else the daemon could find under that name (a variable of
    its own environment, …) it is a MISSING macro. -/
def undefinedShort (levels : List Obj) (n : Bytes) : Bool :=
  !n.isEmpty && !n.contains DOT && !definedOnSomeLevel levels n

/-- A string that mentions (at its top level) a short macro no level defines resolves — when it resolves — with the
    "a macro is missing" report set; that report is what drops an optional argument and fails a required one. -/
def specUndefined (levels : List Obj) (s : Bytes) (obsMissing : Bool) : Option Clause :=
  if (macroNames (tokenize s)).any (undefinedShort levels) && !obsMissing then some .undefinedMissing else none

/-- … and an argument without `set_if` whose value is such a string, when `required`, fails the resolution.
    `failed`: the implementation's `ResolveArguments` threw. -/
def requiredUndefined (levels : List Obj) (a : ArgSpec) : Bool :=
  a.setIf.isEmpty && a.required &&
    (match a.value with | .str v => (macroNames (tokenize v)).any (undefinedShort levels) | _ => false)

def specRequiredUndefined (levels : List Obj) (args : List ArgSpec) (failed : Bool) : Option Clause :=
  if args.any (requiredUndefined levels) && !failed then some .undefinedMissing else none

end Icinga.C09

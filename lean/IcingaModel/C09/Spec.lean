/-
  C09 — the property as executable predicates over what was OBSERVED (the argv the recording plugin
  saw, the command and the state/exit/output/performance data stored in the check result).  Nothing here
  calls the model's resolution functions; shared are only byte-level helpers (`splitLines`, `trim`,
  `splitPerfdata` for cutting a performance-data string into items, the sh lexer `shWords`, `tokenize`).
-/
import IcingaModel.C09.Model

namespace Icinga.C09

inductive Clause
  | exitMapping          -- 0/1/2/3 → OK/WARNING/CRITICAL/UNKNOWN, everything else UNKNOWN; exit status stored as is
  | outputText           -- per line: text after the first '|' is perfdata iff it contains '='; the rest is output
  | perfdata             -- the performance data items are those of the perfdata parts
  | argvMatchesCommand   -- the plugin saw exactly the recorded command (array verbatim / sh words of the line)
  | stringCmdVerbatim    -- string command line: the words the administrator wrote, macro values verbatim
  | failedNotRun         -- a check that failed in argument resolution is UNKNOWN and no process was started
  | timeoutUnknown       -- plugin exceeding its timeout: UNKNOWN, marked, child gone
  deriving Repr, DecidableEq

def Clause.name : Clause → String
  | .exitMapping => "exit_mapping" | .outputText => "output_text" | .perfdata => "perfdata"
  | .argvMatchesCommand => "argv_matches_command" | .stringCmdVerbatim => "string_cmd_verbatim"
  | .failedNotRun => "failed_not_run" | .timeoutUnknown => "timeout_unknown"

/-- Exit codes 0/1/2/3 map to OK/WARNING/CRITICAL/UNKNOWN and anything else to UNKNOWN. -/
def specState (exit : Int) : Nat :=
  match exit with
  | 0 => 0 | 1 => 1 | 2 => 2 | _ => 3

def specExit (exit : Int) (obsState : Nat) (obsExit : Int) : Option Clause :=
  if obsState = specState exit ∧ obsExit = exit then none else some .exitMapping

/-- The text after the first `|` of a line, when that text contains `=`. -/
def perfPart (line : Bytes) : Option Bytes :=
  let after := (line.dropWhile (· ≠ BAR)).drop 1
  if line.contains BAR && after.contains EQ then some after else none

/-- Everything else is plugin output. -/
def textPart (line : Bytes) : Bytes :=
  if (perfPart line).isSome then line.takeWhile (· ≠ BAR) else line

def joinQuirk (sep : UInt8) (parts : List Bytes) : Bytes :=
  parts.foldl (fun acc x => if acc.isEmpty then x else acc ++ sep :: x) []

/-- The text the finished-handler parses: trimmed plugin output, plus the marker for exit codes above 3. -/
def handledOutput (exit : Int) (raw : Bytes) : Bytes :=
  if exit > 3 then trim raw ++ terminatedSuffix exit.toNat else trim raw

def specOutput (exit : Int) (raw : Bytes) (obsOut : Bytes) (obsPerf : List Bytes) : Option Clause :=
  let lines := splitLines [] (handledOutput exit raw)
  if obsOut ≠ joinQuirk LF (lines.map textPart) then some .outputText
  else if obsPerf ≠ splitPerfdata (trim (joinQuirk SPACE (lines.filterMap perfPart))) then some .perfdata
  else none

/-- The plugin must have seen exactly what the check result records as its command. -/
def specArgvOfCommand (recorded : CmdOut) (argv : List Bytes) : Option Clause :=
  match recorded with
  | .argv l => if argv = l then none else some .argvMatchesCommand
  | .sh line =>
    match shWords line with
    | .ok ws => if argv = ws then none else some .argvMatchesCommand
    | .error _ => none      -- outside the modelled sh fragment: judged by `stringCmdVerbatim`

/-! ### String command lines: the words the administrator wrote, with macro values verbatim -/

/-- Placeholder for the `i`-th macro of a template: two bytes that no generated template contains. -/
def placeholder (i : Nat) : Bytes := [1, UInt8.ofNat (65 + i)]

def substTemplate : Nat → List Tok → Option Bytes
  | _, [] => some []
  | i, .lit b :: ts => (substTemplate i ts).map (b ++ ·)
  | i, .mac _ :: ts => (substTemplate (i + 1) ts).map (placeholder i ++ ·)
  | _, .unclosed :: _ => none

def macroNames : List Tok → List Bytes
  | [] => []
  | .mac n :: ts => n :: macroNames ts
  | _ :: ts => macroNames ts

/-- Replace every placeholder in a word by the value of its macro. -/
def fillWord (vals : List Bytes) : Bytes → Bytes
  | 1 :: c :: r => (if 65 ≤ c.toNat then vals.getD (c.toNat - 65) [] else [1, c]) ++ fillWord vals r
  | c :: r => c :: fillWord vals r
  | [] => []

/-- The argument vector a string command line denotes at property level: lex the TEMPLATE as sh would
    (macros are opaque word constituents there), then put each macro's value — verbatim — where the
    macro stood.  `none`: template outside the lexer's fragment or a macro without a scalar value. -/
def specExpectedArgv (template : Bytes) (valueOf : Bytes → Option Bytes) : Option (List Bytes) :=
  let toks := tokenize template
  match substTemplate 0 toks, (macroNames toks).mapM valueOf with
  | some line, some vals =>
    if vals.length > 26 then none else
    match shWords line with
    | .ok ws => some (ws.map (fillWord vals))
    | .error _ => none
  | _, _ => none

def specStringCmd (template : Bytes) (valueOf : Bytes → Option Bytes) (argv : List Bytes) : Option Clause :=
  match specExpectedArgv template valueOf with
  | some ws => if argv = ws then none else some .stringCmdVerbatim
  | none => none

/-- Argument resolution failed (the output is the diagnostic of the exception): UNKNOWN, nothing ran. -/
def specFailed (ran : Bool) (obsState : Nat) (obsExit : Int) : Option Clause :=
  if !ran ∧ obsState = 3 ∧ obsExit = 3 then none else some .failedNotRun

def isInfix (pat : Bytes) : Bytes → Bool
  | [] => pat.isEmpty
  | c :: cs => pat.isPrefixOf (c :: cs) || isInfix pat cs

/-- "<Timeout exceeded.>" -/
def sTimeout : Bytes := [60, 84, 105, 109, 101, 111, 117, 116, 32, 101, 120, 99, 101, 101, 100, 101, 100, 46, 62]

def specTimeout (obsState : Nat) (obsOut : Bytes) (gone : Bool) : Option Clause :=
  if obsState = 3 ∧ isInfix sTimeout obsOut ∧ gone then none else some .timeoutUnknown

end Icinga.C09

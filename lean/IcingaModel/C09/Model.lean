/-
  C09 — check execution: macro expansion, command-line/argument resolution, shell quoting, exit status
  and plugin-output mapping.  Executable transcription of

    lib/icinga/macroprocessor.cpp   ResolveMacros 22-76, ResolveMacro 88-192, InternalResolveMacros 232-339,
                                    AddArgumentHelper 407-419, EscapeMacroShellArg 421-439,
                                    ResolveArguments 457-585
    lib/base/utility.cpp            EscapeShellArg 1228-1257, Join 1008-1040
    lib/base/process.cpp            PrepareCommand 556-587
    lib/icinga/pluginutility.cpp    ExitStatusToState 85-97, ParseCheckOutput 99-127, SplitPerfdata 129-178
    lib/methods/pluginchecktask.cpp ProcessFinishedHandler 65-97

  Core Lean only.  Strings are byte lists (`List UInt8`, no NUL).  Values: Empty, strings, arrays of
  strings, booleans and integer-valued numbers (`vars.http_ssl = true`, `vars.port = 3306`); fractional
  numbers, dictionaries and functions as macro values are outside the model (the model answers
  `unsupported` instead of guessing).
-/
namespace Icinga.C09

abbrev Bytes := List UInt8

instance {ε α : Type} [DecidableEq ε] [DecidableEq α] : DecidableEq (Except ε α)
  | .ok a, .ok b => if h : a = b then isTrue (by rw [h]) else isFalse (fun e => h (by cases e; rfl))
  | .error a, .error b => if h : a = b then isTrue (by rw [h]) else isFalse (fun e => h (by cases e; rfl))
  | .ok _, .error _ => isFalse (fun e => by cases e)
  | .error _, .ok _ => isFalse (fun e => by cases e)

def DOLLAR : UInt8 := 36   -- '$'
def SQUOTE : UInt8 := 39   -- '\''
def BSLASH : UInt8 := 92   -- '\\'
def SEMI : UInt8 := 59     -- ';'
def SPACE : UInt8 := 32
def DOT : UInt8 := 46
def BAR : UInt8 := 124     -- '|'
def EQ : UInt8 := 61       -- '='
def LF : UInt8 := 10
def CR : UInt8 := 13

def sVars : Bytes := [118, 97, 114, 115]                                   -- "vars"
def sActionUrl : Bytes := [97, 99, 116, 105, 111, 110, 95, 117, 114, 108]  -- "action_url"
def sNotesUrl : Bytes := [110, 111, 116, 101, 115, 95, 117, 114, 108]      -- "notes_url"
def sNotes : Bytes := [110, 111, 116, 101, 115]                            -- "notes"
def sTrue : Bytes := [116, 114, 117, 101]                                  -- "true"
def sFalse : Bytes := [102, 97, 108, 115, 101]                             -- "false"
/-- "<Terminated with exit code " -/
def sTermA : Bytes := [60, 84, 101, 114, 109, 105, 110, 97, 116, 101, 100, 32, 119, 105, 116, 104, 32, 101, 120, 105, 116, 32, 99, 111, 100, 101, 32]
def sTermB : Bytes := [32, 40, 48, 120]                                    -- " (0x"
def sTermC : Bytes := [41, 46, 62]                                         -- ").>"

/-- An Icinga `Value` as far as the model goes: `Empty`, a `String`, an `Array` of strings, a `Boolean`,
    an integer-valued `Number`. -/
inductive Val
  | empty
  | str (b : Bytes)
  | arr (l : List Bytes)
  | bool (b : Bool)
  | num (n : Int)
  deriving Repr, DecidableEq, Inhabited

def natDigitsF : Nat → Nat → Nat → Bytes
  | 0, _, _ => []
  | f + 1, base, n =>
    let d := n % base
    let c : UInt8 := if d < 10 then UInt8.ofNat (48 + d) else UInt8.ofNat (55 + d)
    if n < base then [c] else natDigitsF f base (n / base) ++ [c]

def natDigits (base n : Nat) : Bytes := natDigitsF (n + 1) base n

/-- `Value::operator String` for a Boolean (value-operators.cpp:47-51). -/
def boolBytes (b : Bool) : Bytes := if b then sTrue else sFalse

/-- `Convert::ToString(double)` for an integer-valued number (convert.cpp:20-31: `std::fixed`, precision 0). -/
def intBytes (n : Int) : Bytes := if n < 0 then 45 :: natDigits 10 n.natAbs else natDigits 10 n.natAbs

/-- `static_cast<String>(value)` (value-operators.cpp:38-60); an Array has no scalar text. -/
def Val.scalarBytes : Val → Option Bytes
  | .empty => some []
  | .str b => some b
  | .arr _ => none
  | .bool b => some (boolBytes b)
  | .num n => some (intBytes n)

inductive Err
  | recursion     -- "Infinite recursion detected while resolving macros"          (macroprocessor.cpp:240)
  | unclosed      -- "Closing $ not found in macro format string."                  (:252)
  | mixing        -- "Mixing both strings and non-strings in macros is not allowed." (:322)
  | required      -- "Non-optional macro '…' used in argument '…' is missing."      (:544)
  | unsupported   -- the model does not cover this input (nested arrays, dictionaries as values, …)
  deriving Repr, DecidableEq, Inhabited

def Err.toNat : Err → Nat
  | .recursion => 1 | .unclosed => 2 | .mixing => 3 | .required => 4 | .unsupported => 9

/-! ## Macro lookup (MacroProcessor::ResolveMacro, macroprocessor.cpp:88-192) -/

/-- One entry of the `ResolverList` ("service", "host", "command"): custom variables and the attributes
    reachable as reflection fields (`address`, `display_name`, `notes`, …) that the harness sets. -/
structure Obj where
  rname : Bytes
  vars : List (Bytes × Val)
  attrs : List (Bytes × Val)
  deriving Repr, DecidableEq

def assoc (l : List (Bytes × Val)) (k : Bytes) : Option Val :=
  match l with
  | [] => none
  | (k', v) :: r => if k' = k then some v else assoc r k

/-- `String::Split(".")` (boost::split, no token compression): always at least one token. -/
def splitOn (sep : UInt8) : Bytes → Bytes → List Bytes
  | acc, [] => [acc.reverse]
  | acc, c :: cs => if c = sep then acc.reverse :: splitOn sep [] cs else splitOn sep (c :: acc) cs

inductive Lookup
  | notFound
  | found (v : Val) (recursive : Bool)
  | unsupported
  deriving Repr, DecidableEq

/-- Position of the token walk of macroprocessor.cpp:139-176. -/
inductive Ref
  | obj
  | vars
  | val (v : Val)

/-- One token of the walk (:142-176); `none` = `valid = false`. -/
def Obj.walkStep (o : Obj) (r : Ref) (tok : Bytes) : Option Ref :=
  match r with
  | .obj => if tok = sVars then some .vars else (assoc o.attrs tok).map .val   -- GetFieldId(token)
  | .vars => (assoc o.vars tok).map .val                                                      -- dict->Contains(token)
  | .val (.arr _) => none                    -- an Array object has no field of that name (:162-167)
  | .val v => some (.val v)                  -- neither Dictionary nor Object: the token is skipped (:143,152)

def Obj.walk (o : Obj) : Ref → List Bytes → Option Ref
  | r, [] => some r
  | r, t :: ts => match o.walkStep r t with
    | none => none
    | some r' => o.walk r' ts

def isRecursiveTok (t : Bytes) : Bool :=
  t = sVars || t = sActionUrl || t = sNotesUrl || t = sNotes

/-- Body of the resolver loop for one resolver (:107-188).  `none` = try the next resolver. -/
def Obj.resolve (o : Obj) (mname objName : Bytes) (tokens : List Bytes) : Option Lookup :=
  if objName ≠ [] ∧ objName ≠ o.rname then none                     -- :107
  else
    match (if objName = [] then assoc o.vars mname else none) with   -- :110-132 short macro in `vars`
    | some v => some (.found v true)
    | none =>
      match o.walk .obj tokens with                                 -- :139-176
      | none => none
      | some (.val v) => some (.found v (isRecursiveTok (tokens.headD [])))   -- :178-187
      | some _ => some .unsupported                                 -- `$host.vars$`: a Dictionary as macro value

def resolveMacroIn : List Obj → Bytes → Bytes → List Bytes → Lookup
  | [], _, _, _ => .notFound
  | o :: os, mname, objName, tokens =>
    match o.resolve mname objName tokens with
    | some r => r
    | none => resolveMacroIn os mname objName tokens

/-- MacroProcessor::ResolveMacro (:88-192) over the given resolver list alone (`resolveMacroFull` adds the
    default resolvers `icinga` and `env`). -/
def resolveMacro (objs : List Obj) (mname : Bytes) : Lookup :=
  let toks := splitOn DOT [] mname
  match toks with
  | t0 :: t1 :: rest => resolveMacroIn objs mname t0 (t1 :: rest)   -- :98-101
  | _ => resolveMacroIn objs mname [] toks

/-! ### The default resolvers (macroprocessor.cpp:78-86, consulted after the given list, :104-105) -/

def sEnv : Bytes := [101, 110, 118]                       -- "env"
def sIcinga : Bytes := [105, 99, 105, 110, 103, 97]       -- "icinga"

def assocB (l : List (Bytes × Bytes)) (k : Bytes) : Option Bytes :=
  match l with
  | [] => none
  | (k', v) :: r => if k' = k then some v else assocB r k

def joinDots : List Bytes → Bytes
  | [] => []
  | [x] => x
  | x :: y :: r => x ++ DOT :: joinDots (y :: r)

/-- `{ "icinga", IcingaApplication::GetInstance() }`: the global `Vars` as custom variables (short macros are
    resolved from them like from any other level) and `{ "env", l_EnvResolver, false }`: the environment of the
    daemon, `ResolveShortMacros = false`. -/
structure Defaults where
  globals : List (Bytes × Val) := []      -- IcingaApplication::GetVars()
  env : List (Bytes × Bytes) := []        -- what `getenv` answers
  deriving Repr, DecidableEq

def Defaults.icinga (d : Defaults) : Obj := { rname := sIcinga, vars := d.globals, attrs := [] }

/-- The `env` resolver (:107-137, envresolver.cpp:11-20): reached only by the prefixed form `$env.NAME$` — for a
    short macro it is skipped (`if (!resolver.ResolveShortMacros) continue;`, :110-112); the value is the text of
    the variable, never resolved again (`recursive_macro` stays false).  `EnvResolver` has no reflection fields. -/
def envResolve (env : List (Bytes × Bytes)) (objName : Bytes) (tokens : List Bytes) : Lookup :=
  if objName = sEnv then
    match assocB env (joinDots tokens) with
    | some v => .found (.str v) false
    | none => .notFound
  else .notFound

/-- MacroProcessor::ResolveMacro (:88-192) over the given resolver list followed by the default resolvers. -/
def resolveMacroFull (objs : List Obj) (dflt : Defaults) (mname : Bytes) : Lookup :=
  let toks := splitOn DOT [] mname
  let (objName, tokens) : Bytes × List Bytes := match toks with
    | t0 :: t1 :: rest => (t0, t1 :: rest)                                  -- :98-101
    | _ => ([], toks)
  match resolveMacroIn (objs ++ [dflt.icinga]) mname objName tokens with
  | .notFound => envResolve dflt.env objName tokens
  | r => r

/-! ## Shell escaping (utility.cpp:1228-1257, macroprocessor.cpp:421-439) -/

/-- Body of `Utility::EscapeShellArg`: every `'` becomes `'\''`. -/
def escBody : Bytes → Bytes
  | [] => []
  | c :: cs => if c = SQUOTE then SQUOTE :: BSLASH :: SQUOTE :: SQUOTE :: escBody cs else c :: escBody cs

/-- Utility::EscapeShellArg (POSIX branch). -/
def escapeShellArg (s : Bytes) : Bytes := SQUOTE :: (escBody s ++ [SQUOTE])

def joinWith (sep : Bytes) : List Bytes → Bytes
  | [] => []
  | [x] => x
  | x :: y :: r => x ++ sep ++ joinWith sep (y :: r)

/-- MacroProcessor::EscapeMacroShellArg: arrays are escaped element-wise and joined by one blank. -/
def escapeMacroShellArg : Val → Bytes
  | .arr l => joinWith [SPACE] (l.map escapeShellArg)
  | .str b => escapeShellArg b
  | .empty => escapeShellArg []
  | .bool b => escapeShellArg (boolBytes b)      -- `Utility::EscapeShellArg(const String&)`: implicit conversion
  | .num n => escapeShellArg (intBytes n)

/-- Token escaping of `Utility::Join(…, ';', escapeSeparator = true)` (utility.cpp:1017-1027). -/
def escSemi : Bytes → Bytes
  | [] => []
  | c :: cs => if c = BSLASH then BSLASH :: BSLASH :: escSemi cs
               else if c = SEMI then BSLASH :: SEMI :: escSemi cs else c :: escSemi cs

def joinSemi (l : List Bytes) : Bytes := joinWith [SEMI] (l.map escSemi)

/-! ## InternalResolveMacros (macroprocessor.cpp:232-339) -/

/-- The string cut at its `$` signs: literal, macro name, literal, …; a `$` without partner ends the
    list with `unclosed` (:248-254).  A well-formed string yields `lit, (mac, lit)*`. -/
inductive Tok
  | lit (b : Bytes)
  | mac (name : Bytes)
  | unclosed
  deriving Repr, DecidableEq

/-- `inName = false`: collecting literal text; `true`: collecting a macro name.  `acc` is reversed. -/
def tok : Bool → Bytes → Bytes → List Tok
  | false, acc, [] => [.lit acc.reverse]
  | true, _, [] => [.unclosed]
  | false, acc, c :: cs => if c = DOLLAR then .lit acc.reverse :: tok true [] cs else tok false (c :: acc) cs
  | true, acc, c :: cs => if c = DOLLAR then .mac acc.reverse :: tok false [] cs else tok true (c :: acc) cs

def tokenize (s : Bytes) : List Tok := tok false [] s

/-- Result of a resolution: the value and whether `*missingMacro` was written (a missing macro always
    has a non-empty name, so "non-empty" = "written"). -/
abbrev Res := Except Err (Val × Bool)

/-- Recursive resolution of the elements of an array-valued custom variable (:290-304).  An element
    that itself resolves to an array would nest arrays: outside the model. -/
def resolveElems (rec : Bytes → Res) : List Bytes → Except Err (List Bytes × Bool)
  | [] => pure ([], false)
  | e :: es =>
    if e = [] then do                                   -- !value.IsScalar(): pushed unchanged (:300)
      let (r, m) ← resolveElems rec es
      pure ([] :: r, m)
    else do
      let (v, m1) ← rec e
      match v.scalarBytes with
      | none => throw .unsupported
      | some b =>
        let (r, m2) ← resolveElems rec es
        pure (b :: r, m1 || m2)

/-- One `$name$` up to the point where the value is known (:254-310): lookup, `$$`, recursive
    resolution of user macros (`rec` = InternalResolveMacros one level deeper, without escaping).
    Result: the value, `found`, and whether a macro NESTED in the value was missing. -/
def expandCore (look : Bytes → Lookup) (rec : Bytes → Res) (name : Bytes) : Except Err (Val × Bool × Bool) :=
  match look name with                                         -- :260-267
  | .unsupported => throw .unsupported
  | lk =>
    let (v0, found0, isRec) : Val × Bool × Bool := match lk with
      | .found v r => (v, true, r)
      | _ => (.empty, false, false)
    let (v1, found) : Val × Bool := if name = [] then (.str [DOLLAR], true) else (v0, found0)   -- :270-273
    do
      let (v2, m2) ← (if isRec then                                         -- :289-310
          match v1 with
          | .arr l => do
              let (r, m) ← resolveElems rec l
              pure (Val.arr r, m)
          | .str b => rec b
          | .empty => pure (Val.empty, false)
          | .bool b => pure (Val.bool b, false)     -- neither Array nor String (:289, :305): left as it is
          | .num n => pure (Val.num n, false)
        else pure (v1, false) : Res)
      pure (v2, found, m2)

/-- One `$name$` (:254-316): the value of `expandCore`, escaped when an escape function is given
    (:315-316, on the direct path and on the `resolvedMacros` path alike); `*missingMacro` is written
    when the macro was not found (:280-286) or a nested macro was missing. -/
def expandMacro (look : Bytes → Lookup) (rec : Bytes → Res) (esc : Bool) (name : Bytes) : Res := do
  let (v2, found, m2) ← expandCore look rec name
  let v3 := if esc then Val.str (escapeMacroShellArg v2) else v2
  pure (v3, !found || m2)

/-- The replace loop (:248-336) for a string that is not a single macro: literals are copied, every
    macro's value is inserted (not rescanned: `offset = pos_first + len`), an array is an error (:321). -/
def concatToks (look : Bytes → Lookup) (rec : Bytes → Res) (esc : Bool) : List Tok → Except Err (Bytes × Bool)
  | [] => pure ([], false)
  | .lit b :: ts => do
    let (r, m) ← concatToks look rec esc ts
    pure (b ++ r, m)
  | .unclosed :: _ => throw .unclosed                                       -- :251-252
  | .mac n :: ts => do
    let (v, m1) ← expandMacro look rec esc n
    match v.scalarBytes with
    | none => throw .mixing                                                 -- :321-322
    | some b =>
      let (r, m2) ← concatToks look rec esc ts
      pure (b ++ r, m1 || m2)

/-- InternalResolveMacros with `fuel = 16 - recursionLevel` (`recursionLevel > 15` throws, :239). -/
def internalResolve (look : Bytes → Lookup) : Nat → Bool → Bytes → Res
  | 0, _, _ => throw .recursion
  | fuel + 1, esc, s =>
    match tokenize s with
    | [.lit [], .mac n, .lit []] =>                                         -- the only macro, no other text (:319)
      expandMacro look (fun t => internalResolve look fuel false t) esc n
    | toks => do
      let (b, m) ← concatToks look (fun t => internalResolve look fuel false t) esc toks
      pure (.str b, m)

def fuelOfLevel (level : Nat) : Nat := 16 - level

/-! ### The `resolvedMacros` cache (remote execution: the scheduling node fills it with
    `useResolvedMacros = false`, the executing node resolves from it with `useResolvedMacros = true`) -/

/-- What the fill pass stores for a top-level macro (:312-313): the value after recursive resolution,
    BEFORE escaping, when the macro was found.  `fuel` = budget of the string the macro occurs in. -/
def cacheEntry (look : Bytes → Lookup) : Nat → Bytes → Option Val
  | 0, _ => none
  | fuel + 1, name =>
    match expandCore look (fun t => internalResolve look fuel false t) name with
    | .ok (v, true, _) => some v
    | _ => none

/-- Was a macro nested in the value of `name` missing (the fill pass reports it through `missingMacro`,
    the cache does not record it)? -/
def nestedMissing (look : Bytes → Lookup) : Nat → Bytes → Bool
  | 0, _ => false
  | fuel + 1, name =>
    match expandCore look (fun t => internalResolve look fuel false t) name with
    | .ok (_, _, m) => m
    | _ => false

/-- The use pass (:260-266): `found = resolvedMacros->Contains(name)`, never recursive. -/
def cacheLookup (cache : List (Bytes × Val)) (name : Bytes) : Lookup :=
  match assoc cache name with
  | some v => .found v false
  | none => .notFound

/-! ## ResolveMacros (macroprocessor.cpp:22-76) -/

/-- An unresolved configuration value (`command`, `value`, `set_if`). -/
inductive Raw
  | empty
  | str (b : Bytes)
  | arr (l : List Bytes)
  deriving Repr, DecidableEq, Inhabited

/-- `Value::IsEmpty()` (value.cpp:114): Empty or the empty string. -/
def Raw.isEmpty : Raw → Bool
  | .empty => true
  | .str b => b.isEmpty
  | .arr _ => false

/-- A configuration value given as a Boolean or a Number (`value = 3306`, `set_if = true`): not empty
    (value.cpp:114), scalar, and handed to `InternalResolveMacros(const String& str, …)` — i.e. converted to
    its text first (macroprocessor.cpp:35-37). -/
def Raw.ofVal : Val → Raw
  | .empty => .empty
  | .str b => .str b
  | .arr l => .arr l
  | .bool b => .str (boolBytes b)
  | .num n => .str (intBytes n)

/-- Array branch (:38-55): every element on its own, never escaped; an array result is joined by `;`. -/
def resolveArrayElems (look : Bytes → Lookup) (fuel : Nat) : List Bytes → Except Err (List Bytes × Bool)
  | [] => pure ([], false)
  | e :: es => do
    let (v, m1) ← internalResolve look fuel false e
    let b := match v with
      | .arr l => joinSemi l
      | .str b => b
      | .empty => []
      | .bool x => boolBytes x
      | .num n => intBytes n
    let (r, m2) ← resolveArrayElems look fuel es
    pure (b :: r, m1 || m2)

/-- MacroProcessor::ResolveMacros called with `recursionLevel = level`. -/
def resolveMacros (look : Bytes → Lookup) (level : Nat) (esc : Bool) (r : Raw) : Res :=
  if r.isEmpty then pure (.empty, false)                                    -- :32-33
  else match r with
    | .str b => internalResolve look (fuelOfLevel (level + 1)) esc b        -- :35-37
    | .arr l => do
      let (r, m) ← resolveArrayElems look (fuelOfLevel (level + 1)) l
      pure (.arr r, m)
    | .empty => pure (.empty, false)

/-! ## ResolveArguments (macroprocessor.cpp:441-585) -/

/-- One entry of the `arguments` dictionary.  A plain string entry `"-x" = "$v$"` is the entry with
    `value := str …` and every other field at the default of `CommandArgument` (:441-455, :531-532). -/
structure ArgSpec where
  dkey : Bytes                      -- the dictionary key
  key : Option Bytes := none        -- "key"
  value : Raw := .empty             -- "value"
  required : Bool := false
  skipKey : Bool := false
  repeatKey : Bool := true
  order : Int := 0
  separator : Option Bytes := none  -- `Separator.GetType() != ValueEmpty`: a String, possibly empty
  setIf : Raw := .empty
  deriving Repr, DecidableEq, Inhabited

/-- `struct CommandArgument` after resolution (:441-455). -/
structure RArg where
  order : Int
  skipKey : Bool
  repeatKey : Bool
  skipValue : Bool
  key : Bytes
  sep : Option Bytes
  value : Val
  deriving Repr, DecidableEq, Inhabited

def isDigit (c : UInt8) : Bool := decide (48 ≤ c.toNat) && decide (c.toNat ≤ 57)

/-- Bytes with which a text that `boost::lexical_cast<double>` might accept can begin (digits, sign,
    point, `inf`/`nan`, blanks). -/
def numericStart (c : UInt8) : Bool :=
  isDigit c || c = 43 || c = 45 || c = 46 || c = 105 || c = 73 || c = 110 || c = 78 || c = 32 ||
  (decide (9 ≤ c.toNat) && decide (c.toNat ≤ 13))

/-- Truth value of a resolved `set_if` (:511-528): `"true"`, `"false"`, Empty/"" (`Convert::ToLong` = 0),
    `-?[0-9]{1,9}` (non-zero = true), and texts that cannot be numbers (conversion error: `continue`,
    :516-524).  Other numeric-looking texts (`+7`, `1e3`, `0.5`, more than 9 digits, …) and arrays go through
    `lexical_cast<double>` and two narrowing casts, which the property does not define: `none` — the model
    does not decide them. -/
def setIfTruth (v : Val) : Option Bool :=
  match v.scalarBytes with
  | none => none
  | some b =>
    if b = sTrue then some true
    else if b = sFalse then some false
    else if b = [] then some false
    else
      let ds := match b with | 45 :: r => r | r => r
      if !ds.isEmpty && ds.length ≤ 9 && ds.all isDigit then some (ds.any (· ≠ 48))
      else if numericStart (b.headD 0) then none
      else some false

inductive ArgOut
  | skip
  | keep (a : RArg)
  deriving Repr, DecidableEq

/-- Loop body of :476-552 for one dictionary entry. -/
def resolveArg (look : Bytes → Lookup) (level : Nat) (a : ArgSpec) : Except Err ArgOut := do
  let pass ← (if a.setIf.isEmpty then pure true                              -- :500
    else do
      let (v, miss) ← resolveMacros look (level + 1) false a.setIf             -- :502-504
      if miss then pure false                                                 -- :506-507
      else match setIfTruth v with                                            -- :509-528
        | some t => pure t
        | none => throw .unsupported : Except Err Bool)
  if !pass then return .skip
  let (v, miss) ← resolveMacros look (level + 1) false a.value                 -- :538-540
  if miss then
    if a.required then throw .required else return .skip                      -- :542-549
  return .keep { order := a.order, skipKey := a.skipKey, repeatKey := a.repeatKey,
                 skipValue := a.value.isEmpty,                                -- :534-535
                 key := a.key.getD a.dkey, sep := a.separator, value := v }

def resolveArgs (look : Bytes → Lookup) (level : Nat) : List ArgSpec → Except Err (List RArg)
  | [] => pure []
  | a :: as => do
    let o ← resolveArg look level a
    let r ← resolveArgs look level as
    match o with
    | .skip => pure r
    | .keep x => pure (x :: r)

/-- Stable insertion by `Order` (`std::sort` with `operator<` on `Order`, :451-454, :554; the order
    inside a class of equal `Order` is unspecified in C++ — the driver compares modulo that). -/
def insertArg (a : RArg) : List RArg → List RArg
  | [] => [a]
  | b :: bs => if b.order < a.order then b :: insertArg a bs else a :: b :: bs

def sortArgs : List RArg → List RArg
  | [] => []
  | a :: as => insertArg a (sortArgs as)

/-- MacroProcessor::AddArgumentHelper (:407-419). -/
def addArgumentHelper (key value : Bytes) (addKey addValue : Bool) (sep : Option Bytes) : List Bytes :=
  match addKey && addValue, sep with
  | true, some s => [key ++ s ++ value]
  | _, _ => (if addKey then [key] else []) ++ (if addValue then [value] else [])

/-- The array loop of :563-578. -/
def emitArr (a : RArg) : Bool → List Bytes → List Bytes
  | _, [] => []
  | first, v :: vs =>
    addArgumentHelper a.key v (if first then !a.skipKey else !a.skipKey && a.repeatKey) (!a.skipValue) a.sep
      ++ emitArr a false vs

/-- What one resolved argument appends to the command array (:557-581). -/
def emitArg (a : RArg) : List Bytes :=
  match a.value with
  | .arr l => emitArr a true l
  | .str b => addArgumentHelper a.key b (!a.skipKey) (!a.skipValue) a.sep
  | .empty => addArgumentHelper a.key [] (!a.skipKey) (!a.skipValue) a.sep
  | .bool x => addArgumentHelper a.key (boolBytes x) (!a.skipKey) (!a.skipValue) a.sep   -- `const String& value` (:407)
  | .num n => addArgumentHelper a.key (intBytes n) (!a.skipKey) (!a.skipValue) a.sep

def emitAll : List RArg → List Bytes
  | [] => []
  | a :: as => emitArg a ++ emitAll as

inductive Cmd
  | str (b : Bytes)
  | arr (l : List Bytes)
  deriving Repr, DecidableEq, Inhabited

/-- What `Process::PrepareCommand` (process.cpp:556-587) makes of the resolved command:
    a String runs as `sh -c <line>`, an Array is the argument vector itself. -/
inductive CmdOut
  | sh (line : Bytes)
  | argv (l : List Bytes)
  deriving Repr, DecidableEq, Inhabited

def Cmd.raw : Cmd → Raw
  | .str b => .str b
  | .arr l => .arr l

/-- The resolved command (:464-470). -/
def resolveCommand (look : Bytes → Lookup) (level : Nat) (cmd : Cmd) (hasArgs : Bool) : Except Err CmdOut :=
  match hasArgs, cmd with
  | true, .str b => pure (.argv [b])                                        -- :469 `new Array({ command })`, unresolved
  | _, c => do
    let (v, _) ← resolveMacros look (level + 1) true c.raw                  -- :466-467 (missingMacro = nullptr)
    pure (match v with
      | .arr l => .argv l
      | .str b => .sh b
      | .empty => .sh []
      | .bool x => .sh (boolBytes x)      -- unreachable: the command is resolved with the escape function (a String)
      | .num n => .sh (intBytes n))

/-- MacroProcessor::ResolveArguments called with `recursionLevel = level` (0 from ExecuteCommand). -/
def resolveArguments (look : Bytes → Lookup) (level : Nat) (cmd : Cmd) (args : Option (List ArgSpec)) : Except Err CmdOut := do
  let base ← resolveCommand look level cmd args.isSome
  match args with
  | none => pure base
  | some as => do
    let rs ← resolveArgs look level as
    match base with
    | .argv l => pure (.argv (l ++ emitAll (sortArgs rs)))
    | .sh _ => throw .unsupported   -- unreachable: with arguments the command is always an array

/-! ## Environment of the plugin (PluginUtility::ExecuteCommand, pluginutility.cpp:46-71) -/

/-- The text of one `env` entry: the definition (a String) resolved with `recursionLevel = 0` and WITHOUT an
    escape function (:56-58), an Array result joined by `;` (:66-67); the flag says whether a macro was missing
    (the code only logs that).  A failure leaves `ExecuteCommand` as an exception. -/
def envValue (look : Bytes → Lookup) (raw : Bytes) : Except Err (Bytes × Bool) := do
  let (v, m) ← resolveMacros look 0 false (.str raw)
  match v with
  | .arr l => pure (joinSemi l, m)
  | .str b => pure (b, m)
  | .empty => pure ([], m)
  | .bool x => pure (boolBytes x, m)
  | .num n => pure (intBytes n, m)

/-! ## POSIX sh word splitting, restricted (parameter of the property; validated against /bin/sh) -/

inductive ShMode
  | unq     -- unquoted
  | sq      -- inside '…'
  | bs      -- after an unquoted backslash
  | dq      -- inside "…"
  deriving Repr, DecidableEq

/-- Lexer state: finished words (reversed), the word under construction (`none` between words). -/
structure ShSt where
  done : List Bytes := []
  cur : Option Bytes := none
  mode : ShMode := .unq
  deriving Repr, DecidableEq

inductive ShErr
  | interpreted    -- a byte in a position where sh gives it a meaning beyond "part of a word"
  | unterminated   -- open quote or trailing backslash at the end of the line
  deriving Repr, DecidableEq

/-- Bytes that sh interprets in unquoted text (operators, expansions, globbing, comments, assignments,
    history/brace characters) or that end the command (newline).  Conservative: anything listed makes
    the line fall outside the modelled fragment.  `=` is an ordinary byte except in words before the
    command name (assignments); the first word of a check command line is the plugin path. -/
def shSpecial (c : UInt8) : Bool :=
  c = 10 || c = 34 || c = 96 || c = 36 || c = 59 || c = 124 || c = 38 || c = 60 || c = 62 || c = 40 || c = 41 ||
  c = 42 || c = 63 || c = 91 || c = 93 || c = 126 || c = 35 || c = 123 || c = 125 || c = 33

def ShSt.push (s : ShSt) (c : UInt8) : ShSt := { s with cur := some (s.cur.getD [] ++ [c]) }

def shStep (s : ShSt) (c : UInt8) : Except ShErr ShSt :=
  match s.mode with
  | .sq => if c = SQUOTE then pure { s with mode := .unq } else pure (s.push c)
  | .bs => if c = LF then throw .interpreted else pure { s.push c with mode := .unq }
  | .dq =>
    if c = 34 then pure { s with mode := .unq }
    else if c = 36 || c = 96 || c = BSLASH then throw .interpreted   -- $… `…` \… are live inside "…"
    else pure (s.push c)
  | .unq =>
    if c = SQUOTE then pure { s with cur := some (s.cur.getD []), mode := .sq }
    else if c = 34 then pure { s with cur := some (s.cur.getD []), mode := .dq }
    else if c = BSLASH then pure { s with cur := some (s.cur.getD []), mode := .bs }
    else if c = SPACE || c = 9 then
      match s.cur with
      | none => pure s
      | some w => pure { s with done := w :: s.done, cur := none }
    else if shSpecial c then throw .interpreted
    else pure (s.push c)

def shRun : ShSt → Bytes → Except ShErr ShSt
  | s, [] => pure s
  | s, c :: cs => do
    let s' ← shStep s c
    shRun s' cs

def ShSt.finish (s : ShSt) : Except ShErr (List Bytes) :=
  match s.mode with
  | .unq => pure ((match s.cur with | none => s.done | some w => w :: s.done).reverse)
  | _ => throw .unterminated

/-- The words `sh -c line` passes to the (single, simple) command of `line`. -/
def shWords (line : Bytes) : Except ShErr (List Bytes) := do
  let s ← shRun {} line
  s.finish

/-! ## Exit status and plugin output (pluginutility.cpp:85-178, pluginchecktask.cpp:65-97) -/

/-- PluginUtility::ExitStatusToState (:85-97): 0 OK, 1 WARNING, 2 CRITICAL, everything else UNKNOWN (3). -/
def exitToState (exit : Int) : Nat :=
  if exit = 0 then 0 else if exit = 1 then 1 else if exit = 2 then 2 else 3

/-- `std::isspace` in the classic locale (boost::algorithm::trim). -/
def isSpace (c : UInt8) : Bool := c = 32 || (decide (9 ≤ c.toNat) && decide (c.toNat ≤ 13))

def trimLeft : Bytes → Bytes
  | [] => []
  | c :: cs => if isSpace c then trimLeft cs else c :: cs

def trim (b : Bytes) : Bytes := (trimLeft (trimLeft b).reverse).reverse

/-- `output.Split("\r\n")` (:104): cut at every CR and every LF, empty pieces kept. -/
def splitLines : Bytes → Bytes → List Bytes
  | acc, [] => [acc.reverse]
  | acc, c :: cs => if c = LF || c = CR then acc.reverse :: splitLines [] cs else splitLines (c :: acc) cs

/-- Cut at the first occurrence of `sep`: `(before, some after)`; `(all, none)` when absent. -/
def cutAt (sep : UInt8) : Bytes → Bytes × Option Bytes
  | [] => ([], none)
  | c :: cs => if c = sep then ([], some cs) else
    let (a, b) := cutAt sep cs
    (c :: a, b)

/-- One line (:107-121): `(plugin output part, performance data part)`. -/
def splitLine (line : Bytes) : Bytes × Option Bytes :=
  match cutAt BAR line with
  | (pre, some post) => if post.contains EQ then (pre, some post) else (line, none)
  | (_, none) => (line, none)

/-- `if (!acc.IsEmpty()) acc += sep; acc += x` (:109-110, :115-118). -/
def appendSep (sep : UInt8) (acc x : Bytes) : Bytes := if acc.isEmpty then x else acc ++ sep :: x

def parseStep (acc : Bytes × Bytes) (line : Bytes) : Bytes × Bytes :=
  match splitLine line with
  | (t, some p) => (appendSep LF acc.1 t, appendSep SPACE acc.2 p)
  | (t, none) => (appendSep LF acc.1 t, acc.2)

/-- PluginUtility::ParseCheckOutput (:99-127). -/
def parseCheckOutput (out : Bytes) : Bytes × Bytes :=
  let r := (splitLines [] out).foldl parseStep ([], [])
  (r.1, trim r.2)

/-- Last index at which `"::"` starts (`label.RFind("::")`, :148). -/
def rfindColons : Bytes → Option Nat
  | [] => none
  | c :: cs =>
    match rfindColons cs with
    | some i => some (i + 1)
    | none => match c, cs with
      | 58, 58 :: _ => some 0
      | _, _ => none

def stripQuotes (l : Bytes) : Bytes :=
  if l.length > 2 && l.head? = some SQUOTE && l.getLast? = some SQUOTE then (l.drop 1).dropLast else l   -- :145-146

/-- PluginUtility::SplitPerfdata (:129-178) on the unread rest of the string; `fuel` bounds the number
    of `=` signs (each round consumes at least one byte). -/
def splitPerfdataAux : Nat → Bytes → Bytes → List Bytes
  | 0, _, _ => []
  | fuel + 1, rest, multiPrefix =>
    match cutAt EQ rest with
    | (_, none) => []                                                        -- :139-140
    | (rawLabel, some afterEq) =>
      let label := stripQuotes (trimLeft rawLabel)                           -- :142-146
      let multiIndex := rfindColons label                                    -- :148
      let multiPrefix := if multiIndex.isSome then [] else multiPrefix       -- :150-151
      let (value, after) := cutAt SPACE afterEq                              -- :153-158
      let label := if multiPrefix.isEmpty then label else multiPrefix ++ [58, 58] ++ label   -- :160-161
      let pdv := if label.contains SPACE then SQUOTE :: label ++ [SQUOTE, EQ] ++ value else label ++ EQ :: value
      let multiPrefix := match multiIndex with
        | some i => label.take i                                             -- :171-172
        | none => multiPrefix
      match after with
      | none => [pdv]
      | some r => pdv :: splitPerfdataAux fuel r multiPrefix

def splitPerfdata (p : Bytes) : List Bytes := splitPerfdataAux (p.length + 1) p []

/-- The text the pinned tree appends for an exit status above 3 (pluginchecktask.cpp:79-84).  The WORDING is
    not part of the property: `processFinished` takes the marker as an input (the harness reads the
    implementation's own marker), this transcription only documents the current text. -/
def terminatedSuffix (exit : Nat) : Bytes :=
  sTermA ++ natDigits 10 exit ++ sTermB ++ natDigits 16 exit ++ sTermC

/-- What PluginCheckTask::ProcessFinishedHandler stores in the check result. -/
structure CrObs where
  state : Nat
  exit : Int
  output : Bytes
  perfdata : List Bytes
  deriving Repr, DecidableEq

def processFinished (suffix : Bytes) (exit : Int) (rawOutput : Bytes) : CrObs :=
  let out := trim rawOutput                                                  -- :70
  let out := if exit > 3 then out ++ suffix else out                        -- :72-85 (`suffix` = the marker text)
  let co := parseCheckOutput out                                            -- :87
  { state := exitToState exit, exit := exit, output := co.1, perfdata := splitPerfdata co.2 }

/-! ## PluginUtility::ExecuteCommand (pluginutility.cpp:25-84) -/

/-- What `ExecuteCommand` does with the outcome of `ResolveArguments`: a failure is reported through the callback as a
    finished process with exit status 3 and the diagnostic as its output, and NO process is started (:29-46);
    otherwise the resolved command is handed to `Process` (:77-83). -/
inductive Exec
  | failed (cr : CrObs)        -- callback(Empty, pr) with pr.ExitStatus = 3, pr.Output = message; nothing ran
  | started (cmd : CmdOut)
  deriving Repr, DecidableEq

def executeCommand (look : Bytes → Lookup) (cmd : Cmd) (args : Option (List ArgSpec)) (diagnostic : Bytes) : Exec :=
  match resolveArguments look 0 cmd args with
  | .error _ => .failed (processFinished [] 3 diagnostic)
  | .ok c => .started c

def Exec.ran : Exec → Bool
  | .failed _ => false
  | .started _ => true

/-! ## How the plugin process ended (process.cpp:1049-1190, POSIX branch) -/

/-- What `waitpid` reported for the plugin. -/
inductive WaitStatus
  | exited (code : Nat)     -- WIFEXITED / WEXITSTATUS
  | signaled (sig : Nat)    -- WIFSIGNALED / WTERMSIG
  | failed                  -- waitpid failed, or neither of the two
  deriving Repr, DecidableEq

/-- The exit status `Process::DoEvents` reports (:1145-1176): the plugin's own exit code only when it exited by
    itself and no SIGTERM had been sent; 128 when it was terminated by a signal, when SIGTERM had been sent
    before it exited (:1157-1160), when it could not be killed or `waitpid` failed. -/
def processExit (sentSigterm couldNotKill : Bool) : WaitStatus → Int
  | .exited c => if couldNotKill then 128 else if sentSigterm then 128 else c
  | .signaled _ => 128
  | .failed => 128

/-- One run as `Process` sees it.  `deadlinePassed`: the timeout expired while the plugin was running — then
    SIGTERM was sent first (`m_SentSigterm`, :1057-1072) and, at 1.1 × timeout, SIGKILL to the plugin's process
    group (:1085). -/
structure Ending where
  deadlinePassed : Bool
  couldNotKill : Bool
  wait : WaitStatus
  deriving Repr, DecidableEq

def Ending.exit (e : Ending) : Int := processExit e.deadlinePassed (e.deadlinePassed && e.couldNotKill) e.wait

/-- The plugin did not end by its own `exit`. -/
def Ending.killed (e : Ending) : Bool :=
  e.deadlinePassed || (match e.wait with | .exited _ => false | _ => true)

end Icinga.C09

/-
  C06 — the property as an executable predicate over an *observed* trace of (operation, observation)
  pairs, written at the level of properties.jsonl.  It never looks at the model's state: what it knows
  it has read off the trace itself — the state, acknowledgement and comments at the previous look, and
  the expiry *that the accepted acknowledge operation asked for*.  The driver evaluates it on the
  implementation's trace; IcingaProofs/C06.lean shows that every trace of the model satisfies it.

  Sentences of the property and the clauses that state them:

    "A normal acknowledgement is cleared by the next state change"            normal_cleared_by_state_change
    "a sticky one only by recovery to OK/Up"                                   sticky_cleared_by_recovery,
                                                                               sticky_kept_without_recovery
    "either is cleared once its expiry time has passed"                        expiry_clears
    "results that do not change the state never clear it"                      unchanged_state_keeps_ack
    "While acknowledged the problem counts as handled"                         handled_iff
    "and Problem notifications are withheld"                                   problem_withheld_while_acked
    "setting it with notify requests exactly one Acknowledgement notification" ack_notify_once
    "acknowledging an object that is OK/Up or already acknowledged is refused" refuse_ok, refuse_acked
    "Every clearing is reported once (acknowledgement-cleared event)"          cleared_event_once, set_event_once
    "and removes the non-persistent acknowledgement comments created before
     the clearing result"                                                      ack_comments_removed
  plus the frame `ack_only_changes_as_stated` (nothing but the operations above sets or clears it) and
  `state_is_latest_result`, `problem_iff_not_ok` which tie the bookkeeping to the trace.

  Which entry points refuse what is the split the anchors give: the API action and the external commands refuse
  OK/Up and acknowledged objects; the cluster handler refuses acknowledged objects only.
-/
import IcingaModel.C06.Model

namespace Icinga.C06

open Icinga.C01

/-- What a reader of the trace knows before the next operation. -/
structure SpecSt where
  state : SState        -- raw state at the previous look (`unknown` for a never-checked object)
  ack : Ack             -- acknowledgement at the previous look
  expiry : Int          -- expiry requested by the operation that set it (0 = none)
  comments : List Cmt   -- acknowledgement comments at the previous look
  inDt : Bool := false  -- a downtime is in effect (from the downtime operations)
  deriving Repr, DecidableEq

def specInit : SpecSt := { state := .unknown, ack := .none, expiry := 0, comments := [], inDt := false }

inductive Clause
  | stateRecorded | problemIffNotOk | expiryClears | normalCleared | stickyRecovery | stickyKept | unchangedKeeps
  | ackFrame | refuseOk | refuseAcked | ackSet | setEventOnce | ackNotifyOnce | clearedEventOnce
  | handledIff | problemWithheld | commentsRemoved
  deriving Repr, DecidableEq

def Clause.name : Clause → String
  | .stateRecorded => "state_is_latest_result"
  | .problemIffNotOk => "problem_iff_not_ok"
  | .expiryClears => "expiry_clears"
  | .normalCleared => "normal_cleared_by_state_change"
  | .stickyRecovery => "sticky_cleared_by_recovery"
  | .stickyKept => "sticky_kept_without_recovery"
  | .unchangedKeeps => "unchanged_state_keeps_ack"
  | .ackFrame => "ack_only_changes_as_stated"
  | .refuseOk => "refuse_ok"
  | .refuseAcked => "refuse_acked"
  | .ackSet => "accepted_ack_is_set"
  | .setEventOnce => "set_event_once"
  | .ackNotifyOnce => "ack_notify_once"
  | .clearedEventOnce => "cleared_event_once"
  | .handledIff => "handled_iff"
  | .problemWithheld => "problem_withheld_while_acked"
  | .commentsRemoved => "ack_comments_removed"

/-- The requested expiry has passed at `now`. -/
def ranOut (sp : SpecSt) (now : Int) : Bool :=
  sp.ack != .none && sp.expiry != 0 && decide (sp.expiry < now)

/-- The acknowledgement the object still has when the operation at `now` begins. -/
def ackAt (sp : SpecSt) (now : Int) : Ack := if ranOut sp now then .none else sp.ack

/-- The expiry an acknowledge operation asks for (the plain external command has no such argument). -/
def requestedExpiry (via : Via) (expiry : Int) : Int :=
  match via with
  | .ext => 0
  | _ => expiry

/-- The state change the property speaks of: raw for services, Up/Down for hosts. -/
def changed (c : Cfg) (old new : SState) : Bool := proj c.kind old != proj c.kind new

def first (checks : List (Bool × Clause)) : Option Clause :=
  match checks with
  | [] => none
  | (bad, cl) :: rest => if bad then some cl else first rest

/-- Clauses every look has to satisfy: events are counted once; handled iff it is a problem that is acknowledged
    (or in a downtime — C05's half of the attribute, `inDt` comes from the downtime operations). -/
def common (o : Obs) (inDt : Bool) (nSet nClr nAckN : Nat) : List (Bool × Clause) :=
  [ (o.nSet != nSet, .setEventOnce),
    (o.nAckN != nAckN, .ackNotifyOnce),
    (o.nClr != nClr, .clearedEventOnce),
    (o.handled != (o.problem && (inDt || o.ack != .none)), .handledIff) ]

/-- A look at which nothing but the running out of the acknowledgement may have happened (time advance, dropped
    result, refused acknowledge, timer pump, downtime): it is gone iff its expiry has passed — then with one cleared
    event —, nothing is set, nothing is notified. -/
def lookChecks (sp : SpecSt) (now : Int) (inDt : Bool) (frame : Clause) (o : Obs) : List (Bool × Clause) :=
  [ (ranOut sp now && o.ack != .none, .expiryClears), (o.ack != ackAt sp now, frame) ] ++
    common o inDt 0 (if ranOut sp now then 1 else 0) 0

/-- Check one (operation, observation) pair.  `sp` is the bookkeeping before the operation. -/
def specStep (c : Cfg) (sp : SpecSt) (op : Op) (o : Obs) : Option Clause :=
  let a0 := ackAt sp op.now
  let c0 := if ranOut sp op.now then 1 else 0
  match op with
  | .result new _ execEnd _ =>
    if o.acc then
      let sc := changed c sp.state new
      let rec_ := sc && isOK c.kind new
      let a1 : Ack := if sc && (a0 == .normal || (a0 == .sticky && isOK c.kind new)) then .none else a0
      let c1 := if a0 != .none && a1 == .none then 1 else 0
      first ([ (o.state != new, .stateRecorded),
               (o.problem != !isOK c.kind new, .problemIffNotOk),
               (ranOut sp op.now && o.ack != .none, .expiryClears),
               (a0 == .normal && sc && o.ack != .none, .normalCleared),
               (a0 == .sticky && rec_ && o.ack != .none, .stickyRecovery),
               (a0 == .sticky && !rec_ && o.ack != .sticky, .stickyKept),
               (!sc && o.ack != a0, .unchangedKeeps),
               (o.ack != a1, .ackFrame) ] ++
             common o sp.inDt 0 (c0 + c1) 0 ++
             [ (o.nProbN != 0 && o.ack != .none, .problemWithheld),
               (o.comments != (if o.ack == .none then sp.comments.filter (keepsComment execEnd) else sp.comments),
                 .commentsRemoved) ])
    else
      -- a result that was not accepted changes nothing
      first (lookChecks sp op.now sp.inDt .unchangedKeeps o)
  | .ack via sticky notify _ expiry now =>
    if o.acc then
      let e := requestedExpiry via expiry
      let gone := e != 0 && decide (e < now)   -- accepted with an expiry that has already passed (cluster only)
      first ([ (via != .cluster && isOK c.kind sp.state, .refuseOk),
               (a0 != .none, .refuseAcked),
               (gone && o.ack != .none, .expiryClears),
               (!gone && o.ack != ackTypeOf sticky, .ackSet) ] ++
             common o sp.inDt 1 (c0 + if gone then 1 else 0) (if notify then 1 else 0))
    else
      first (lookChecks sp op.now sp.inDt .ackFrame o)
  | .remove _ _ =>
    first ([ (o.ack != .none, .ackFrame) ] ++ common o sp.inDt 0 (if sp.ack != .none then 1 else 0) 0)
  | .advance _ => first (lookChecks sp op.now sp.inDt .ackFrame o)
  -- the comment-expiry timer touches comments only
  | .pump _ _ => first (lookChecks sp op.now sp.inDt .ackFrame o)
  -- a downtime neither sets nor clears an acknowledgement
  | .downtime on _ => first (lookChecks sp op.now on .ackFrame o)

/-- Bookkeeping after the look: read off the observation; the requested expiry is remembered when an
    acknowledgement is accepted and forgotten when none is set any more. -/
def specNext (sp : SpecSt) (op : Op) (o : Obs) : SpecSt :=
  { state := o.state, ack := o.ack, comments := o.comments,
    inDt := (match op with
             | .downtime on _ => on
             | _ => sp.inDt),
    expiry := if o.ack == .none then 0
              else match op with
                | .ack via _ _ _ expiry _ => if o.acc then requestedExpiry via expiry else sp.expiry
                | _ => sp.expiry }

def specTrace (c : Cfg) : SpecSt → List (Op × Obs) → Option Clause
  | _, [] => none
  | sp, (op, o) :: rest =>
    match specStep c sp op o with
    | some cl => some cl
    | none => specTrace c (specNext sp op o) rest

end Icinga.C06

/-
  C06 — the property as an executable predicate over an *observed* trace of (operation, observation)
  pairs, written at the level of properties.jsonl.  It never looks at the model's state: what it knows
  it has read off the trace itself — the state, acknowledgement and comments at the previous look, and
  the expiry *that the accepted acknowledge operation asked for*.  The driver evaluates it on the
  implementation's trace; IcingaProofs/C06.lean shows that every trace of the model satisfies it.

  Sentences of the property and the clauses that state them:

    "A normal acknowledgement is cleared by the next state change"            normal_cleared_by_state_change
    "a sticky one only by recovery to OK/Up"                                   sticky_cleared_by_recovery,
                                                                               sticky_kept_without_recovery
    "either is cleared once its expiry time has passed"                        expiry_clears
    "results that do not change the state never clear it"                      unchanged_state_keeps_ack
    "While acknowledged the problem counts as handled"                         handled_iff
    "and Problem notifications are withheld"                                   problem_withheld_while_acked
    "setting it with notify requests exactly one Acknowledgement notification" ack_notify_once
    "acknowledging an object that is OK/Up or already acknowledged is refused" refuse_ok, refuse_acked
    "Every clearing is reported once (acknowledgement-cleared event)"          cleared_event_once, set_event_once
    "and removes the non-persistent acknowledgement comments created before
     the clearing result"                                                      ack_comments_removed
  plus the frame `ack_only_changes_as_stated` (nothing but the operations above sets or clears it) and
  `state_is_latest_result`, `problem_iff_not_ok` which tie the bookkeeping to the trace.

  Second layer (each sentence read once more, for what the first layer left to the model/implementation diff):

    "either is cleared once its expiry time has passed" — whichever reader comes first: the raw attribute may lag
      behind only by exactly that lazy expiry                                  raw_attribute_consistent
    "counts as handled" also in the severity class                             severity_counts_ack
    the stored expiry of a set acknowledgement is the requested one            expiry_attr_as_requested
    "Problem notifications are withheld (to be handled by C02 afterwards)": a due Problem notification is stashed,
      with its own type, and nothing is withheld or stashed without reason     withheld_problem_is_stashed,
                                                                               stash_only_when_withheld,
                                                                               state_notification_iff_due_and_clear
    … and so are the reminders: a due reminder Problem notification is attempted iff the object is a hard problem
      that is not acknowledged (nor in a downtime, nor waiting for its first notification)
                                                                               reminder_withheld_while_acked,
                                                                               reminder_iff_unhandled_hard_problem
    … and by the handler that re-sends what was withheld (`Checkable::FireSuppressedNotifications`, the checkable's
      5 s timer): while acknowledged the stash stays and nothing is requested; after the clearing the owed notification
      goes out once and the stash is empty                                     stash_kept_while_acked,
                                                                               stash_released_after_clearing
    "exactly one Acknowledgement notification" — none from a paused object (the active zone member sends it), the
      set event in any case                                                    ack_notify_once (with the paused bit)
    "is refused" — and nothing else is                                         refusal_justified
    "acknowledge (…, persistent)": the comment that goes with an accepted acknowledgement is the requested one
      (entry time, persistence, expiry); removal takes the non-persistent ones away; the comment-expiry timer
      only expired non-persistent ones; nothing else touches them              ack_comment_as_requested,
                                                                               removal_removes_comments,
                                                                               comment_timer_removes_only_expired,
                                                                               comments_only_change_as_stated

  Which entry points refuse what is the split the anchors give: the API action and the external commands refuse
  OK/Up and acknowledged objects; the cluster handler refuses acknowledged objects only.
-/
import IcingaModel.C06.Model

namespace Icinga.C06

open Icinga.C01

/-- What a reader of the trace knows before the next operation. -/
structure SpecSt where
  state : SState        -- raw state at the previous look (`unknown` for a never-checked object)
  ack : Ack             -- acknowledgement at the previous look
  expiry : Int          -- expiry requested by the operation that set it (0 = none)
  comments : List Cmt   -- acknowledgement comments at the previous look
  inDt : Bool := false  -- a downtime is in effect (from the downtime operations)
  stype : SType := .hard  -- state type and attempt at the previous look (when a state notification is due is C01/C02's
  attempt : Nat := 1      --   rule; it is evaluated on what the trace showed)
  suppP : Bool := false   -- stashed state notifications at the previous look
  suppR : Bool := false
  paused : Bool := false  -- from the pause operations
  before : SState := .ok  -- the state the object was in (OK unless hard) before the oldest stashed state notification
  deriving Repr, DecidableEq

def specInit : SpecSt :=
  { state := .unknown, ack := .none, expiry := 0, comments := [], inDt := false, stype := .soft, attempt := 1 }

inductive Clause
  | stateRecorded | problemIffNotOk | expiryClears | normalCleared | stickyRecovery | stickyKept | unchangedKeeps
  | ackFrame | refuseOk | refuseAcked | ackSet | setEventOnce | ackNotifyOnce | clearedEventOnce
  | handledIff | problemWithheld | commentsRemoved
  | rawConsistent | severityAck | expiryStored | withheldStashed | stashFrame | notifIffDue | refusalJustified
  | ackComment | removalComments | commentTimer | commentsFrame | reminderWithheld | reminderIff
  | stashWithheld | stashReleased
  deriving Repr, DecidableEq

def Clause.name : Clause → String
  | .stateRecorded => "state_is_latest_result"
  | .problemIffNotOk => "problem_iff_not_ok"
  | .expiryClears => "expiry_clears"
  | .normalCleared => "normal_cleared_by_state_change"
  | .stickyRecovery => "sticky_cleared_by_recovery"
  | .stickyKept => "sticky_kept_without_recovery"
  | .unchangedKeeps => "unchanged_state_keeps_ack"
  | .ackFrame => "ack_only_changes_as_stated"
  | .refuseOk => "refuse_ok"
  | .refuseAcked => "refuse_acked"
  | .ackSet => "accepted_ack_is_set"
  | .setEventOnce => "set_event_once"
  | .ackNotifyOnce => "ack_notify_once"
  | .clearedEventOnce => "cleared_event_once"
  | .handledIff => "handled_iff"
  | .problemWithheld => "problem_withheld_while_acked"
  | .commentsRemoved => "ack_comments_removed"
  | .rawConsistent => "raw_attribute_consistent"
  | .severityAck => "severity_counts_ack"
  | .expiryStored => "expiry_attr_as_requested"
  | .withheldStashed => "withheld_problem_is_stashed"
  | .stashFrame => "stash_only_when_withheld"
  | .notifIffDue => "state_notification_iff_due_and_clear"
  | .refusalJustified => "refusal_justified"
  | .ackComment => "ack_comment_as_requested"
  | .removalComments => "removal_removes_comments"
  | .commentTimer => "comment_timer_removes_only_expired"
  | .commentsFrame => "comments_only_change_as_stated"
  | .reminderWithheld => "reminder_withheld_while_acked"
  | .reminderIff => "reminder_iff_unhandled_hard_problem"
  | .stashWithheld => "stash_kept_while_acked"
  | .stashReleased => "stash_released_after_clearing"

/-- The requested expiry has passed at `now`. -/
def ranOut (sp : SpecSt) (now : Int) : Bool :=
  sp.ack != .none && sp.expiry != 0 && decide (sp.expiry < now)

/-- The acknowledgement the object still has when the operation at `now` begins. -/
def ackAt (sp : SpecSt) (now : Int) : Ack := if ranOut sp now then .none else sp.ack

/-- The expiry an acknowledge operation asks for (the plain external command has no such argument). -/
def requestedExpiry (via : Via) (expiry : Int) : Int :=
  match via with
  | .ext => 0
  | _ => expiry

/-- The state change the property speaks of: raw for services, Up/Down for hosts. -/
def changed (c : Cfg) (old new : SState) : Bool := proj c.kind old != proj c.kind new

def first (checks : List (Bool × Clause)) : Option Clause :=
  match checks with
  | [] => none
  | (bad, cl) :: rest => if bad then some cl else first rest

/-- When a state notification (Problem / Recovery) is due for a result is C01/C02's rule (`sendNotification`:
    hard change, volatile); it is evaluated on the state, state type and attempt the trace showed at the previous
    look. -/
def notificationDue (c : Cfg) (sp : SpecSt) (new : SState) : Bool :=
  sendNotification c { pending with state := sp.state, stype := sp.stype, attempt := sp.attempt } new

/-- The stored expiry the bookkeeping expects after the look. -/
def expiryAfter (sp : SpecSt) (op : Op) (o : Obs) : Int :=
  if o.ack == .none then 0
  else match op with
    | .ack via _ _ _ expiry _ => if o.acc then requestedExpiry via expiry else sp.expiry
    | _ => sp.expiry

/-- Clauses every look has to satisfy: events are counted once; handled iff it is a problem that is acknowledged
    (or in a downtime — C05's half of the attribute, `inDt` comes from the downtime operations), the severity class
    agrees, a set acknowledgement carries the requested expiry. -/
def common (sp : SpecSt) (op : Op) (o : Obs) (inDt : Bool) (nSet nClr nAckN : Nat) : List (Bool × Clause) :=
  [ (o.nSet != nSet, .setEventOnce),
    (o.nAckN != nAckN, .ackNotifyOnce),
    (o.nClr != nClr, .clearedEventOnce),
    (o.handled != (o.problem && (inDt || o.ack != .none)), .handledIff),
    (o.sevAck != (o.problem && o.ack != .none), .severityAck),
    (o.ack != .none && o.expiry != expiryAfter sp op o, .expiryStored) ]

/-- Outside accepted results no state notification is requested and the stash stays as it is. -/
def quiet (sp : SpecSt) (o : Obs) : List (Bool × Clause) :=
  [ (o.nProbN != 0 || o.nRecN != 0, .notifIffDue),
    (o.nRem != 0 && o.ack != .none, .reminderWithheld),
    (o.suppP != sp.suppP || o.suppR != sp.suppR, .stashFrame) ]

/-- A look at which nothing but the running out of the acknowledgement may have happened (time advance, dropped
    result, refused acknowledge, timer pump, downtime, pause): it is gone iff its expiry has passed — then with one
    cleared event —, nothing is set, nothing is notified; the raw attribute is still what it was unless a reader inside
    the operation already noticed the expiry. -/
def lookCore (sp : SpecSt) (op : Op) (inDt : Bool) (frame : Clause) (o : Obs) : List (Bool × Clause) :=
  [ (ranOut sp op.now && o.ack != .none, .expiryClears), (o.ack != ackAt sp op.now, frame),
    (o.raw != sp.ack && o.raw != o.ack, .rawConsistent) ] ++
    common sp op o inDt 0 (if ranOut sp op.now then 1 else 0) 0

def lookChecks (sp : SpecSt) (op : Op) (inDt : Bool) (frame : Clause) (o : Obs) : List (Bool × Clause) :=
  lookCore sp op inDt frame o ++ quiet sp o

/-- Check one (operation, observation) pair.  `sp` is the bookkeeping before the operation. -/
def specStep (c : Cfg) (sp : SpecSt) (op : Op) (o : Obs) : Option Clause :=
  let a0 := ackAt sp op.now
  let c0 := if ranOut sp op.now then 1 else 0
  match op with
  | .result new _ execEnd _ =>
    if o.acc then
      let sc := changed c sp.state new
      let rec_ := sc && isOK c.kind new
      let a1 : Ack := if sc && (a0 == .normal || (a0 == .sticky && isOK c.kind new)) then .none else a0
      let c1 := if a0 != .none && a1 == .none then 1 else 0
      -- the state notification of this result: due by C01/C02's rule and the object not paused; a recovery is a
      -- change from not-OK to OK; withheld while acknowledged / in a downtime / while something is stashed
      let due := notificationDue c sp new && !sp.paused
      let recovery := isOK c.kind new && !isOK c.kind sp.state
      let stash := due && (o.ack != .none || sp.inDt || sp.suppP || sp.suppR)
      first ([ (o.state != new, .stateRecorded),
               (o.problem != !isOK c.kind new, .problemIffNotOk),
               (ranOut sp op.now && o.ack != .none, .expiryClears),
               (a0 == .normal && sc && o.ack != .none, .normalCleared),
               (a0 == .sticky && rec_ && o.ack != .none, .stickyRecovery),
               (a0 == .sticky && !rec_ && o.ack != .sticky, .stickyKept),
               (!sc && o.ack != a0, .unchangedKeeps),
               (o.ack != a1, .ackFrame),
               -- (an implementation may or may not have evaluated the expiry inside the operation)
               (o.raw != sp.ack && o.raw != o.ack, .rawConsistent) ] ++
             common sp op o sp.inDt 0 (c0 + c1) 0 ++
             [ (o.nProbN != 0 && o.ack != .none, .problemWithheld),
               (due && !recovery && o.ack != .none && !o.suppP, .withheldStashed),
               (o.suppP != (sp.suppP || (stash && !recovery)) || o.suppR != (sp.suppR || (stash && recovery)), .stashFrame),
               (o.nProbN != (if due && !stash && !recovery then 1 else 0) ||
                o.nRecN != (if due && !stash && recovery then 1 else 0), .notifIffDue),
               (o.comments != (if o.ack == .none then sp.comments.filter (keepsComment execEnd) else sp.comments),
                 .commentsRemoved),
               (o.nRem != 0, .reminderIff) ])
    else
      -- a result that was not accepted changes nothing
      first (lookChecks sp op sp.inDt .unchangedKeeps o ++ [ (o.comments != sp.comments, .commentsFrame),
                                                           (o.nRem != 0, .reminderIff) ])
  | .ack via sticky notify persistent expiry now =>
    if o.acc then
      let e := requestedExpiry via expiry
      let gone := e != 0 && decide (e < now)   -- accepted with an expiry that has already passed (cluster only)
      first ([ (via != .cluster && isOK c.kind sp.state, .refuseOk),
               (a0 != .none, .refuseAcked),
               (o.raw != ackTypeOf sticky, .ackSet),
               (gone && o.ack != .none, .expiryClears),
               (!gone && o.ack != ackTypeOf sticky, .ackSet) ] ++
             common sp op o sp.inDt 1 (c0 + if gone then 1 else 0) (if notify && !sp.paused then 1 else 0) ++
             quiet sp o ++
             [ (via != .cluster && o.comments != insertCmt ⟨now, persistent, e⟩ sp.comments, .ackComment),
               (via == .cluster && o.comments != sp.comments, .commentsFrame),
               (o.nRem != 0, .reminderIff) ])
    else
      first ([ (!((via != .cluster && isOK c.kind sp.state) || a0 != .none ||
                  ((via == .api || via == .extExpire) && expiry != 0 && decide (expiry ≤ now))), .refusalJustified) ] ++
             lookChecks sp op sp.inDt .ackFrame o ++ [ (o.comments != sp.comments, .commentsFrame),
                                                        (o.nRem != 0, .reminderIff) ])
  | .remove via _ =>
    first ([ (o.ack != .none, .ackFrame), (o.raw != .none, .rawConsistent) ] ++
           common sp op o sp.inDt 0 (if sp.ack != .none then 1 else 0) 0 ++ quiet sp o ++
           [ (via != .cluster && o.comments != sp.comments.filter (·.persistent), .removalComments),
             (via == .cluster && o.comments != sp.comments, .commentsFrame),
             (o.nRem != 0, .reminderIff) ])
  | .advance _ => first (lookChecks sp op sp.inDt .ackFrame o ++ [ (o.comments != sp.comments, .commentsFrame),
                                                                 (o.nRem != 0, .reminderIff) ])
  -- the comment-expiry timer touches comments only, and only expired non-persistent ones (whether it ran is the
  -- timer's business, not the property's)
  | .pump now _ =>
    first (lookChecks sp op sp.inDt .ackFrame o ++
           [ (o.comments != sp.comments && o.comments != sp.comments.filter (survivesExpiry now), .commentTimer),
             (o.nRem != 0, .reminderIff) ])
  -- a downtime neither sets nor clears an acknowledgement
  | .downtime on _ => first (lookChecks sp op on .ackFrame o ++ [ (o.comments != sp.comments, .commentsFrame),
                                                                   (o.nRem != 0, .reminderIff) ])
  -- nor does pausing
  | .pause _ _ => first (lookChecks sp op sp.inDt .ackFrame o ++ [ (o.comments != sp.comments, .commentsFrame),
                                                                   (o.nRem != 0, .reminderIff) ])
  -- a due reminder neither sets nor clears anything; it is attempted iff the object is a hard problem, its first
  -- Problem notification is not still stashed, and it is neither in a downtime nor acknowledged
  | .remind _ =>
    first (lookChecks sp op sp.inDt .ackFrame o ++
           [ (o.comments != sp.comments, .commentsFrame),
             (o.nRem != (if sp.stype == .hard && !isOK c.kind sp.state && !sp.suppP && !sp.inDt && o.ack == .none then 1 else 0),
               .reminderIff) ])
  -- "(to be handled by C02 afterwards)": a run of the suppressed-notification handler neither sets nor clears anything;
  -- while the object is acknowledged (or in a downtime, or paused) what was withheld stays withheld — nothing requested,
  -- the stash as it was —; once it is neither, and in a hard state, the stash is emptied and the notification that is
  -- still owed — the current state differs from the one before the suppression — requested once, under the type of the
  -- current state
  | .fire _ =>
    let release := (sp.suppP || sp.suppR) && !sp.paused && !sp.inDt && o.ack == .none && sp.stype == .hard
    let owed := release && changed c sp.before sp.state
    let recovery := isOK c.kind sp.state
    first (lookCore sp op sp.inDt .ackFrame o ++
           [ ((o.nProbN != 0 || o.nRecN != 0) && o.ack != .none, .problemWithheld),
             ((o.ack != .none || sp.inDt || sp.paused) &&
                (o.nProbN != 0 || o.nRecN != 0 || o.suppP != sp.suppP || o.suppR != sp.suppR), .stashWithheld),
             (o.nProbN != (if owed && !recovery then 1 else 0) || o.nRecN != (if owed && recovery then 1 else 0) ||
              o.suppP != (sp.suppP && !release) || o.suppR != (sp.suppR && !release), .stashReleased),
             (o.comments != sp.comments, .commentsFrame),
             (o.nRem != 0, .reminderIff) ])

/-- Bookkeeping after the look: read off the observation; the requested expiry is remembered when an
    acknowledgement is accepted and forgotten when none is set any more. -/
def specNext (sp : SpecSt) (op : Op) (o : Obs) : SpecSt :=
  { state := o.state, ack := o.ack, comments := o.comments,
    inDt := (match op with
             | .downtime on _ => on
             | _ => sp.inDt),
    expiry := expiryAfter sp op o,
    stype := o.stype, attempt := o.attempt, suppP := o.suppP, suppR := o.suppR,
    paused := (match op with
               | .pause on _ => on
               | _ => sp.paused),
    -- an accepted result that stashes a state notification into an empty stash remembers the state it found
    before := (match op with
               | .result _ _ _ _ =>
                 if o.acc && !(sp.suppP || sp.suppR) && (o.suppP || o.suppR) then (if sp.stype == .hard then sp.state else .ok)
                 else sp.before
               | _ => sp.before) }

def specTrace (c : Cfg) : SpecSt → List (Op × Obs) → Option Clause
  | _, [] => none
  | sp, (op, o) :: rest =>
    match specStep c sp op o with
    | some cl => some cl
    | none => specTrace c (specNext sp op o) rest

end Icinga.C06

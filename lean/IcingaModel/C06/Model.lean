/-
  C06 — acknowledgements.  Executable transcription of

    Checkable::GetAcknowledgement / IsAcknowledged / AcknowledgeProblem / ClearAcknowledgement /
      GetProblem / GetHandled                                  (lib/icinga/checkable.cpp:139-217)
    the acknowledgement part of Checkable::ProcessCheckResult   (lib/icinga/checkable-check.cpp:264-288,
      314-336, 503-517)
    Checkable::RemoveAckComments                                (lib/icinga/checkable-comment.cpp:22-44)
    ApiActions::AcknowledgeProblem / RemoveAcknowledgement      (lib/icinga/apiactions.cpp:210-294)
    ExternalCommandProcessor::Acknowledge{Svc,Host}Problem[Expire], Remove{Svc,Host}Acknowledgement
                                                                (lib/icinga/externalcommandprocessor.cpp:597-741)
    ClusterEvents::AcknowledgementSetAPIHandler / AcknowledgementClearedAPIHandler
                                                                (lib/icinga/clusterevents.cpp:802-911)
    the reminder guards of NotificationComponent::NotificationTimerHandler
                                                                (lib/notification/notificationcomponent.cpp:225-261)

  on top of the C01 model of the soft/hard state machine.  Core Lean only.

    Comment::CommentsExpireTimerHandler                         (lib/icinga/comment.cpp:240-259)

  Times are integers (seconds of the virtual clock).  A downtime enters only as the bit "a downtime is in effect"
  (its own life cycle is C05's).  Pausing (HA: the object is active on the other zone member) enters as the bit
  `paused` that the `pause` operation sets (`ConfigObject::SetAuthority`); the stash of withheld state notifications
  (`suppressed_notifications`) is modelled as its two state bits Problem / Recovery.  Not in the model: reachability,
  flapping (the harness keeps them off), the zone check of the cluster handlers (C13), the suppressed-notification timer
  itself (C02: when it runs, `IsLikelyToBeCheckedSoon`, recent parent recovery — its handler `FireSuppressedNotifications`
  is the `fire` operation), the HTTP layer in front of the API action (an HTTP
  request is modelled as the API action it dispatches to).
-/
import IcingaModel.C01.Model

namespace Icinga.C06

open Icinga.C01

/-- `AcknowledgementType` (lib/icinga/checkable.ti:20-25): None=0, Normal=1, Sticky=2. -/
inductive Ack | none | normal | sticky
  deriving DecidableEq, Repr, Inhabited

def Ack.toNat : Ack → Nat | .none => 0 | .normal => 1 | .sticky => 2
def Ack.ofNat? : Nat → Option Ack | 0 => some .none | 1 => some .normal | 2 => some .sticky | _ => Option.none

/-- 1 if an acknowledgement is set, else 0 (ghost bookkeeping for the event counters). -/
def Ack.ind : Ack → Nat | .none => 0 | _ => 1

/-- A comment of entry type `CommentAcknowledgement` as far as the property looks at it. -/
structure Cmt where
  entry : Int          -- entry_time (Comment::AddComment: Utility::GetTime())
  persistent : Bool
  expire : Int         -- expire_time, 0 = never
  deriving DecidableEq, Repr

/-- The set of existing acknowledgement comments is kept as a list sorted by (entry, persistent, expire) —
    the canonical form in which the harness prints it. -/
def Cmt.le (a b : Cmt) : Bool :=
  decide (a.entry < b.entry) ||
  (a.entry == b.entry && ((!a.persistent && b.persistent) || (a.persistent == b.persistent && decide (a.expire ≤ b.expire))))

def insertCmt (c : Cmt) : List Cmt → List Cmt
  | [] => [c]
  | d :: rest => if c.le d then c :: d :: rest else d :: insertCmt c rest

/-- Entry point of an acknowledgement. -/
inductive Via
  | api         -- ApiActions::AcknowledgeProblem
  | ext         -- ACKNOWLEDGE_{HOST,SVC}_PROBLEM
  | extExpire   -- ACKNOWLEDGE_{HOST,SVC}_PROBLEM_EXPIRE
  | cluster     -- event::SetAcknowledgement
  deriving DecidableEq, Repr

/-- Entry point of a removal. -/
inductive RVia
  | api         -- ApiActions::RemoveAcknowledgement
  | ext         -- REMOVE_{HOST,SVC}_ACKNOWLEDGEMENT
  | cluster     -- event::ClearAcknowledgement
  deriving DecidableEq, Repr

inductive Op
  | result (state : SState) (execStart execEnd now : Int)
  | ack (via : Via) (sticky notify persistent : Bool) (expiry now : Int)
  | remove (via : RVia) (now : Int)
  | advance (now : Int)
  /-- `Timer::VerifFireDue(now)`; `fired` (did the comment-expiry timer run) is the implementation's own value -/
  | pump (now : Int) (fired : Bool)
  /-- a downtime in effect is added (`on`) or removed -/
  | downtime (on : Bool) (now : Int)
  /-- `SetAuthority(!on)`: the object becomes paused (`on`) or active again -/
  | pause (on : Bool) (now : Int)
  /-- `NotificationComponent::NotificationTimerHandler()` at a moment at which the reminder of the object's (one,
      unfiltered, unpaused) Notification object is due -/
  | remind (now : Int)
  /-- `Checkable::FireSuppressedNotifications()` — what the checkable's 5 s timer `FireSuppressedNotificationsTimer` calls
      for every host and service — at a moment at which no check is imminent and no parent has just recovered -/
  | fire (now : Int)
  deriving Repr

def Op.now : Op → Int
  | .result _ _ _ n => n
  | .ack _ _ _ _ _ n => n
  | .remove _ n => n
  | .advance n => n
  | .pump n _ => n
  | .downtime _ n => n
  | .pause _ n => n
  | .remind n => n
  | .fire n => n

structure MSt where
  base : St             -- C01: state_raw, state_type, check_attempt, last_hard_state_raw, last result's execution_start
  ack : Ack             -- acknowledgement (raw attribute)
  expiry : Int          -- acknowledgement_expiry, 0 = none
  comments : List Cmt   -- existing comments of entry type acknowledgement
  suppProblem : Bool    -- suppressed_notifications & NotificationProblem ≠ 0
  suppRecovery : Bool   -- suppressed_notifications & NotificationRecovery ≠ 0
  inDowntime : Bool     -- Checkable::IsInDowntime(): some registered downtime is in effect
  paused : Bool         -- ConfigObject::IsPaused()
  stateBefore : SState  -- state_before_suppression (checkable.ti:178-180, default ServiceOK)
  deriving Repr, DecidableEq

/-- A never-checked, never-acknowledged checkable. -/
def init : MSt :=
  { base := pending, ack := .none, expiry := 0, comments := [], suppProblem := false, suppRecovery := false,
    inDowntime := false, paused := false, stateBefore := .ok }

/-- What one operation did besides changing the state (signals are ghost counters). -/
structure Out where
  acc : Bool := true    -- the entry point accepted the operation
  nSet : Nat := 0       -- OnAcknowledgementSet
  nClr : Nat := 0       -- OnAcknowledgementCleared
  nAckN : Nat := 0      -- OnNotificationsRequested(NotificationAcknowledgement)
  nProbN : Nat := 0     -- OnNotificationsRequested(NotificationProblem)
  nRecN : Nat := 0      -- OnNotificationsRequested(NotificationRecovery)
  raw : Ack := .none    -- the raw attribute `acknowledgement` after the operation, *before* anything looked at the object
  nRem : Nat := 0       -- reminder Problem notifications attempted (Notification::BeginExecuteNotification(…, reminder))
  deriving Repr, DecidableEq

/-- `Checkable::ClearAcknowledgement` (checkable.cpp:176-193): the cleared event fires iff it was set. -/
def clearAck (s : MSt) : MSt × Nat :=
  ({ s with ack := .none, expiry := 0 }, if s.ack != .none then 1 else 0)

/-- The guard of `Checkable::GetAcknowledgement` (checkable.cpp:141-147). -/
def expired (s : MSt) (now : Int) : Bool :=
  s.ack != .none && s.expiry != 0 && decide (s.expiry < now)

/-- `Checkable::GetAcknowledgement` (checkable.cpp:139-153): clears lazily when the expiry has passed.
    The value it returns is the `ack` field of the state it returns. -/
def getAck (s : MSt) (now : Int) : MSt × Nat :=
  if expired s now then clearAck s else (s, 0)

def ackTypeOf (sticky : Bool) : Ack := if sticky then .sticky else .normal

/-- `host->GetState() == HostUp` / `service->GetState() == ServiceOK`
    (apiactions.cpp:246-252, externalcommandprocessor.cpp:609, 635, 686, 713). -/
def stateOK (c : Cfg) (s : MSt) : Bool := isOK c.kind s.base.state

/-- Refusals that are decided *before* `IsAcknowledged()` is consulted.
    api: apiactions.cpp:233-252 (`expiry` given and `<= now`; the harness passes the parameter iff it is ≠ 0; OK/Up);
    ext: externalcommandprocessor.cpp:609, 686 (OK/Up);
    extExpire: :635-640, :713-717 (OK/Up; `timestamp != 0 && timestamp <= now`);
    cluster: none (clusterevents.cpp:802-834 only checks origin and zone). -/
def preRefuse (c : Cfg) (s : MSt) (via : Via) (expiry now : Int) : Bool :=
  match via with
  | .api => (expiry != 0 && decide (expiry ≤ now)) || stateOK c s
  | .ext => stateOK c s
  | .extExpire => stateOK c s || (expiry != 0 && decide (expiry ≤ now))
  | .cluster => false

/-- The value that ends up in `acknowledgement_expiry`.
    api: apiactions.cpp:266-267 passes `(…, Utility::GetTime(), timestamp)`;
    ext: externalcommandprocessor.cpp:620, 694 pass no expiry (default 0);
    extExpire: :650, :724 pass `(…, Utility::GetTime(), timestamp)` (since the repair of F-C06a, commit 6eaa5f1;
      before it `timestamp` landed in `changeTime` and the expiry stayed 0);
    cluster: clusterevents.cpp:843-845 passes `params->Get("expiry")`. -/
def storedExpiry (via : Via) (expiry : Int) : Int :=
  match via with
  | .api => expiry
  | .ext => 0
  | .extExpire => expiry
  | .cluster => expiry

/-- The `expire_time` of the comment that goes with the acknowledgement: apiactions.cpp:264-265 and
    externalcommandprocessor.cpp:649, 723 pass the expiry, :619, :693 pass 0. -/
def commentExpire (via : Via) (expiry : Int) : Int :=
  match via with
  | .ext => 0
  | _ => expiry

/-- `Comment::AddComment(checkable, CommentAcknowledgement, …)` precedes `AcknowledgeProblem` in the API action and
    the external commands; the cluster handler creates none (comments are synchronised as objects of their own). -/
def addsComment : Via → Bool
  | .cluster => false
  | _ => true

/-- One acknowledge operation. -/
def ackStep (c : Cfg) (s : MSt) (via : Via) (sticky notify persistent : Bool) (expiry now : Int) : MSt × Out :=
  if preRefuse c s via expiry now then (s, { acc := false })
  else
    -- `checkable->IsAcknowledged()` (apiactions.cpp:254, externalcommandprocessor.cpp:612, 642, 689, 719,
    -- clusterevents.cpp:836): lazy expiry, then "already acknowledged"
    let g := getAck s now
    if g.1.ack != .none then (g.1, { acc := false, nClr := g.2 })
    else
      -- Comment::AddComment; Checkable::AcknowledgeProblem (checkable.cpp:160-174): one Acknowledgement
      -- notification request iff `notify && !IsPaused()` (:165), one OnAcknowledgementSet in any case
      ({ g.1 with ack := ackTypeOf sticky, expiry := storedExpiry via expiry,
                  comments := if addsComment via then insertCmt ⟨now, persistent, commentExpire via expiry⟩ g.1.comments
                              else g.1.comments },
       { acc := true, nSet := 1, nClr := g.2, nAckN := if notify && !s.paused then 1 else 0 })

/-- Remove-acknowledgement: `ClearAcknowledgement`, then — API action (apiactions.cpp:290-291) and external
    command (externalcommandprocessor.cpp:663-668, 737-741) — `RemoveAckComments()` with no time limit, which
    spares persistent comments; the cluster handler (clusterevents.cpp:908) only clears. -/
def removeStep (s : MSt) (via : RVia) : MSt × Out :=
  let cl := clearAck s
  ({ cl.1 with comments := if via != .cluster then cl.1.comments.filter (·.persistent) else cl.1.comments },
   { acc := true, nClr := cl.2 })

/-- checkable-check.cpp:279-280: a normal acknowledgement goes with any state change, a sticky one only when the
    new state is OK/Up. -/
def clearsOnChange (k : Kind) (a : Ack) (new : SState) : Bool :=
  a == .normal || (a == .sticky && isOK k new)

/-- checkable-check.cpp:275-288: on a state change `GetAcknowledgement()` is consulted (lazy expiry) and the
    acknowledgement cleared if the rule says so; afterwards `GetAcknowledgement()` is consulted once more,
    unconditionally (line 286). -/
def resultAck (c : Cfg) (s : MSt) (new : SState) (now : Int) : MSt × Nat :=
  let sc := stateChange c.kind s.base.state new
  let g := if sc then getAck s now else (s, 0)
  let cl := if sc && clearsOnChange c.kind g.1.ack new then clearAck g.1 else (g.1, 0)
  let g2 := getAck cl.1 now
  (g2.1, g.2 + cl.2 + g2.2)

/-- `Checkable::RemoveAckComments(removedBy, createdBefore)` (checkable-comment.cpp:22-44): persistent comments and
    comments entered after `createdBefore` stay. -/
def keepsComment (createdBefore : Int) (cm : Cmt) : Bool :=
  cm.persistent || decide (cm.entry > createdBefore)

/-- checkable-check.cpp:320-331 (`send_notification`), with C01's transcription of state type and hard change; the
    volatile branch carries the SOFT NOT-OK → HARD OK exclusion too (since the repair of F-C02b, commit 6126182). -/
def sendNotification (c : Cfg) (b : St) (new : SState) : Bool :=
  let ta := nextTypeAttempt c b new
  let hc := hardChangeOf c b new ta.1
  let okOld := isOK c.kind b.state
  let okNew := isOK c.kind new
  ((hc && !(b.stype == .soft && okNew)) || (c.volatile && ta.1 == .hard && !(b.stype == .soft && okNew))) &&
    !(okOld && b.stype == .soft) && !(c.volatile && okOld && okNew)

/-- One accepted `ProcessCheckResult`. -/
def resultStep (c : Cfg) (s : MSt) (new : SState) (execStart execEnd now : Int) : MSt × Out :=
  let r : Res := { state := new, execStart := execStart, now := now }
  let a := resultAck c s new now
  -- :284-289, :335-336 `remove_acknowledgement_comments`
  let comments := if a.1.ack == .none then a.1.comments.filter (keepsComment execEnd) else a.1.comments
  -- :314-318 `suppress_notification` (reachable): in a downtime, or IsAcknowledged() after the clearing
  let acked := a.1.ack != .none || s.inDowntime
  let send := sendNotification c s.base new
  -- :227-228
  let recovery := isOK c.kind new && !isOK c.kind s.base.state
  -- :501-517 (not flapping): a paused object neither requests nor stashes; otherwise request now, or stash the
  -- type (Recovery / Problem) while suppressed or while a state notification is still stashed
  let due := send && !s.paused
  let stash := due && (acked || s.suppProblem || s.suppRecovery)
  -- :534-542: a state notification is stashed for the first time — remember the state before (OK unless it was hard)
  let before := if stash && !(s.suppProblem || s.suppRecovery) then (if s.base.stype == .hard then s.base.state else .ok)
                else s.stateBefore
  ({ a.1 with base := (stepCore c s.base r).1, comments := comments,
              suppProblem := s.suppProblem || (stash && !recovery), suppRecovery := s.suppRecovery || (stash && recovery),
              stateBefore := before },
   { acc := true, nClr := a.2, nProbN := if due && !stash && !recovery then 1 else 0,
     nRecN := if due && !stash && recovery then 1 else 0 })

/-- `Comment::CommentsExpireTimerHandler` (comment.cpp:240-259) with `Comment::IsExpired` (:119-124): an expired
    comment is removed unless it is a persistent acknowledgement comment. -/
def survivesExpiry (now : Int) (cm : Cmt) : Bool :=
  !(cm.expire != 0 && decide (cm.expire < now)) || cm.persistent

/-- The guards of a due reminder that do not consult the acknowledgement (notificationcomponent.cpp:233-247): hard state,
    not OK/Up, no Problem notification stashed for the checkable ("don't send reminder notifications before initial
    ones"), not in a downtime (`IsInDowntime()` stands before `IsAcknowledged()` in the `||` chain). -/
def remindable (c : Cfg) (s : MSt) : Bool :=
  s.base.stype == .hard && !isOK c.kind s.base.state && !s.suppProblem && !s.inDowntime

/-- A due reminder: when the other guards let it through, `IsAcknowledged()` is asked (lazy expiry) and the reminder
    attempted iff the object is not acknowledged (notificationcomponent.cpp:247-261). -/
def remindStep (c : Cfg) (s : MSt) (now : Int) : MSt × Out :=
  if remindable c s then
    let g := getAck s now
    (g.1, { nClr := g.2, nRem := if g.1.ack == .none then 1 else 0 })
  else (s, {})

/-- The guards of `Checkable::FireSuppressedNotifications` that stand before the suppression test
    (checkable-notification.cpp:134-146; the object is active and notifications are enabled): not paused, something stashed. -/
def fireConsiders (s : MSt) : Bool :=
  !s.paused && (s.suppProblem || s.suppRecovery)

/-- `Checkable::FireSuppressedNotifications` (checkable-notification.cpp:132-249), state notifications: the stash is
    *processed* — emptied, and a notification of the current state's type requested iff the state differs from the one
    before the suppression (Up/Down for hosts) — only when `NotificationReasonSuppressed` says no for Problem and Recovery
    (:305-311: reachable, `IsInDowntime()` before `IsAcknowledged()` in the `||` chain, so the lazy expiry is evaluated only
    outside a downtime) and the object is in a hard state (no check imminent, no parent just recovered: the harness sees to
    that); otherwise it is kept for the next run. -/
def fireStep (c : Cfg) (s : MSt) (now : Int) : MSt × Out :=
  if fireConsiders s then
    let g := if s.inDowntime then (s, 0) else getAck s now
    if s.inDowntime || g.1.ack != .none || s.base.stype != .hard then (g.1, { nClr := g.2 })
    else
      let differs := stateChange c.kind s.stateBefore s.base.state
      let recovery := isOK c.kind s.base.state
      ({ g.1 with suppProblem := false, suppRecovery := false },
       { nClr := g.2, nProbN := if differs && !recovery then 1 else 0, nRecN := if differs && recovery then 1 else 0 })
  else (s, {})

/-- One operation as the entry point performs it. -/
def opStep (c : Cfg) (s : MSt) : Op → MSt × Out
  | .result new es ee now =>
    -- checkable-check.cpp:181-204: an outdated result is dropped before anything is touched
    if stale s.base { state := new, execStart := es, now := now } then (s, { acc := false })
    else resultStep c s new es ee now
  | .ack via sticky notify persistent expiry now => ackStep c s via sticky notify persistent expiry now
  | .remove via _ => removeStep s via
  | .advance _ => (s, {})
  | .pump now fired => ({ s with comments := if fired then s.comments.filter (survivesExpiry now) else s.comments }, {})
  | .downtime on _ => ({ s with inDowntime := on }, {})
  | .pause on _ => ({ s with paused := on }, {})
  | .remind now => remindStep c s now
  | .fire now => fireStep c s now

/-- One operation followed by a look at the object at the same virtual time.  The harness first reads the raw
    attribute (`Out.raw`: no reader involved), then `GetHandled()`, `GetSeverity()` and `GetAcknowledgement()` in an
    order that the operation line chooses; each of the three goes through `GetAcknowledgement()` — `GetHandled`
    (checkable.cpp:213-216) and `GetSeverity` (host.cpp:174-199, service.cpp:120-160) via `IsAcknowledged()`, and only
    when they get that far — so whichever comes first performs the lazy expiry and all of them see its result. -/
def step (c : Cfg) (s : MSt) (op : Op) : MSt × Out :=
  let p := opStep c s op
  let g := getAck p.1 op.now
  (g.1, { p.2 with nClr := p.2.nClr + g.2, raw := p.1.ack })

/-- What the harness observes after each operation. -/
structure Obs where
  acc : Bool
  ack : Ack
  expiry : Int
  handled : Bool
  problem : Bool
  state : SState
  stype : SType
  attempt : Nat
  nSet : Nat
  nClr : Nat
  nAckN : Nat
  nProbN : Nat
  comments : List Cmt
  raw : Ack           -- raw attribute before the look
  sevAck : Bool       -- `GetSeverity()` puts the object into the "acknowledged" class (+512)
  suppP : Bool        -- suppressed_notifications & NotificationProblem
  suppR : Bool        -- suppressed_notifications & NotificationRecovery
  nRecN : Nat
  nRem : Nat
  deriving Repr, DecidableEq

/-- `Checkable::GetProblem` (checkable.cpp:206-211). -/
def problemOf (c : Cfg) (s : MSt) : Bool :=
  s.base.lastExec.isSome && !isOK c.kind s.base.state

/-- `Checkable::GetHandled` (checkable.cpp:213-216). -/
def handledOf (c : Cfg) (s : MSt) : Bool :=
  problemOf c s && (s.inDowntime || s.ack != .none)

/-- `Host::GetSeverity` (host.cpp:174-199) / `Service::GetSeverity` (service.cpp:120-160): a checked object that is
    not OK/Up is put into the acknowledged class (+512) iff `IsAcknowledged()`, before downtime and reachability are
    asked.  (`HasBeenChecked()` ∧ not OK/Up is `GetProblem()`.) -/
def sevAckOf (c : Cfg) (s : MSt) : Bool :=
  problemOf c s && s.ack != .none

def obsOf (c : Cfg) (p : MSt × Out) : Obs :=
  { acc := p.2.acc, ack := p.1.ack, expiry := p.1.expiry, handled := handledOf c p.1, problem := problemOf c p.1,
    state := p.1.base.state, stype := p.1.base.stype, attempt := p.1.base.attempt,
    nSet := p.2.nSet, nClr := p.2.nClr, nAckN := p.2.nAckN, nProbN := p.2.nProbN, comments := p.1.comments,
    raw := p.2.raw, sevAck := sevAckOf c p.1, suppP := p.1.suppProblem, suppR := p.1.suppRecovery, nRecN := p.2.nRecN,
    nRem := p.2.nRem }

/-- Run a history, collecting (operation, observation) pairs. -/
def trace (c : Cfg) : MSt → List Op → List (Op × Obs)
  | _, [] => []
  | s, op :: ops => let p := step c s op; (op, obsOf c p) :: trace c p.1 ops

def run (c : Cfg) (s : MSt) (ops : List Op) : MSt :=
  ops.foldl (fun s op => (step c s op).1) s

/-- Ghost totals of OnAcknowledgementSet / OnAcknowledgementCleared over a history. -/
def totals (c : Cfg) : MSt → List Op → Nat × Nat
  | _, [] => (0, 0)
  | s, op :: ops =>
    let p := step c s op
    let t := totals c p.1 ops
    (p.2.nSet + t.1, p.2.nClr + t.2)

end Icinga.C06

/-
  C08 — several TimePeriod objects and sequences of operations on them.

  `Model.lean` transcribes what ONE `UpdateRegion` / `Start` / timer-loop body does to ONE period,
  with the segment lists of the included and excluded periods as a parameter (`UpdIn.incs/excs`).
  Here that parameter is no longer free: a `World` holds every configured period (its
  `prefer_includes`, `includes`, `excludes` attributes — timeperiod.ti — and its state), the lists
  that are merged are looked up BY NAME in the current world exactly when the operation runs
  (`TimePeriod::GetByName`, timeperiod.cpp:251-274: names that resolve to no object are skipped),
  and a run is any sequence of the three production operations:

    * `update id b e clear own` — `UpdateRegion(b, e, clear)` on one object,
    * `start id now own`        — activation, `TimePeriod::Start` (timeperiod.cpp:22-36),
    * `tick now order own`      — one run of `UpdateTimerHandler` (timeperiod.cpp:324-346): the loop
                                  body for every ACTIVE period, in the iteration order `order`
                                  (`ConfigType::GetObjectsByType` — an input: any order is allowed).

  `own` is what the period's update function returns when asked (the calendar layer or a native
  function).  The trace of a run is the list of observations (`UpdObs` / `TickObs`, Spec.lean) that
  the specification predicate reads.  Core Lean only.
-/
import IcingaModel.C08.Spec

namespace Icinga.C08

/-- The configuration attributes of one TimePeriod that the interval layer reads (timeperiod.ti:20-31). -/
structure PCfg where
  prefer : Bool
  incs : List Nat
  excs : List Nat
  deriving Repr, DecidableEq

structure PEntry where
  id : Nat
  cfg : PCfg
  st : Period := {}
  active : Bool := false
  deriving Repr

abbrev World := List PEntry

/-- `TimePeriod::GetByName`. -/
def World.find (W : World) (id : Nat) : Option PEntry := List.find? (fun en => en.id == id) W

/-- The segment lists `Merge` reads for a list of names, at this moment (timeperiod.cpp:251-274,
    `if (!timeperiod) continue`-style: an unknown name contributes nothing). -/
def World.segsOf (W : World) (ids : List Nat) : List (List Seg) :=
  ids.filterMap fun j => (W.find j).map (fun en => en.st.segs)

/-- The inputs of one `UpdateRegion` call of a period with configuration `c` in the world `W`. -/
def World.updIn (W : World) (c : PCfg) (own : List Seg) : UpdIn :=
  { prefer := c.prefer, own := own, incs := W.segsOf c.incs, excs := W.segsOf c.excs }

def World.set (W : World) (id : Nat) (f : PEntry → PEntry) : World :=
  W.map fun en => if en.id == id then f en else en

/-- What the update functions return in one timer run: per period id (none listed = nothing). -/
def ownOf (owns : List (Nat × List Seg)) (id : Nat) : List Seg :=
  match owns.find? (fun kv => kv.1 == id) with
  | some kv => kv.2
  | none => []

inductive Op
  | update (id : Nat) (b e : Int) (clear : Bool) (own : List Seg)
  | start (id : Nat) (now : Int) (own : List Seg)
  | tick (now : Int) (order : List Nat) (owns : List (Nat × List Seg))
  deriving Repr

inductive StepObs
  | upd (id : Nat) (o : UpdObs)
  | tick (id : Nat) (k : TickObs)
  deriving Repr

/-- The specification of one step of a run: the per-call predicates of Spec.lean. -/
def specStep : StepObs → Option Clause
  | .upd _ o => specUpdate o
  | .tick _ k => specTick k

/-- `UpdateRegion` on the object `id` (nothing happens for an unknown id). -/
def World.update (ts : List Int) (W : World) (id : Nat) (b e : Int) (clear : Bool) (own : List Seg) :
    World × List StepObs :=
  match W.find id with
  | none => (W, [])
  | some en =>
    let u := W.updIn en.cfg own
    (W.set id fun x => { x with st := x.st.updateRegion u b e clear },
     [.upd id (observe en.st u b e clear ts)])

/-- The loop of `UpdateTimerHandler` over `order`, against the world as it is when each period's turn
    comes (periods earlier in the order have been purged and extended already). -/
def World.tickLoop (ts : List Int) (now : Int) (owns : List (Nat × List Seg)) :
    World → List Nat → World × List StepObs
  | W, [] => (W, [])
  | W, id :: rest =>
    match W.find id with
    | none => World.tickLoop ts now owns W rest
    | some en =>
      if en.active then                                             -- :329-330 `if (!tp->IsActive()) continue`
        let u := W.updIn en.cfg (ownOf owns id)
        let W' := W.set id fun x => { x with st := x.st.tick u now }
        let r := World.tickLoop ts now owns W' rest
        (r.1, .tick id (observeTick en.st u now ts) :: r.2)
      else World.tickLoop ts now owns W rest

def World.step (ts : List Int) (W : World) : Op → World × List StepObs
  | .update id b e clear own => W.update ts id b e clear own
  | .start id now own =>
    -- Activate: the object becomes active, Start pre-fills [now, now + 24 h], clearing
    let r := W.update ts id now (now + 86400) true own
    (r.1.set id fun x => { x with active := true }, r.2)
  | .tick now order owns => World.tickLoop ts now owns W order

/-- A whole run and its trace; `ts` are the instants at which `IsInside` is asked after every step. -/
def World.run (ts : List Int) : World → List Op → World × List StepObs
  | W, [] => (W, [])
  | W, op :: ops =>
    let r := W.step ts op
    let r' := World.run ts r.1 ops
    (r'.1, r.2 ++ r'.2)

end Icinga.C08

/-
  C08 — calendar part of the property as an executable predicate over the *observed* result of
  `LegacyTimePeriod::ScriptFunc` (what it was asked: ranges dictionary, begin, end; what it
  returned: the segment list).  Written declaratively — closed forms on calendar days, own parser
  for the day definitions — not by running the model:

    an instant t lies in a returned segment  ⇔  there are a local calendar day D intersecting
    [begin, end], an entry whose day definition matches D, and one of its ranges b–e with
    mk(D, b) ≤ t < mk(D, e')   (e' = e on the same day; next day for wrapping ranges; 24:00 = next midnight)

  "matches": the day is the given calendar date / day of (that) month, counted from the end for
  negative numbers / has the given weekday / is the n-th (n-th last) such weekday of (that)
  month; a day range matches the days from its first to its last day, every `stride`-th day
  counted in *calendar days* from the first.  Where the documentation gives no meaning (plain
  weekday ranges, invalid dates, range end points that do not exist in the month) the predicate
  does not constrain the result.

  Local wall-clock time enters through `mkDay tz`, the oracle for libc/tzdata.
-/
import IcingaModel.C08.Calendar

namespace Icinga.C08

inductive DaySpec
  | date (y m d : Int)
  | monthDay (mon : Option Int) (n : Int)            -- mon 1-based; none = the month of the day looked at
  | weekday (w : Int)
  | nthWeekday (w n : Int) (mon : Option Int)
  deriving Repr, DecidableEq

structure DayDef where
  first : DaySpec
  last : Option DaySpec
  stride : Int
  deriving Repr, DecidableEq

def isLeap (y : Int) : Bool := y % 4 == 0 && (y % 100 != 0 || y % 400 == 0)

def daysInMonth (y m : Int) : Int :=
  if m == 2 then (if isLeap y then 29 else 28)
  else if m == 4 || m == 6 || m == 9 || m == 11 then 30 else 31

/-- n-th (n > 0) or n-th last (n < 0) day with weekday `w` of month `m` of year `y`, if the month has one. -/
def nthWeekdayOfMonth (w n y m : Int) : Option Int :=
  let first := daysFromCivil y m 1
  let last := first + daysInMonth y m - 1
  if n > 0 then
    let day := first + (w - weekdayOf first) % 7 + 7 * (n - 1)
    if day ≤ last then some day else none
  else if n < 0 then
    let day := last - (weekdayOf last - w) % 7 - 7 * (-n - 1)
    if day ≥ first then some day else none
  else none

/-- Does the single-day specification denote the day `D`?  `none` = not constrained. -/
def specMatches (s : DaySpec) (D : Int) : Option Bool :=
  let (y, m, d) := civilFromDays D
  match s with
  | .date y' m' d' =>
    if 1 ≤ m' ∧ m' ≤ 12 ∧ 1 ≤ d' ∧ d' ≤ daysInMonth y' m' then some (y == y' && m == m' && d == d') else none
  | .monthDay mon n =>
    let okMonth := match mon with | some mm => m == mm | none => true
    -- a day number the named month does not have (e.g. "april 31") has no documented meaning
    let exists_ := match mon with | some mm => decide (n ≤ daysInMonth y mm) && decide (-n ≤ daysInMonth y mm) | none => true
    if !exists_ then none
    else if n > 0 then some (okMonth && d == n)
    else if n < 0 then some (okMonth && d == daysInMonth y m + 1 + n)
    else none
  | .weekday w => some (weekdayOf D == w)
  | .nthWeekday w n mon =>
    let okMonth := match mon with | some mm => m == mm | none => true
    -- "5th friday of february" in a year where February has four: no documented meaning
    let exists_ := match mon with | some mm => (nthWeekdayOfMonth w n y mm).isSome | none => true
    if n == 0 || !exists_ then none
    else some (okMonth && nthWeekdayOfMonth w n y m == some D)

/-- The day a range end point denotes in the year/month context of `D`; `none` = not constrained. -/
def specResolve (s : DaySpec) (D : Int) : Option Int :=
  let (y, m, _) := civilFromDays D
  match s with
  | .date y' m' d' =>
    if 1 ≤ m' ∧ m' ≤ 12 ∧ 1 ≤ d' ∧ d' ≤ daysInMonth y' m' then some (daysFromCivil y' m' d') else none
  | .monthDay mon n =>
    let mm := match mon with | some mm => mm | none => m
    if n > 0 ∧ n ≤ daysInMonth y mm then some (daysFromCivil y mm n)
    else if n < 0 ∧ -n ≤ daysInMonth y mm then some (daysFromCivil y mm (daysInMonth y mm + 1 + n))
    else none
  | .weekday _ => none
  | .nthWeekday w n mon =>
    let mm := match mon with | some mm => mm | none => m
    nthWeekdayOfMonth w n y mm

def defMatches (df : DayDef) (D : Int) : Option Bool :=
  match df.last with
  | none =>
    -- a stride on a single day is harmless: the day itself has index 0
    specMatches df.first D
  | some l =>
    match specResolve df.first D, specResolve l D with
    | some b, some e =>
      some (decide (b ≤ D) && decide (D ≤ e) && (decide (df.stride ≤ 1) || (D - b) % df.stride == 0))
    | _, _ => none

/-! ### the spec's own reader for day definitions and time ranges -/

def monthNo (s : String) : Option Int := (monthFromString s).map (· + 1)

def readSpec (s : String) : Option DaySpec :=
  match (s.splitOn " ").filter (· ≠ "") with
  | [x] =>
    match weekdayFromString x with
    | some w => some (.weekday w)
    | none =>
      match x.splitOn "-" with
      | [y, m, d] =>
        if y.length = 4 ∧ m.length = 2 ∧ d.length = 2 then
          match y.toNat?, m.toNat?, d.toNat? with
          | some y, some m, some d => some (.date y m d)
          | _, _, _ => none
        else none
      | _ => none
  | [a, n] =>
    match n.toInt? with
    | none => none
    | some n =>
      if a = "day" then some (.monthDay none n)
      else match monthNo a, weekdayFromString a with
        | some m, _ => some (.monthDay (some m) n)
        | none, some w => some (.nthWeekday w n none)
        | none, none => none
  | [a, n, mo] =>
    match weekdayFromString a, n.toInt?, monthNo mo with
    | some w, some n, some m => some (.nthWeekday w n (some m))
    | _, _, _ => none
  | _ => none

def readDef (s : String) : Option DayDef :=
  let (body, stride?) : String × Option Int :=
    match s.splitOn " / " with
    | [b] => (b, some 1)
    | [b, st] => (b, st.trimAscii.toString.toInt?)
    | _ => (s, none)
  match stride? with
  | none => none
  | some stride =>
    match body.splitOn " - " with
    | [a] => (readSpec a).map fun f => { first := f, last := none, stride := stride }
    | [a, b] =>
      let fw := ((b.splitOn " ").filter (· ≠ "")).headD ""
      let b' := if fw.toInt?.isSome then ((a.splitOn " ").filter (· ≠ "")).headD "" ++ " " ++ b else b
      match readSpec a, readSpec b' with
      | some f, some l => some { first := f, last := some l, stride := stride }
      | _, _ => none
    | _ => none

def readTod (s : String) : Option Int :=
  match (s.splitOn ":").mapM String.toNat? with
  | some [h, m] => if h ≤ 24 ∧ m < 60 then some (h * 3600 + m * 60 : Nat) else none
  | some [h, m, sec] => if h ≤ 24 ∧ m < 60 ∧ sec < 60 then some (h * 3600 + m * 60 + sec : Nat) else none
  | _ => none

def readRanges (s : String) : Option (List (Int × Int)) :=
  (s.splitOn ",").mapM fun r =>
    match r.splitOn "-" with
    | [a, b] => do
      let a ← readTod a; let b ← readTod b
      if a ≤ 86400 ∧ b ≤ 86400 then pure (a, if a ≥ b then b + 86400 else b) else none
    | _ => none

/-- The segments the property prescribes for the local days `D0 … D1`; `none` = some entry is not
    constrained. -/
def expectedSegs (tz : Tz) (entries : List (DayDef × List (Int × Int))) : Nat → Int → Option (List Seg)
  | 0, _ => some []
  | n + 1, D =>
    let today : Option (List Seg) := entries.foldl (fun acc en =>
      match acc, defMatches en.1 D with
      | some l, some true =>
        some (l ++ (en.2.filterMap fun r =>
          let s : Seg := (mkDay tz D r.1, mkDay tz D r.2)
          if s.1 < s.2 then some s else none))
      | some l, some false => some l
      | _, _ => none) (some [])
    match today, expectedSegs tz entries n (D + 1) with
    | some a, some b => some (a ++ b)
    | _, _ => none

/-- Do two segment lists cover the same instants?  Checked at every boundary ± 1 of either list,
    which is complete for unions of half-open integer intervals.  Returns a differing instant. -/
def firstDifference (A B : List Seg) : Option Int :=
  let pts := (A ++ B).flatMap fun s => [s.1 - 1, s.1, s.1 + 1, s.2 - 1, s.2, s.2 + 1]
  pts.find? fun t => inside A t != inside B t

/-- The calendar predicate on one observed `ScriptFunc(ranges, b, e) = obs`.
    `some (clause, t)` names the violated clause and a witness instant. -/
def calSpec (tz : Tz) (ranges : List (String × String)) (b e : Int) (obs : List Seg) : Option (String × Int) :=
  let entries? := ranges.mapM fun kv => do
    let d ← readDef kv.1
    let r ← readRanges kv.2
    pure (d, r)
  match entries? with
  | none => none
  | some entries =>
    let D0 := localDay tz b
    let D1 := localDay tz e
    if e < b then none else
    match expectedSegs tz entries (D1 - D0 + 1).toNat D0 with
    | none => none
    | some exp =>
      match firstDifference obs exp with
      | some t => some ("cal_inside_iff_matching_day_and_range", t)
      | none => none

/-- Is there an entry with a stride > 1 whose day index, computed from seconds as
    legacytimeperiod.cpp:37 does, is not a whole number of days for some visited day (the range
    spans a UTC-offset change)?  The situation of the repaired F-C08b; coverage statistic only. -/
def strideAcrossDst (tz : Tz) (ranges : List (String × String)) (b e : Int) : Bool :=
  let D0 := localDay tz b
  let n := (localDay tz e - D0 + 1).toNat
  ranges.any fun kv =>
    match readDef kv.1 with
    | some df =>
      df.stride > 1 && (List.range n).any fun i =>
        let D := D0 + i
        match df.last with
        | some l =>
          match specResolve df.first D, specResolve l D with
          | some bd, some ed => decide (bd ≤ D) && decide (D ≤ ed) && (mkDay tz D 0 - mkDay tz bd 0) % 86400 != 0
          | _, _ => false
        | none => false
    | none => false

/-- Executable check of the assumptions the theorems make about the time-zone parameter (`TzOk`,
    `TzDrift` in IcingaProofs/C08/CalCore.lean) on the days `lo … hi`: every local day lasts 23–46 h,
    `localDay` maps the first and the last second of a day to that day, and the UTC offsets at the
    midnights differ by less than 12 h.  The driver evaluates it on the offset list probed from libc. -/
def tzOkOn (tz : Tz) (lo hi : Int) : Bool :=
  let m0 := mkDay tz lo 0
  (List.range (hi - lo).toNat).all fun i =>
    let D := lo + i
    let a := mkDay tz D 0
    let b := mkDay tz (D + 1) 0
    let drift := a - m0 - 86400 * (D - lo)
    decide (82800 ≤ b - a) && decide (b - a ≤ 165600) && localDay tz a == D && localDay tz (b - 1) == D &&
      decide (-21600 < drift) && decide (drift < 21600)

def dayFormName (k : String) : String :=
  match readDef k with
  | none => "other"
  | some df =>
    let one (s : DaySpec) : String := match s with
      | .date .. => "date" | .monthDay none n => if n < 0 then "day_neg" else "day"
      | .monthDay (some _) n => if n < 0 then "month_day_neg" else "month_day"
      | .weekday _ => "weekday" | .nthWeekday _ n none => if n < 0 then "nth_last_weekday" else "nth_weekday"
      | .nthWeekday _ n (some _) => if n < 0 then "nth_last_weekday_month" else "nth_weekday_month"
    match df.last with
    | none => one df.first
    | some _ => "range_" ++ one df.first ++ (if df.stride > 1 then "_stride" else "")

end Icinga.C08

/-
  C08 — the property (interval part) as an executable predicate over what was *observed* around one
  `UpdateRegion` call: the inputs the property speaks about (own ranges, the segment lists of the
  included and excluded periods, prefer_includes, the requested region), the window reported
  afterwards and the answers of `IsInside`.  It never looks at the model.

    inside the computed window:   inside  ⇔  (own ∪ includes) \ excludes          (prefer_includes = false)
                                  inside  ⇔  (own \ excludes) ∪ includes          (prefer_includes = true)
    outside the computed window:  inside  (documented default)
    the computed window contains the requested region

  "own" is what the update function returned for this region; for a non-clearing update the
  previously stored segments outside the refreshed region `[b', e)` also count as own.
-/
import IcingaModel.C08.Model

namespace Icinga.C08

/-- What one observed `UpdateRegion(b, e, clear)` call looked like from outside. -/
structure UpdObs where
  prefer : Bool
  clear : Bool
  b : Int                       -- requested begin
  e : Int                       -- requested end
  own : List Seg                -- segments returned by the update function
  incs : List (List Seg)        -- segment lists of the included periods (as observed before the call)
  excs : List (List Seg)        -- segment lists of the excluded periods
  preSegs : List Seg            -- own segment list before the call
  preVe : Option Int            -- valid_end before the call
  vb : Option Int               -- valid_begin after the call
  ve : Option Int               -- valid_end after the call
  postSegs : List Seg           -- segment list after the call
  queries : List (Int × Bool)   -- (t, IsInside(t)) asked after the call
  deriving Repr

inductive Clause
  | windowCovers | outsideWindow | insideFormula | noopUpdate | tickWindow | tickInside | refsAgree | ownComputed
  deriving Repr, DecidableEq

def Clause.name : Clause → String
  | .windowCovers => "window_covers_requested_region"
  | .outsideWindow => "outside_window_is_inside"
  | .insideFormula => "inside_iff_ranges_includes_excludes"
  | .noopUpdate => "update_before_valid_end_changes_nothing"
  | .tickWindow => "timer_update_window_reaches_from_now_to_a_day_ahead"
  | .tickInside => "inside_iff_ranges_includes_excludes_after_timer_update"
  | .refsAgree => "inside_agrees_with_included_and_excluded_periods"
  | .ownComputed => "own_ranges_computed_for_the_refreshed_region"

/-- The effective begin of the refreshed region. -/
def UpdObs.effB (o : UpdObs) : Int :=
  if o.clear then o.b else if o.b < numOf o.preVe then numOf o.preVe else o.b

/-- Is the call a no-op (non-clearing update that ends before the old valid_end)? -/
def UpdObs.noop (o : UpdObs) : Bool := !o.clear && decide (o.e < numOf o.preVe)

/-- The property's set formula at one instant. -/
def expectInside (o : UpdObs) (t : Int) : Bool :=
  let kept := if o.clear then false else inside o.preSegs t && !(decide (o.effB ≤ t) && decide (t < o.e))
  let own := kept || inside o.own t
  let inc := o.incs.any (fun L => inside L t)
  let exc := o.excs.any (fun L => inside L t)
  if o.prefer then (own && !exc) || inc else (own || inc) && !exc

def specQuery (o : UpdObs) (q : Int × Bool) : Option Clause :=
  match o.vb, o.ve with
  | some vb, some ve =>
    if q.1 < vb ∨ q.1 > ve then (if q.2 = true then none else some .outsideWindow)
    else if q.2 = expectInside o q.1 then none else some .insideFormula
  | _, _ => if q.2 = true then none else some .outsideWindow

def specQueries (o : UpdObs) : List (Int × Bool) → Option Clause
  | [] => none
  | q :: qs => match specQuery o q with
    | some c => some c
    | none => specQueries o qs

def specWindow (o : UpdObs) : Option Clause :=
  match o.vb, o.ve with
  | some vb, some ve => if vb ≤ o.effB ∧ o.e ≤ ve then none else some .windowCovers
  | _, _ => some .windowCovers

/-- The whole predicate for one observed update. -/
def specUpdate (o : UpdObs) : Option Clause :=
  if o.noop then (if canon o.postSegs = canon o.preSegs then none else some .noopUpdate)
  else match specWindow o with
    | some c => some c
    | none => specQueries o o.queries

/-! ### One run of the 300 s update timer on one period (`UpdateTimerHandler`)

  What the property demands of it: the period keeps answering by the same formula at every
  instant of its window from the purge cut-off (`now − 1 h`) on — what was stored before keeps
  counting as own outside the newly refreshed region `[old valid_end, now + 24 h)`, the newly
  refreshed region follows own/includes/excludes — and the window reaches from (at most) `now`
  to (at least) `now + 24 h`.  Instants before the cut-off are the purged past: not constrained
  (and how much of the past is kept is not the property's business: any cut-off ≤ now passes).  The record is the `UpdObs` of the non-clearing update the handler performs
  (`b` = the old `valid_end`, `e = now + 24 h`, `preSegs` = the segments observed BEFORE the
  handler ran), plus the cut-off and the old `valid_begin`. -/

structure TickObs where
  upd : UpdObs
  cutoff : Int
  now : Int
  preVb : Option Int
  deriving Repr

/-- The formula after a timer run: nothing refreshed ⇒ what was stored; else the update formula. -/
def expectTick (k : TickObs) (t : Int) : Bool :=
  if k.upd.noop then inside k.upd.preSegs t else expectInside k.upd t

def specTickWindow (k : TickObs) : Option Clause :=
  let o := k.upd
  let lo : Option Int := match k.preVb with
    | some x => some (if x < k.now then k.now else x)
    | none => none
  if o.noop then
    -- nothing refreshed: the end stays, the begin is at most the old one or `now`
    (if o.ve = o.preVe ∧ (match o.vb, lo with
        | some v, some l => decide (v ≤ l)
        | none, none => true
        | _, _ => false) = true then none else some .tickWindow)
  else match o.vb, o.ve with
    | some v, some w =>
      if v ≤ o.effB ∧ o.e ≤ w ∧ (match lo with | some l => decide (v ≤ l) | none => true) = true then none
      else some .tickWindow
    | _, _ => some .tickWindow

def specTickQuery (k : TickObs) (q : Int × Bool) : Option Clause :=
  if q.1 < k.cutoff then none
  else match k.upd.vb, k.upd.ve with
    | some vb, some ve =>
      if q.1 < vb ∨ q.1 > ve then (if q.2 = true then none else some .outsideWindow)
      else if q.2 = expectTick k q.1 then none else some .tickInside
    | _, _ => if q.2 = true then none else some .outsideWindow

def specTickQueries (k : TickObs) : List (Int × Bool) → Option Clause
  | [] => none
  | q :: qs => match specTickQuery k q with
    | some c => some c
    | none => specTickQueries k qs

def specTick (k : TickObs) : Option Clause :=
  match specTickWindow k with
  | some c => some c
  | none => specTickQueries k k.upd.queries

/-- The observation the model produces for one timer run on one period. -/
def observeTick (p : Period) (u : UpdIn) (now : Int) (ts : List Int) : TickObs :=
  let p' := p.tick u now
  { upd := { prefer := u.prefer, clear := false, b := numOf p.ve, e := now + 86400, own := u.own,
             incs := u.incs, excs := u.excs, preSegs := p.segs, preVe := p.ve, vb := p'.vb, ve := p'.ve,
             postSegs := p'.segs, queries := ts.map (fun t => (t, p'.isInside t)) },
    cutoff := now - 3600, now := now, preVb := p.vb }

/-! ### Agreement with the referenced periods themselves

  `specUpdate`/`specTick` take the included and excluded periods as the segment lists that were
  merged.  The property speaks about the periods: "… or in an included period and does not lie
  in an excluded period".  So, at an instant that lies in the window of the period AND in the
  window of every period it refers to, its answer must follow the formula with the referenced
  periods' OWN current answers.  `incNow` / `excNow` are those answers (`IsInside(t)` of each
  included / excluded period, asked at the same moment). -/

/-- The period's own part at `t`: what the update function returned, and what was stored before
    outside the refreshed region (everything that was stored, if nothing was refreshed). -/
def ownPart (o : UpdObs) (t : Int) : Bool :=
  if o.noop then inside o.preSegs t
  else (if o.clear then false else inside o.preSegs t && !(decide (o.effB ≤ t) && decide (t < o.e))) || inside o.own t

def expectWithRefs (o : UpdObs) (inc exc : Bool) (t : Int) : Bool :=
  if o.prefer then (ownPart o t && !exc) || inc else (ownPart o t || inc) && !exc

def specRefs (o : UpdObs) (incNow excNow : List Bool) (q : Int × Bool) : Option Clause :=
  match o.vb, o.ve with
  | some vb, some ve =>
    if q.1 < vb ∨ q.1 > ve then none
    else if q.2 = expectWithRefs o (incNow.any id) (excNow.any id) q.1 then none else some .refsAgree
  | _, _ => none

/-! ### The period's own ranges are computed for the whole refreshed region

  `specUpdate` takes "own" as what the update function returned.  The property speaks about the
  period's ranges: whenever a call refreshes a region `[b', e]` (throws the stored segments of that
  region away), the ranges must have been evaluated for a region that covers it — otherwise
  instants of the refreshed region that lie in a range are silently reported "outside".  Asking
  for more, or also when nothing is refreshed, is no violation.  `asked` = the `(begin, end)` the
  update function was invoked with, as observed (`none` = it was not invoked). -/

def specAsk (o : UpdObs) (asked : Option (Int × Int)) : Option Clause :=
  if o.noop then none
  else match asked with
    | some (fb, fe) => if fb ≤ o.effB ∧ o.e ≤ fe then none else some .ownComputed
    | none => some .ownComputed

/-- The observation the *model* produces for one call: this is the "trace of the model" the
    theorems speak about (the driver builds the same record from the implementation's output). -/
def observe (p : Period) (u : UpdIn) (b e : Int) (clear : Bool) (ts : List Int) : UpdObs :=
  let p' := p.updateRegion u b e clear
  { prefer := u.prefer, clear := clear, b := b, e := e, own := u.own, incs := u.incs, excs := u.excs,
    preSegs := p.segs, preVe := p.ve, vb := p'.vb, ve := p'.ve, postSegs := p'.segs,
    queries := ts.map (fun t => (t, p'.isInside t)) }

end Icinga.C08

/-
  C08 — the property (interval part) as an executable predicate over what was *observed* around one
  `UpdateRegion` call: the inputs the property speaks about (own ranges, the segment lists of the
  included and excluded periods, prefer_includes, the requested region), the window reported
  afterwards and the answers of `IsInside`.  It never looks at the model.

    inside the computed window:   inside  ⇔  (own ∪ includes) \ excludes          (prefer_includes = false)
                                  inside  ⇔  (own \ excludes) ∪ includes          (prefer_includes = true)
    outside the computed window:  inside  (documented default)
    the computed window contains the requested region

  "own" is what the update function returned for this region; for a non-clearing update the
  previously stored segments outside the refreshed region `[b', e)` also count as own.
-/
import IcingaModel.C08.Model

namespace Icinga.C08

/-- What one observed `UpdateRegion(b, e, clear)` call looked like from outside. -/
structure UpdObs where
  prefer : Bool
  clear : Bool
  b : Int                       -- requested begin
  e : Int                       -- requested end
  own : List Seg                -- segments returned by the update function
  incs : List (List Seg)        -- segment lists of the included periods (as observed before the call)
  excs : List (List Seg)        -- segment lists of the excluded periods
  preSegs : List Seg            -- own segment list before the call
  preVe : Option Int            -- valid_end before the call
  vb : Option Int               -- valid_begin after the call
  ve : Option Int               -- valid_end after the call
  postSegs : List Seg           -- segment list after the call
  queries : List (Int × Bool)   -- (t, IsInside(t)) asked after the call
  deriving Repr

inductive Clause
  | windowCovers | outsideWindow | insideFormula | noopUpdate
  deriving Repr, DecidableEq

def Clause.name : Clause → String
  | .windowCovers => "window_covers_requested_region"
  | .outsideWindow => "outside_window_is_inside"
  | .insideFormula => "inside_iff_ranges_includes_excludes"
  | .noopUpdate => "update_before_valid_end_changes_nothing"

/-- The effective begin of the refreshed region. -/
def UpdObs.effB (o : UpdObs) : Int :=
  if o.clear then o.b else if o.b < numOf o.preVe then numOf o.preVe else o.b

/-- Is the call a no-op (non-clearing update that ends before the old valid_end)? -/
def UpdObs.noop (o : UpdObs) : Bool := !o.clear && decide (o.e < numOf o.preVe)

/-- The property's set formula at one instant. -/
def expectInside (o : UpdObs) (t : Int) : Bool :=
  let kept := if o.clear then false else inside o.preSegs t && !(decide (o.effB ≤ t) && decide (t < o.e))
  let own := kept || inside o.own t
  let inc := o.incs.any (fun L => inside L t)
  let exc := o.excs.any (fun L => inside L t)
  if o.prefer then (own && !exc) || inc else (own || inc) && !exc

def specQuery (o : UpdObs) (q : Int × Bool) : Option Clause :=
  match o.vb, o.ve with
  | some vb, some ve =>
    if q.1 < vb ∨ q.1 > ve then (if q.2 = true then none else some .outsideWindow)
    else if q.2 = expectInside o q.1 then none else some .insideFormula
  | _, _ => if q.2 = true then none else some .outsideWindow

def specQueries (o : UpdObs) : List (Int × Bool) → Option Clause
  | [] => none
  | q :: qs => match specQuery o q with
    | some c => some c
    | none => specQueries o qs

def specWindow (o : UpdObs) : Option Clause :=
  match o.vb, o.ve with
  | some vb, some ve => if vb ≤ o.effB ∧ o.e ≤ ve then none else some .windowCovers
  | _, _ => some .windowCovers

/-- The whole predicate for one observed update. -/
def specUpdate (o : UpdObs) : Option Clause :=
  if o.noop then (if canon o.postSegs = canon o.preSegs then none else some .noopUpdate)
  else match specWindow o with
    | some c => some c
    | none => specQueries o o.queries

/-- The observation the *model* produces for one call: this is the "trace of the model" the
    theorems speak about (the driver builds the same record from the implementation's output). -/
def observe (p : Period) (u : UpdIn) (b e : Int) (clear : Bool) (ts : List Int) : UpdObs :=
  let p' := p.updateRegion u b e clear
  { prefer := u.prefer, clear := clear, b := b, e := e, own := u.own, incs := u.incs, excs := u.excs,
    preSegs := p.segs, preVe := p.ve, vb := p'.vb, ve := p'.ve, postSegs := p'.segs,
    queries := ts.map (fun t => (t, p'.isInside t)) }

end Icinga.C08

/-
  C08 — interval-algebra layer of time periods: literal transcription of
  `TimePeriod::AddSegment / RemoveSegment / Merge / UpdateRegion / IsInside`
  (lib/icinga/timeperiod.cpp) over integer segments.  Core Lean only.

  A segment is a pair (begin, end) of integer time stamps (the harness only uses integers, which
  binary64 represents exactly).  The segment list keeps the order of the C++ `Array`.
-/
namespace Icinga.C08

abbrev Seg := Int × Int

/-- Inner loop of `TimePeriod::IsInside` (timeperiod.cpp:291-297): `ts >= begin && ts < end` for
    some stored segment. -/
def inside (S : List Seg) (t : Int) : Bool :=
  S.any (fun s => decide (s.1 ≤ t) && decide (t < s.2))

/-- Loop of `TimePeriod::AddSegment` (timeperiod.cpp:60-94): merge into the *first* segment that
    contains / is contained in / touches-or-overlaps the new one; otherwise append at the end.
    The four `if … return` in source order. -/
def addSeg : List Seg → Int → Int → List Seg
  | [], b, e => [(b, e)]                                            -- :84-94 new segment appended
  | s :: rest, b, e =>
    if s.1 ≤ b ∧ s.2 ≥ e then s :: rest                             -- :61-62 fully contained
    else if s.1 ≥ b ∧ s.2 ≤ e then (b, e) :: rest                   -- :64-68 extend to both sides
    else if s.2 ≥ b ∧ s.2 ≤ e then (s.1, e) :: rest                 -- :70-73 extend to the right
    else if s.1 ≥ b ∧ s.1 ≤ e then (b, s.2) :: rest                 -- :75-78 extend to the left
    else s :: addSeg rest b e

/-- The last branch of the `RemoveSegment` loop body (timeperiod.cpp:152-159): two independent
    adjustments, in source order.  Since the repair of F-C08a (commit 9b846ed) the begin test is
    `begin >= b && begin < e` and the end test `end > b && end <= e`, so a segment that shares its
    begin or end with the removed range is cut as well. -/
def adjust (s : Seg) (b e : Int) : Seg :=
  let s1 : Seg := if s.1 ≥ b ∧ s.1 < e then (e, s.2) else s         -- :153-154
  if s1.2 > b ∧ s1.2 ≤ e then (s1.1, b) else s1                     -- :156-157

/-- Loop of `TimePeriod::RemoveSegment` (timeperiod.cpp:125-160). -/
def removeSeg : List Seg → Int → Int → List Seg
  | [], _, _ => []
  | s :: rest, b, e =>
    if s.1 ≥ b ∧ s.2 ≤ e then removeSeg rest b e                     -- :127-129 fully contained: dropped
    else if s.2 < b ∨ s.1 > e then s :: removeSeg rest b e           -- :132-135 not overlapping
    else if s.1 < b ∧ s.2 > e then                                   -- :138-150 cut between
      (s.1, b) :: (e, s.2) :: removeSeg rest b e
    else adjust s b e :: removeSeg rest b e                          -- :152-159

/-- Window bookkeeping at the head of AddSegment and RemoveSegment (timeperiod.cpp:49-53,110-114):
    `valid_begin`/`valid_end` only ever widen.  `none` = the attribute is Empty. -/
def widenLo (v : Option Int) (b : Int) : Option Int :=
  match v with
  | none => some b
  | some x => if b < x then some b else some x

def widenHi (v : Option Int) (e : Int) : Option Int :=
  match v with
  | none => some e
  | some x => if e > x then some e else some x

/-- The state attributes of one TimePeriod (timeperiod.ti:33-35). -/
structure Period where
  segs : List Seg := []
  vb : Option Int := none
  ve : Option Int := none
  deriving Repr, DecidableEq, BEq

def Period.add (p : Period) (s : Seg) : Period :=
  { segs := addSeg p.segs s.1 s.2, vb := widenLo p.vb s.1, ve := widenHi p.ve s.2 }

def Period.remove (p : Period) (s : Seg) : Period :=
  { segs := removeSeg p.segs s.1 s.2, vb := widenLo p.vb s.1, ve := widenHi p.ve s.2 }

/-- `TimePeriod::Merge` (timeperiod.cpp:204-219): every segment of the other period is added
    (include) or removed (exclude), in the other period's order. -/
def Period.merge (p : Period) (other : List Seg) (incl : Bool) : Period :=
  other.foldl (fun q s => if incl then q.add s else q.remove s) p

def Period.mergeAll (p : Period) (others : List (List Seg)) (incl : Bool) : Period :=
  others.foldl (fun q o => q.merge o incl) p

/-- `TimePeriod::IsInside` (timeperiod.cpp:282-300): outside the valid window (or with no window
    at all) the answer is `true`; both window bounds are inclusive. -/
def Period.isInside (p : Period) (t : Int) : Bool :=
  match p.vb, p.ve with
  | some vb, some ve => if t < vb ∨ t > ve then true else inside p.segs t
  | _, _ => true

/-- Inputs of one `UpdateRegion` call that the algebra does not define: the segments the `update`
    function returned, and the *current* segment lists of the included / excluded periods that
    `TimePeriod::GetByName` found (in configuration order). -/
structure UpdIn where
  prefer : Bool
  own : List Seg
  incs : List (List Seg)
  excs : List (List Seg)
  deriving Repr

/-- Everything after the `clearExisting` prologue of `UpdateRegion` (timeperiod.cpp:234-274):
    `RemoveSegment(begin, end)`, own segments, non-preferred of includes/excludes, preferred. -/
def Period.region (p : Period) (u : UpdIn) (b e : Int) : Period :=
  let p1 := p.remove (b, e)                                           -- :238
  let p2 := u.own.foldl (fun q s => q.add s) p1                       -- :240-245
  if u.prefer then (p2.mergeAll u.excs false).mergeAll u.incs true    -- :251-274, preferInclude
  else (p2.mergeAll u.incs true).mergeAll u.excs false                -- :251-274, !preferInclude

/-- Numeric reading of an Empty attribute in `begin < GetValidEnd()` (value-operators.cpp:555-556:
    Empty compares as 0). -/
def numOf (v : Option Int) : Int :=
  match v with
  | none => 0
  | some x => x

/-- `TimePeriod::UpdateRegion(begin, end, clearExisting)` (timeperiod.cpp:221-275).  With
    `clear = false` the region starts at the old `valid_end` and nothing happens when `end` lies
    before it. -/
def Period.updateRegion (p : Period) (u : UpdIn) (b e : Int) (clear : Bool) : Period :=
  if clear then ({ p with segs := [] } : Period).region u b e         -- :223-225
  else if e < numOf p.ve then p                                       -- :230-231
  else p.region u (if b < numOf p.ve then numOf p.ve else b) e        -- :227-228

/-- The begin that is actually passed to the update function (needed by the calendar layer and by
    the driver to replay non-clearing updates). -/
def Period.effBegin (p : Period) (b : Int) (clear : Bool) : Int :=
  if clear then b else if b < numOf p.ve then numOf p.ve else b

/-- The region the update function is invoked with by `UpdateRegion(b, e, clear)` (timeperiod.cpp:234:
    `GetUpdate()->Invoke({ this, begin, end })` AFTER `begin` was moved up to `valid_end` and after the early
    return): `none` = not invoked. -/
def Period.asked (p : Period) (b e : Int) (clear : Bool) : Option (Int × Int) :=
  if !clear && decide (e < numOf p.ve) then none else some (p.effBegin b clear, e)

/-! ### Activation and the 300 s update timer -/

/-- `TimePeriod::PurgeSegments(end)` (timeperiod.cpp:174-202): nothing happens without a window or
    when the window begins after `c`; otherwise `valid_begin` MOVES FORWARD to `c` (the one place
    where the window shrinks) and the segments that end before `c` are dropped (a segment that
    straddles `c` is kept whole). -/
def Period.purge (p : Period) (c : Int) : Period :=
  match p.vb with
  | none => p                                                          -- :182
  | some vb =>
    if c < vb then p                                                   -- :182
    else { p with vb := some c, segs := p.segs.filter (fun s => decide (s.2 ≥ c)) }   -- :185,196-199

/-- `TimePeriod::Start` (timeperiod.cpp:33-35): pre-fill the next 24 hours, clearing. -/
def Period.start (p : Period) (u : UpdIn) (now : Int) : Period :=
  p.updateRegion u now (now + 86400) true

/-- Body of the loop of `TimePeriod::UpdateTimerHandler` for one active period
    (timeperiod.cpp:332-341): purge what ended more than an hour ago, then extend the window,
    non-clearing, from the current `valid_end` (Empty reads as 0) to `now + 24 h`. -/
def Period.tick (p : Period) (u : UpdIn) (now : Int) : Period :=
  let q := p.purge (now - 3600)                                        -- :336
  q.updateRegion u (numOf q.ve) (now + 86400) false                -- :338,341

/-! ### Canonical form of a segment list (part of the oracle: the driver compares denotations)

  The property speaks about the covered set, not about how `AddSegment`/`RemoveSegment` happen to
  split it into segments, so the correspondence compares `canon` of the implementation's list with
  `canon` of the model's: empty segments dropped, sorted by begin, overlapping and touching
  segments merged into maximal intervals.  `canon_preserves_inside` (IcingaProofs/C08.lean) shows
  that equal canonical forms imply equal answers of `inside` at every instant. -/

def insertSeg (s : Seg) : List Seg → List Seg
  | [] => [s]
  | x :: xs => if s.1 ≤ x.1 then s :: x :: xs else x :: insertSeg s xs

def sortSegs : List Seg → List Seg
  | [] => []
  | s :: rest => insertSeg s (sortSegs rest)

/-- Merge pass; `cur` is the interval being grown.  Two intervals are joined when they overlap or
    touch (tested symmetrically, so that the pass is denotation-preserving on any list, sorted or not). -/
def mergeRun (cur : Seg) : List Seg → List Seg
  | [] => [cur]
  | x :: xs =>
    if x.1 ≤ cur.2 ∧ cur.1 ≤ x.2 then
      mergeRun (if x.1 < cur.1 then x.1 else cur.1, if cur.2 < x.2 then x.2 else cur.2) xs
    else cur :: mergeRun x xs

def canon (S : List Seg) : List Seg :=
  match sortSegs (S.filter (fun s => decide (s.1 < s.2))) with
  | [] => []
  | s :: rest => mergeRun s rest

/-! ### list-level folds used by `Merge` (stated separately for the proofs) -/

def removeAll (S : List Seg) (X : List Seg) : List Seg :=
  X.foldl (fun S x => removeSeg S x.1 x.2) S

def addAll (S : List Seg) (X : List Seg) : List Seg :=
  X.foldl (fun S x => addSeg S x.1 x.2) S

end Icinga.C08

/-
  C08 — calendar layer: literal transcription of `LegacyTimePeriod::ScriptFunc` and the functions it
  uses (lib/icinga/legacytimeperiod.cpp).  Core Lean only.

  Time zone: libc (`mktime`, `localtime_r`) and the tz database are *parameters* of the model.  The
  harness probes libc for the UTC offsets and passes them as `Tz`: a list of `(from, offset)`
  pairs, ascending; the first offset also applies before its `from`.

  A `struct tm` whose fields need not be normalised is represented by its naive local second count
  `day * 86400 + hour * 3600 + min * 60 + sec`, where `day` comes from `daysFromCivil` with
  out-of-range month/day values carried over — that is what `mktime` does with the fields before it
  looks for the UTC offset.  All `tm` values the code builds have `tm_isdst = -1`.
-/
import IcingaModel.C08.Model

namespace Icinga.C08

abbrev Tz := List (Int × Int)

/-- UTC offset in effect at the instant `t`. -/
def offAt : Tz → Int → Int
  | [], _ => 0
  | (_, o) :: rest, t => go o rest t
where
  go (cur : Int) : Tz → Int → Int
    | [], _ => cur
    | (f, o) :: rest, t => if f ≤ t then go o rest t else cur

/-- `mktime` with `tm_isdst = -1` on naive local seconds: the instant whose local reading is
    `ls`.  For a local time that exists exactly once this is libc's answer (assumption of the
    property); in a repeated hour the earlier instant is taken, in a skipped hour the offset in
    effect before the gap is applied (glibc's behaviour; never exercised by the generator). -/
def mkLocal (tz : Tz) (ls : Int) : Int :=
  let cands := (tz.map (·.2)).eraseDups.filterMap fun o => if offAt tz (ls - o) = o then some (ls - o) else none
  match cands with
  | [] => ls - offAt tz (ls - offAt tz ls - 86400)
  | c :: cs => cs.foldl min c

/-- Days since 1970-01-01 of the proleptic Gregorian date; `m` is 1-based and may be out of range,
    `d` may be out of range (carried over like `mktime` does). -/
def daysFromCivil (y m d : Int) : Int :=
  let y' := y + (m - 1) / 12
  let m' := (m - 1) % 12 + 1
  let yy := if m' ≤ 2 then y' - 1 else y'
  let era := yy / 400
  let yoe := yy - era * 400
  let doy := (153 * (if m' > 2 then m' - 3 else m' + 9) + 2) / 5
  let doe := yoe * 365 + yoe / 4 - yoe / 100 + doy
  era * 146097 + doe - 719468 + (d - 1)

/-- (year, month 1..12, day 1..31) of a day number. -/
def civilFromDays (z : Int) : Int × Int × Int :=
  let z := z + 719468
  let era := z / 146097
  let doe := z - era * 146097
  let yoe := (doe - doe / 1460 + doe / 36524 - doe / 146096) / 365
  let y := yoe + era * 400
  let doy := doe - (365 * yoe + yoe / 4 - yoe / 100)
  let mp := (5 * doy + 2) / 153
  let d := doy - (153 * mp + 2) / 5 + 1
  let m := if mp < 10 then mp + 3 else mp - 9
  (if m ≤ 2 then y + 1 else y, m, d)

/-- `tm_wday` of a day number: 0 = Sunday (1970-01-01 was a Thursday). -/
def weekdayOf (z : Int) : Int := (z + 4) % 7

/-- `mktime` of local midnight of day `D` plus `secs`. -/
def mkDay (tz : Tz) (D : Int) (secs : Int) : Int := mkLocal tz (D * 86400 + secs)

/-- Local calendar day of an instant (`Utility::LocalTime`, truncated to midnight). -/
def localDay (tz : Tz) (t : Int) : Int := (t + offAt tz t) / 86400

/-- `Convert::ToLong` on a string (boost::lexical_cast<long>): optional sign, digits, nothing else. -/
def toLong? (s : String) : Option Int :=
  if s.startsWith "+" then (s.drop 1).toString.toNat?.map Int.ofNat else s.toInt?

/-- legacytimeperiod.cpp:107-125 -/
def weekdayFromString (s : String) : Option Int :=
  match s with
  | "sunday" => some 0 | "monday" => some 1 | "tuesday" => some 2 | "wednesday" => some 3
  | "thursday" => some 4 | "friday" => some 5 | "saturday" => some 6 | _ => none

/-- legacytimeperiod.cpp:127-155 (0-based month) -/
def monthFromString (s : String) : Option Int :=
  match s with
  | "january" => some 0 | "february" => some 1 | "march" => some 2 | "april" => some 3
  | "may" => some 4 | "june" => some 5 | "july" => some 6 | "august" => some 7
  | "september" => some 8 | "october" => some 9 | "november" => some 10 | "december" => some 11
  | _ => none

/-- The search loop of `FindNthWeekday` (legacytimeperiod.cpp:80-98): from `day`, stepping by
    `dir`, until the `n`-th day with weekday `wday` has been seen.  `fuel` bounds the loop. -/
def findNthLoop (wday : Int) (dir : Int) : Nat → Nat → Int → Option Int
  | 0, _, _ => none
  | fuel + 1, need, day =>
    if weekdayOf day = wday then
      (if need ≤ 1 then some day else findNthLoop wday dir fuel (need - 1) (day + dir))
    else findNthLoop wday dir fuel need (day + dir)

/-- `FindNthWeekday(wday, n, reference)` (legacytimeperiod.cpp:56-105) for the month `mon`
    (0-based, may be 12 after `tm_mon++`) of `year`: the resulting day number.  `n = 0` makes the C++
    loop run forever (the `ASSERT(n > 0)` is compiled out): modelled as `none`. -/
def findNthWeekday (wday n : Int) (year mon : Int) : Option Int :=
  if n > 0 then findNthLoop wday 1 (7 * n.toNat) n.toNat (daysFromCivil year (mon + 1) 1)          -- :63-67
  else if n < 0 then findNthLoop wday (-1) (7 * (-n).toNat) (-n).toNat (daysFromCivil year (mon + 2) 0)  -- :68-76
  else none

/-- Result of `ParseTimeSpec`: the day whose 00:00 is `begin` and the day whose 00:00 is `end`
    (`end` is 24:00 of the last day, i.e. the following day). -/
structure DaySpan where
  b : Int
  e : Int
  deriving Repr, DecidableEq

/-- `ParseTimeSpec(timespec, begin, end, reference)` (legacytimeperiod.cpp:173-324) with the
    reference at local midnight of day `D`.  `none` = the function throws. -/
def parseTimeSpec (spec : String) (D : Int) : Option DaySpan :=
  let (ry, rm, _rd) := civilFromDays D
  let cs := spec.toList
  -- :176-209  YYYY-MM-DD
  if cs.length = 10 ∧ cs[4]? = some '-' ∧ cs[7]? = some '-' then
    match toLong? (String.ofList (cs.take 4)), toLong? (String.ofList ((cs.drop 5).take 2)), toLong? (String.ofList ((cs.drop 8).take 2)) with
    | some y, some m, some d =>
      if m < 1 ∨ m > 12 ∨ d < 1 ∨ d > 31 then none
      else let day := daysFromCivil y m d; some ⟨day, day + 1⟩
    | _, _, _ => none
  else
    let tokens := spec.splitOn " "
    let tok (i : Nat) : String := tokens.getD i ""
    let monTok := monthFromString (tok 0)
    -- :215-271  "day N" / "<month> N"
    if tokens.length > 1 ∧ (tok 0 = "day" ∨ monTok.isSome) then
      let mon := match monTok with | some m => m | none => rm - 1
      match toLong? (tok 1) with
      | none => none
      | some mday =>
        if mday < 0 then
          -- :231-241,254-267  end of the month minus (|mday| - 1) days; boost::gregorian needs a valid month
          let day := daysFromCivil ry (mon + 2) 0 - (-mday - 1)
          some ⟨day, day + 1⟩
        else
          let day := daysFromCivil ry (mon + 1) mday
          some ⟨day, day + 1⟩
    else
      -- :275-321  weekday [n [month]]
      match weekdayFromString (tok 0) with
      | none => none                                                    -- :323
      | some wday =>
        let mon? : Option (Option Int) :=
          if tokens.length > 2 then (match monthFromString (tok 2) with | some m => some (some m) | none => none)
          else some none
        match mon? with
        | none => none                                                  -- :282-283
        | some monOpt =>
          let mon := match monOpt with | some m => m | none => rm - 1
          if tokens.length > 1 then
            match toLong? (tok 1) with
            | none => none
            | some n =>
              match findNthWeekday wday n ry mon with
              | none => none
              | some day => some ⟨day, day + 1⟩
          else
            -- :299  tm_mday += (7 - tm_wday + wday) % 7; the month override does not apply here (size = 1)
            let day := D + (7 - weekdayOf D + wday) % 7
            some ⟨day, day + 1⟩

def firstWord (s : String) : String := (s.splitOn " ").headD ""

/-- `ParseTimeRange` (legacytimeperiod.cpp:341-391): (begin day, end day (exclusive), stride). -/
def parseTimeRange (timerange : String) (D : Int) : Option (Int × Int × Int) :=
  -- :346-356 stride
  let parts := timerange.splitOn "/"
  let defn := parts.headD ""
  let stride? : Option Int :=
    if parts.length > 1 then toLong? ("/".intercalate (parts.drop 1)).trimAscii.toString else some 1
  match stride? with
  | none => none
  | some stride =>
    -- :359-390 two dates?
    let pieces := defn.splitOn "- "
    if pieces.length > 1 then
      let first := (pieces.headD "").trimAscii.toString
      let second0 := (" " ++ "- ".intercalate (pieces.drop 1)).trimAscii.toString
      let fword := firstWord second0
      let second := if (toLong? fword).isSome then firstWord first ++ " " ++ second0 else second0   -- :371-385
      match parseTimeSpec first D, parseTimeSpec second D with
      | some s1, some s2 => some (s1.b, s2.e, stride)
      | _, _ => none
    else
      match parseTimeSpec defn D with
      | some s => some (s.b, s.e, stride)
      | none => none

/-- `IsInTimeRange` (legacytimeperiod.cpp:27-43): compares *instants* and derives the day number of
    the stride from a difference in seconds. -/
def isInTimeRange (tz : Tz) (bD eD stride D : Int) : Bool :=
  let tsbegin := mkDay tz bD 0
  let tsend := mkDay tz eD 0
  let tsref := mkDay tz D 0
  if tsref < tsbegin ∨ tsref ≥ tsend then false
  else
    let daynumber := (tsref - tsbegin) / 86400
    if stride > 1 ∧ daynumber % stride > 0 then false else true

/-- `IsInDayDefinition` (legacytimeperiod.cpp:393-405). -/
def isInDayDefinition (tz : Tz) (daydef : String) (D : Int) : Option Bool :=
  match parseTimeRange daydef D with
  | none => none
  | some (b, e, stride) => some (isInTimeRange tz b e stride D)

/-- `ProcessTimeRaw` (legacytimeperiod.cpp:407-427): seconds of the day (fields not normalised). -/
def processTimeRaw (s : String) : Option Int :=
  match s.splitOn ":" with
  | [h, m] => do let h ← toLong? h; let m ← toLong? m; pure (h * 3600 + m * 60)
  | [h, m, sec] => do let sec ← toLong? sec; let h ← toLong? h; let m ← toLong? m; pure (h * 3600 + m * 60 + sec)
  | _ => none

/-- `ProcessTimeRangeRaw` + `ProcessTimeRange` (legacytimeperiod.cpp:429-454). -/
def processTimeRange (tz : Tz) (range : String) (D : Int) : Option Seg :=
  match range.splitOn "-" with
  | [a, b] =>
    match processTimeRaw a, processTimeRaw b with
    | some bs, some es =>
      let es' := if bs ≥ es then es + 24 * 3600 else es                     -- :439-441
      some (mkDay tz D bs, mkDay tz D es')
    | _, _ => none
  | _ => none

/-- `ProcessTimeRanges` (legacytimeperiod.cpp:463-475): empty results are skipped. -/
def processTimeRanges (tz : Tz) (timeranges : String) (D : Int) : Option (List Seg) :=
  (timeranges.splitOn ",").foldl (fun acc r =>
    match acc, processTimeRange tz r D with
    | some l, some s => if s.1 ≥ s.2 then some l else some (l ++ [s])
    | _, _ => none) (some [])

/-- Body of the day loop (legacytimeperiod.cpp:624-639) for one reference day. -/
def dayEntries (tz : Tz) (ranges : List (String × String)) (D : Int) : Option (List Seg) :=
  ranges.foldl (fun acc kv =>
    match acc with
    | none => none
    | some l =>
      match isInDayDefinition tz kv.1 D with
      | none => none
      | some false => some l
      | some true =>
        match processTimeRanges tz kv.2 D with
        | none => none
        | some s => some (l ++ s)) (some [])

/-- The day loop (legacytimeperiod.cpp:616): `for (reference = midnight of begin's day;
    mktime(reference) <= end; next day)`. -/
def dayLoop (tz : Tz) (ranges : List (String × String)) (e : Int) : Nat → Int → Option (List Seg)
  | 0, _ => some []
  | fuel + 1, D =>
    if mkDay tz D 0 ≤ e then
      match dayEntries tz ranges D, dayLoop tz ranges e fuel (D + 1) with
      | some a, some b => some (a ++ b)
      | _, _ => none
    else some []

/-- `LegacyTimePeriod::ScriptFunc(tp, begin, end)` (legacytimeperiod.cpp:585-647); `none` = throws. -/
def scriptFunc (tz : Tz) (ranges : List (String × String)) (b e : Int) : Option (List Seg) :=
  let D0 := localDay tz b
  dayLoop tz ranges e ((e - b) / 82800 + 3).toNat D0

end Icinga.C08

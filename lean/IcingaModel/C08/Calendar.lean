/-
  C08 — calendar layer: literal transcription of `LegacyTimePeriod::ScriptFunc` and the functions it
  uses (lib/icinga/legacytimeperiod.cpp).  Core Lean only.

  Time zone: libc (`mktime`, `localtime_r`) and the tz database are *parameters* of the model.  The
  harness probes libc for the UTC offsets and passes them as `Tz`: a list of `(from, offset)`
  pairs, ascending; the first offset also applies before its `from`.

  The model has two stages.  The *reader* turns the strings of a `ranges` dictionary into tokens
  (`SpecTok`, `DayDefTok`, `EntryTok`); it transcribes the string handling of ParseTimeSpec /
  ParseTimeRange / ProcessTimeRaw and does not depend on the reference day.  The *core* works on
  tokens and transcribes everything that depends on the reference day and the time zone; the
  theorems (`scriptFunc_spec` …) are about the core, the reader is tied to the code by the
  correspondence runs only.

  A `struct tm` whose fields need not be normalised is represented by its naive local second count
  `day * 86400 + hour * 3600 + min * 60 + sec`, where `day` comes from `daysFromCivil` with
  out-of-range month/day values carried over — that is what `mktime` does with the fields before it
  looks for the UTC offset.  All `tm` values the code builds have `tm_isdst = -1`.
-/
import IcingaModel.C08.Model

namespace Icinga.C08

abbrev Tz := List (Int × Int)

/-- UTC offset in effect at the instant `t`. -/
def offAt : Tz → Int → Int
  | [], _ => 0
  | (_, o) :: rest, t => go o rest t
where
  go (cur : Int) : Tz → Int → Int
    | [], _ => cur
    | (f, o) :: rest, t => if f ≤ t then go o rest t else cur

/-- `mktime` with `tm_isdst = -1` on naive local seconds: the instant whose local reading is
    `ls`.  For a local time that exists exactly once this is libc's answer (assumption of the
    property); in a repeated hour the earlier instant is taken, in a skipped hour the offset in
    effect before the gap is applied (glibc's behaviour; never exercised by the generator). -/
def mkLocal (tz : Tz) (ls : Int) : Int :=
  let cands := (tz.map (·.2)).eraseDups.filterMap fun o => if offAt tz (ls - o) = o then some (ls - o) else none
  match cands with
  | [] => ls - offAt tz (ls - offAt tz ls - 86400)
  | c :: cs => cs.foldl min c

/-- Days since 1970-01-01 of the proleptic Gregorian date; `m` is 1-based and may be out of range,
    `d` may be out of range (carried over like `mktime` does). -/
def daysFromCivil (y m d : Int) : Int :=
  let y' := y + (m - 1) / 12
  let m' := (m - 1) % 12 + 1
  let yy := if m' ≤ 2 then y' - 1 else y'
  let era := yy / 400
  let yoe := yy - era * 400
  let doy := (153 * (if m' > 2 then m' - 3 else m' + 9) + 2) / 5
  let doe := yoe * 365 + yoe / 4 - yoe / 100 + doy
  era * 146097 + doe - 719468 + (d - 1)

/-- (year, month 1..12, day 1..31) of a day number. -/
def civilFromDays (z : Int) : Int × Int × Int :=
  let z := z + 719468
  let era := z / 146097
  let doe := z - era * 146097
  let yoe := (doe - doe / 1460 + doe / 36524 - doe / 146096) / 365
  let y := yoe + era * 400
  let doy := doe - (365 * yoe + yoe / 4 - yoe / 100)
  let mp := (5 * doy + 2) / 153
  let d := doy - (153 * mp + 2) / 5 + 1
  let m := if mp < 10 then mp + 3 else mp - 9
  (if m ≤ 2 then y + 1 else y, m, d)

/-- `tm_wday` of a day number: 0 = Sunday (1970-01-01 was a Thursday). -/
def weekdayOf (z : Int) : Int := (z + 4) % 7

/-- `mktime` of local midnight of day `D` plus `secs`. -/
def mkDay (tz : Tz) (D : Int) (secs : Int) : Int := mkLocal tz (D * 86400 + secs)

/-- Local calendar day of an instant (`Utility::LocalTime`, truncated to midnight). -/
def localDay (tz : Tz) (t : Int) : Int := (t + offAt tz t) / 86400

/-- `Convert::ToLong` on a string (boost::lexical_cast<long>): optional sign, digits, nothing else. -/
def toLong? (s : String) : Option Int :=
  if s.startsWith "+" then (s.drop 1).toString.toNat?.map Int.ofNat else s.toInt?

/-- legacytimeperiod.cpp:107-125 -/
def weekdayFromString (s : String) : Option Int :=
  match s with
  | "sunday" => some 0 | "monday" => some 1 | "tuesday" => some 2 | "wednesday" => some 3
  | "thursday" => some 4 | "friday" => some 5 | "saturday" => some 6 | _ => none

/-- legacytimeperiod.cpp:127-155 (0-based month) -/
def monthFromString (s : String) : Option Int :=
  match s with
  | "january" => some 0 | "february" => some 1 | "march" => some 2 | "april" => some 3
  | "may" => some 4 | "june" => some 5 | "july" => some 6 | "august" => some 7
  | "september" => some 8 | "october" => some 9 | "november" => some 10 | "december" => some 11
  | _ => none

/-- The search loop of `FindNthWeekday` (legacytimeperiod.cpp:80-98): from `day`, stepping by
    `dir`, until the `n`-th day with weekday `wday` has been seen.  `fuel` bounds the loop. -/
def findNthLoop (wday : Int) (dir : Int) : Nat → Nat → Int → Option Int
  | 0, _, _ => none
  | fuel + 1, need, day =>
    if weekdayOf day = wday then
      (if need ≤ 1 then some day else findNthLoop wday dir fuel (need - 1) (day + dir))
    else findNthLoop wday dir fuel need (day + dir)

/-- `FindNthWeekday(wday, n, reference)` (legacytimeperiod.cpp:56-105) for the month `mon`
    (0-based, may be 12 after `tm_mon++`) of `year`: the resulting day number.  `n = 0` makes the C++
    loop run forever (the `ASSERT(n > 0)` is compiled out): modelled as `none`. -/
def findNthWeekday (wday n : Int) (year mon : Int) : Option Int :=
  if n > 0 then findNthLoop wday 1 (7 * n.toNat) n.toNat (daysFromCivil year (mon + 1) 1)          -- :63-67
  else if n < 0 then findNthLoop wday (-1) (7 * (-n).toNat) (-n).toNat (daysFromCivil year (mon + 2) 0)  -- :68-76
  else none

/-! ## Tokens -/

/-- One day specification as `ParseTimeSpec` distinguishes them (months 0-based like `tm_mon`). -/
inductive SpecTok
  | date (y m d : Int)                          -- "YYYY-MM-DD" (1 ≤ m ≤ 12, 1 ≤ d ≤ 31 checked by the reader)
  | monthDay (mon : Option Int) (mday : Int)    -- "day N" (mon = none: month of the reference) / "<month> N"
  | weekday (w : Int)                           -- "monday"
  | nthWeekday (w n : Int) (mon : Option Int)   -- "monday 2" / "monday -1 may"
  deriving Repr, DecidableEq

/-- A day definition: one day, or a range of days, with a stride (`ParseTimeRange`). -/
structure DayDefTok where
  first : SpecTok
  second : Option SpecTok
  stride : Int
  deriving Repr, DecidableEq

/-- One entry of the `ranges` dictionary.  `none` = reading that string throws (the exception is
    raised only when the day loop gets to it, so it is kept in the token). -/
structure EntryTok where
  dayDef : Option DayDefTok
  ranges : Option (List (Int × Int))            -- raw (begin, end) seconds of the day, before the wrap test
  deriving Repr

/-! ## Reader (strings → tokens) -/

/-- String part of `ParseTimeSpec` (legacytimeperiod.cpp:173-324).  `none` = throws. -/
def readSpecTok (spec : String) : Option SpecTok :=
  let cs := spec.toList
  -- :176-209  YYYY-MM-DD
  if cs.length = 10 ∧ cs[4]? = some '-' ∧ cs[7]? = some '-' then
    match toLong? (String.ofList (cs.take 4)), toLong? (String.ofList ((cs.drop 5).take 2)), toLong? (String.ofList ((cs.drop 8).take 2)) with
    | some y, some m, some d =>
      if m < 1 ∨ m > 12 ∨ d < 1 ∨ d > 31 then none else some (.date y m d)      -- :181-184
    | _, _, _ => none
  else
    let tokens := spec.splitOn " "
    let tok (i : Nat) : String := tokens.getD i ""
    let monTok := monthFromString (tok 0)
    -- :215-271  "day N" / "<month> N"
    if tokens.length > 1 ∧ (tok 0 = "day" ∨ monTok.isSome) then
      match toLong? (tok 1) with
      | none => none
      | some mday => some (.monthDay monTok mday)
    else
      -- :275-321  weekday [n [month]]
      match weekdayFromString (tok 0) with
      | none => none                                                    -- :323
      | some wday =>
        if tokens.length > 2 then
          match monthFromString (tok 2), toLong? (tok 1) with            -- :280-291
          | some m, some n => some (.nthWeekday wday n (some m))
          | _, _ => none
        else if tokens.length > 1 then
          match toLong? (tok 1) with
          | some n => some (.nthWeekday wday n none)
          | none => none
        else some (.weekday wday)

def firstWord (s : String) : String := (s.splitOn " ").headD ""

/-- String part of `ParseTimeRange` (legacytimeperiod.cpp:341-391). -/
def readDayDef (timerange : String) : Option DayDefTok :=
  -- :346-356 stride
  let parts := timerange.splitOn "/"
  let defn := parts.headD ""
  let stride? : Option Int :=
    if parts.length > 1 then toLong? ("/".intercalate (parts.drop 1)).trimAscii.toString else some 1
  match stride? with
  | none => none
  | some stride =>
    -- :359-390 two dates?
    let pieces := defn.splitOn "- "
    if pieces.length > 1 then
      let first := (pieces.headD "").trimAscii.toString
      let second0 := (" " ++ "- ".intercalate (pieces.drop 1)).trimAscii.toString
      let fword := firstWord second0
      let second := if (toLong? fword).isSome then firstWord first ++ " " ++ second0 else second0   -- :371-385
      match readSpecTok first, readSpecTok second with
      | some s1, some s2 => some { first := s1, second := some s2, stride := stride }
      | _, _ => none
    else
      match readSpecTok defn with
      | some s => some { first := s, second := none, stride := stride }
      | none => none

/-- `ProcessTimeRaw` (legacytimeperiod.cpp:407-427): seconds of the day (fields not normalised). -/
def processTimeRaw (s : String) : Option Int :=
  match s.splitOn ":" with
  | [h, m] => do let h ← toLong? h; let m ← toLong? m; pure (h * 3600 + m * 60)
  | [h, m, sec] => do let sec ← toLong? sec; let h ← toLong? h; let m ← toLong? m; pure (h * 3600 + m * 60 + sec)
  | _ => none

/-- String part of `ProcessTimeRangeRaw` (legacytimeperiod.cpp:429-437). -/
def readTimeRange (range : String) : Option (Int × Int) :=
  match range.splitOn "-" with
  | [a, b] =>
    match processTimeRaw a, processTimeRaw b with
    | some bs, some es => some (bs, es)
    | _, _ => none
  | _ => none

/-- String part of `ProcessTimeRanges` (legacytimeperiod.cpp:465). -/
def readTimeRanges (timeranges : String) : Option (List (Int × Int)) :=
  (timeranges.splitOn ",").mapM readTimeRange

def readEntry (kv : String × String) : EntryTok :=
  { dayDef := readDayDef kv.1, ranges := readTimeRanges kv.2 }

/-! ## Core (tokens, reference day, time zone) -/

/-- The day `ParseTimeSpec` computes for a token with the reference at local midnight of day `D`
    (`begin` is 00:00 of that day, `end` 24:00 of it).  `none` only for "n-th weekday" with n = 0. -/
def resolveDay (s : SpecTok) (D : Int) : Option Int :=
  let ry := (civilFromDays D).1
  let rm := (civilFromDays D).2.1
  match s with
  | .date y m d => some (daysFromCivil y m d)                            -- :186-206
  | .monthDay mon mday =>                                                 -- :215-271
    let mon := match mon with | some m => m | none => rm - 1
    if mday < 0 then
      -- :231-241,254-267  end of the month minus (|mday| - 1) days
      some (daysFromCivil ry (mon + 2) 0 - (-mday - 1))
    else some (daysFromCivil ry (mon + 1) mday)
  | .weekday w => some (D + (7 - weekdayOf D + w) % 7)                    -- :299,312
  | .nthWeekday w n mon =>                                                -- :293-297
    let mon := match mon with | some m => m | none => rm - 1
    findNthWeekday w n ry mon

/-- `ParseTimeRange` on tokens: (begin day, end day (exclusive), stride). -/
def dayDefSpan (df : DayDefTok) (D : Int) : Option (Int × Int × Int) :=
  match df.second with
  | none =>
    match resolveDay df.first D with
    | some d => some (d, d + 1, df.stride)
    | none => none
  | some s2 =>
    match resolveDay df.first D, resolveDay s2 D with
    | some d1, some d2 => some (d1, d2 + 1, df.stride)
    | _, _ => none

/-- `IsInTimeRange` (legacytimeperiod.cpp:27-46): compares *instants*; the day number of the stride
    is the distance of the two local midnights rounded to whole days (since commit 3f58d09; before,
    it was truncated, which was off by one after a 23-hour day — F-C08b). -/
def isInTimeRange (tz : Tz) (bD eD stride D : Int) : Bool :=
  let tsbegin := mkDay tz bD 0
  let tsend := mkDay tz eD 0
  let tsref := mkDay tz D 0
  if tsref < tsbegin ∨ tsref ≥ tsend then false
  else
    let daynumber := (tsref - tsbegin + 43200) / 86400
    if stride > 1 ∧ daynumber % stride > 0 then false else true

/-- `IsInDayDefinition` (legacytimeperiod.cpp:396-408). -/
def dayMatchesTok (tz : Tz) (df : DayDefTok) (D : Int) : Option Bool :=
  match dayDefSpan df D with
  | none => none
  | some (b, e, stride) => some (isInTimeRange tz b e stride D)

/-- `ProcessTimeRangeRaw` wrap test + `ProcessTimeRange` (legacytimeperiod.cpp:439-457). -/
def rangeSeg (tz : Tz) (r : Int × Int) (D : Int) : Seg :=
  let es' := if r.1 ≥ r.2 then r.2 + 24 * 3600 else r.2                  -- :442-444
  (mkDay tz D r.1, mkDay tz D es')

/-- `ProcessTimeRanges` (legacytimeperiod.cpp:466-478): empty results are skipped. -/
def rangesSegs (tz : Tz) (rs : List (Int × Int)) (D : Int) : List Seg :=
  rs.filterMap fun r => let s := rangeSeg tz r D; if s.1 ≥ s.2 then none else some s

/-- One dictionary entry on one reference day (body of the inner loop, legacytimeperiod.cpp:627-642). -/
def entrySegs (tz : Tz) (en : EntryTok) (D : Int) : Option (List Seg) :=
  match en.dayDef with
  | none => none
  | some df =>
    match dayMatchesTok tz df D with
    | none => none
    | some false => some []
    | some true =>
      match en.ranges with
      | none => none
      | some rs => some (rangesSegs tz rs D)

def dayEntriesTok (tz : Tz) (entries : List EntryTok) (D : Int) : Option (List Seg) :=
  entries.foldl (fun acc en =>
    match acc, entrySegs tz en D with
    | some l, some s => some (l ++ s)
    | _, _ => none) (some [])

/-- The day loop (legacytimeperiod.cpp:619): `for (reference = midnight of begin's day;
    mktime(reference) <= end; next day)`. -/
def dayLoopTok (tz : Tz) (entries : List EntryTok) (e : Int) : Nat → Int → Option (List Seg)
  | 0, _ => some []
  | fuel + 1, D =>
    if mkDay tz D 0 ≤ e then
      match dayEntriesTok tz entries D, dayLoopTok tz entries e fuel (D + 1) with
      | some a, some b => some (a ++ b)
      | _, _ => none
    else some []

/-- Upper bound on the number of iterations of the day loop (every local day lasts ≥ 23 h). -/
def loopFuel (b e : Int) : Nat := ((e - b) / 82800 + 3).toNat

/-- `LegacyTimePeriod::ScriptFunc` on tokens. -/
def scriptFuncTok (tz : Tz) (entries : List EntryTok) (b e : Int) : Option (List Seg) :=
  dayLoopTok tz entries e (loopFuel b e) (localDay tz b)

/-- `LegacyTimePeriod::ScriptFunc(tp, begin, end)` (legacytimeperiod.cpp:588-650); `none` = throws. -/
def scriptFunc (tz : Tz) (ranges : List (String × String)) (b e : Int) : Option (List Seg) :=
  scriptFuncTok tz (ranges.map readEntry) b e

end Icinga.C08

/-
  C12 — replay log: executable transcription of the replay-log code of lib/remote/apilistener.cpp
  (PersistMessage, OpenLogFile/CloseLogFile/RotateLogFile, ReplayLog, the log clean-up of ApiTimerHandler,
  the log decision of RelayMessageOne) and of the receiver side in lib/remote/jsonrpcconnection.cpp.
  Core Lean only.  The on-disk format is C20's netstring (`Icinga.C20.nsEncode`, `nsReadAll`).

  Times are integers in microseconds (`Utility::GetTime()` at µs resolution, exact in binary64);
  file names are integers in seconds (apilistener.cpp:1403 `static_cast<int>(ts)+1`).  All times ≥ 0.
-/
import IcingaModel.C20.Model

namespace Icinga.C12
open Icinga.C20

/-- Microseconds per second. -/
def usec : Int := 1000000

/-- One persisted record `{timestamp, message, secobj}` (apilistener.cpp:1150-1160): `id` stands for the
    JSON text of the message, `sec` for the `{type,name}` of the security object (an index). -/
structure Entry where
  ts : Int
  id : Nat
  sec : Option Nat
  deriving DecidableEq, Repr

/-- A rotated file `api/log/<name>`. -/
structure LFile where
  name : Int
  bytes : Bytes
  deriving DecidableEq, Repr

/-- The sender's replay-log state: the directory `api/log` (rotated files, `current`), whether
    `m_LogFile` is open, `m_LogMessageCount`, `log_message_timestamp` (0 = unset). -/
structure Sender where
  files : List LFile := []
  current : Option Bytes := none
  isOpen : Bool := false
  count : Nat := 0
  lastTs : Int := 0
  deriving DecidableEq, Repr

/-- OpenLogFile (apilistener.cpp:1366-1382): append mode creates the file; the stamp is set to now. -/
def openLog (now : Int) (s : Sender) : Sender :=
  { s with current := some (match s.current with | some b => b | none => []), isOpen := true, lastTs := now }

/-- CloseLogFile (apilistener.cpp:1385-1392). -/
def closeLog (s : Sender) : Sender := { s with isOpen := false }

/-- The name RotateLogFile picks (apilistener.cpp:1397-1403). -/
def rotName (now : Int) (s : Sender) : Int := (if s.lastTs == 0 then now else s.lastTs) / usec + 1

/-- RotateLogFile (apilistener.cpp:1395-1422): refuses to overwrite; a failing rename is logged and ignored. -/
def rotate (now : Int) (s : Sender) : Sender :=
  if s.files.any (fun f => f.name == rotName now s) then s                       -- :1407
  else
    match s.current with
    | none => s                                                                    -- rename throws, :1414
    | some b => { s with files := s.files ++ [⟨rotName now s, b⟩], current := none, count := 0 }  -- :1409-1412

/-- PersistMessage (apilistener.cpp:1162-1173) with the record already encoded as `payload`.
    `limit` is the 50 000 of :1168.  Without an open log file nothing is written. -/
def persist (limit : Nat) (ts : Int) (payload : Bytes) (now : Int) (s : Sender) : Sender :=
  if !s.isOpen then s                                                             -- :1163
  else
    match s.current with
    | none => s            -- the open stream's file is no longer called `current`: the bytes are not visible
    | some b =>
      let s1 := { s with current := some (b ++ nsEncode payload), count := s.count + 1, lastTs := ts }  -- :1164-1166
      if s1.count > limit then openLog now (rotate now (closeLog s1)) else s1     -- :1168-1172

/-- ApiListener::Stop (apilistener.cpp:376-380): close and rotate. -/
def stop (now : Int) (s : Sender) : Sender := rotate now (closeLog s)

/-- A new process on the same data directory (crash or stop before): ApiListener::Start opens the log
    (apilistener.cpp:268-271); the counter is a fresh member (apilistener.hpp:207); `keptTs` is the
    `log_message_timestamp` restored from the state file (0 when it was lost). -/
def start (now : Int) (s : Sender) : Sender := openLog now { s with isOpen := false, count := 0 }

/-- Crash: what is on disk stays, only the first `k` bytes of `current` survived (unflushed suffix lost). -/
def crash (k : Nat) (s : Sender) : Sender :=
  { s with current := s.current.map (fun b => b.take k), isOpen := false, count := 0 }

/-! ## Reading a log file (apilistener.cpp:1500-1525) -/

/-- What one `FillFromStream` call appends (stream.cpp:110-135): up to 64 KiB, then the parser runs. -/
def chunkF : Nat → Bytes → List Bytes
  | 0, _ => []
  | f + 1, bs => if bs.isEmpty then [] else bs.take 65536 :: chunkF f (bs.drop 65536)

def chunks (bs : Bytes) : List Bytes := chunkF bs.length bs

/-- The netstring frames read until end-of-file or a framing error (`break` at :1523). -/
def fileItems (bs : Bytes) : List Bytes := (nsReadAll none (chunks bs)).items

/-- Elements up to the first `none` (a record that does not decode — exception :1517-1524 — or that decodes to
    null — :1526-1532, the repair of F-C12b — ends the file). -/
def takeSome {α : Type} : List (Option α) → List α
  | [] => []
  | none :: _ => []
  | some a :: r => a :: takeSome r

/-- The records ReplayLog gets out of one file; `dec` = JsonDecode + field access (`none` = exception or null). -/
def entriesOf (dec : Bytes → Option Entry) (bs : Bytes) : List Entry := takeSome ((fileItems bs).map dec)

/-! ## ReplayLog (apilistener.cpp:1439-1593) -/

inductive Out
  | msg (e : Entry)          -- client->SendRawMessage(pmessage->Get("message")), :1554
  | setPos (v : Int)         -- log::SetLogPosition {log_position: v}, :1568-1579
  deriving DecidableEq, Repr

structure RState where
  peer : Int                 -- peer_ts
  logpos : Int               -- logpos_ts
  out : List Out
  count : Nat
  deriving DecidableEq, Repr

/-- The two `continue` guards of :1535-1549: already confirmed, or the peer's zone may not see the object
    (`vis o` = the object exists and `target_zone->CanAccessObject` holds). -/
def skipEntry (vis : Nat → Bool) (peer : Int) (e : Entry) : Bool :=
  decide (e.ts ≤ peer) || (match e.sec with | some o => !vis o | none => false)

/-- One record of file `fname` (:1535-1580). -/
def stepEntry (vis : Nat → Bool) (st : RState) (x : Int × Entry) : RState :=
  if skipEntry vis st.peer x.2 then st
  else
    let st1 : RState := { st with out := st.out ++ [.msg x.2], count := st.count + 1, peer := x.2.ts }  -- :1554-1566
    if x.1 * usec > st.logpos + 10 * usec then                                       -- :1568
      { st1 with logpos := x.1 * usec, out := st1.out ++ [.setPos (x.1 * usec)] }
    else st1

def replayEntries (vis : Nat → Bool) (st : RState) (xs : List (Int × Entry)) : RState :=
  xs.foldl (stepEntry vis) st

/-- Insertion sort by name (`std::sort(files)`, :1487). -/
def insertByName (f : LFile) : List LFile → List LFile
  | [] => [f]
  | g :: r => if f.name ≤ g.name then f :: g :: r else g :: insertByName f r

def sortByName : List LFile → List LFile
  | [] => []
  | f :: r => insertByName f (sortByName r)

/-- `allFiles` of one pass (:1489-1497) with the records of every file, flattened to (file name, record). -/
def view (dec : Bytes → Option Entry) (now peer : Int) (s : Sender) : List (Int × Entry) :=
  ((sortByName s.files).filter (fun f => decide (f.name * usec ≥ peer))).flatMap
      (fun f => (entriesOf dec f.bytes).map (fun e => (f.name, e)))
    ++ (entriesOf dec (match s.current with | some b => b | none => [])).map (fun e => ((now + usec) / usec, e))

/-- One pass of the `for (;;)` loop from position (`peer`, `logpos`). -/
def replayPass (dec : Bytes → Option Entry) (vis : Nat → Bool) (now : Int) (s : Sender) (peer logpos : Int) : RState :=
  replayEntries vis ⟨peer, logpos, [], 0⟩ (view dec now peer s)

structure ReplayResult where
  out : List Out
  peer : Int
  passes : Nat
  fuelOut : Bool
  deriving DecidableEq, Repr

/-- The loop (:1467-1592): unlocked passes while the previous pass sent more than `limit`, then one pass
    under the log lock.  `count` = `none` is the initial -1. -/
def replayLoop (pass : Int → Int → RState) (limit : Nat) : Nat → Option Nat → Int → Int → List Out → Nat → ReplayResult
  | 0, _, peer, _, acc, n => ⟨acc, peer, n, true⟩
  | fuel + 1, count, peer, logpos, acc, n =>
    let last := match count with | none => false | some c => !(decide (c > limit))   -- :1473-1479
    let r := pass peer logpos
    if last then ⟨acc ++ r.out, r.peer, n + 1, false⟩                                 -- :1589-1591
    else replayLoop pass limit fuel (some r.count) r.peer r.logpos (acc ++ r.out) (n + 1)

/-- ReplayLog for an endpoint with `log_duration = dur` and local log position `pos`.
    Three passes always suffice (theorem `replay_fuel_sufficient`). -/
def replay (dec : Bytes → Option Entry) (vis : Nat → Bool) (limit : Nat) (now dur pos : Int) (s : Sender) : ReplayResult :=
  if dur == 0 then ⟨[], pos, 0, false⟩                                               -- :1447-1449
  else replayLoop (replayPass dec vis now (openLog now s)) limit 3 none pos pos [] 0

/-- The log state after ReplayLog: every pass closes and reopens the file (:1470-1479). -/
def replaySender (now dur : Int) (s : Sender) : Sender := if dur == 0 then s else openLog now s

def msgsOf : List Out → List Entry
  | [] => []
  | .msg e :: r => e :: msgsOf r
  | .setPos _ :: r => msgsOf r

/-! ## Clean-up (apilistener.cpp:952-991) and positions -/

/-- An endpoint other than the local one, as the timer sees it. -/
structure Peer where
  related : Bool     -- same zone, parent zone or immediate child zone (:965-969)
  dur : Int          -- log_duration in µs; negative = no limit (:971)
  lpos : Int         -- local_log_position
  rpos : Int := 0    -- remote_log_position
  connected : Bool := false
  syncing : Bool := false
  deriving DecidableEq, Repr

/-- Does endpoint `p` still need file `name` (:964-977)? -/
def needsFile (now name : Int) (p : Peer) : Bool :=
  p.related && !(decide (p.dur ≥ 0) && decide (name * usec < now - p.dur)) && decide (name * usec > p.lpos)

def cleanup (now : Int) (peers : List Peer) (s : Sender) : Sender :=
  { s with files := s.files.filter (fun f => peers.any (needsFile now f.name)) }

/-- The SetLogPosition messages of the timer (:993-1001): connected endpoints with a non-zero remote position. -/
def timerSetPos (p : Peer) : Option Int := if p.connected && p.rpos != 0 then some p.rpos else none

/-- SetLogPositionHandler (jsonrpcconnection.cpp:376-389). -/
def setLogPos (lpos v : Int) : Int := if v > lpos then v else lpos

/-- MessageHandler's filter (jsonrpcconnection.cpp:304-313): (accepted, new remote_log_position). -/
def recv (rpos : Int) (ts : Option Int) : Bool × Int :=
  match ts with
  | none => (true, rpos)
  | some t => if t < rpos then (false, rpos) else (true, t)

/-! ## The log decision of RelayMessageOne (apilistener.cpp:1253-1326) for locally generated events -/

structure ZoneAcc where
  relayed : Bool := false
  logNeeded : Bool := false
  logDone : Bool := false
  live : List Nat := []       -- endpoints SyncSendMessage was called for
  skipped : List Nat := []
  deriving DecidableEq, Repr

/-- One endpoint `i` of a target zone (:1254-1306).  `master` = index of GetMaster() (`none`: we are it). -/
def relayEndpoint (peers : Nat → Peer) (zoneLocal : Bool) (master : Option Nat) (a : ZoneAcc) (i : Nat) : ZoneAcc :=
  let a := { a with logNeeded := true }                                            -- :1259
  if !(peers i).connected then
    (if zoneLocal then { a with logDone := false } else a)                         -- :1262-1267
  else
    let a := { a with logDone := true }                                            -- :1269
    if a.relayed && !zoneLocal then { a with skipped := a.skipped ++ [i] }         -- :1274-1277
    else if master.isSome && master != some i then { a with skipped := a.skipped ++ [i] }  -- :1301-1304
    else { a with relayed := true, live := if (peers i).syncing then a.live else a.live ++ [i] }  -- :1306-1308, 1180

def relayZone (peers : Nat → Peer) (master : Option Nat) (z : Bool × List Nat) : ZoneAcc :=
  z.2.foldl (relayEndpoint peers z.1 master) {}

structure RelayResult where
  needLog : Bool
  live : List Nat
  skipped : List Nat
  deriving DecidableEq, Repr

/-- SyncRelayMessage (apilistener.cpp:1328-1363) over the related target zones (each: is it the local zone,
    its endpoints other than the local one). -/
def relay (peers : Nat → Peer) (master : Option Nat) (zones : List (Bool × List Nat)) : RelayResult :=
  let rs := zones.map (relayZone peers master)
  ⟨rs.any (fun a => a.logNeeded && !a.logDone), rs.flatMap (·.live), rs.flatMap (·.skipped)⟩

end Icinga.C12

/-
  C12 — the property as an executable predicate over an OBSERVED trace of one sender node
  (operations + what was seen: was the event appended to the log, which file names appeared/disappeared,
  what was delivered to a reconnecting peer, the endpoint positions).  It never looks at the model: its
  only state is ghost history derived from the observations (which logged event lives in which file, at
  which byte range), the connectivity the operations imply and the topology of the harness:

      zone top = { E, F }  ──  zone master = { local, A }  ──  zone sat = { B, D }  ──  zone agent = { C }
                                                                       zone zx ⊂ sat, zone g global

  Peers 0 = A, 1 = B, 2 = C, 3 = D (B's sibling), 4 = E, 5 = F (the parent zone).  Security objects: 0 master, 1 sat,
  2 agent, 3 zx, 4 g (the zones themselves), and 5..9: objects of ANOTHER type that carry the same five names but live in
  a different zone (`secZone`): 5 "master" in zone agent, 6 "sat" and 7 "agent" in zone master, 8 "zx" and 9 "g" in zone sat.
-/
import IcingaModel.C12.Model

namespace Icinga.C12

inductive OutObs
  | m (id : Nat) (ts : Int)     -- a replayed / relayed event
  | l (v : Int)                 -- log::SetLogPosition
  | x                           -- anything else
  deriving DecidableEq, Repr

/-- Damage done to a file: which (`none` = current), intact prefix length, were foreign bytes written after it. -/
structure Damage where
  file : Option Int
  k : Nat
  junk : Bool
  deriving DecidableEq, Repr

inductive Ev
  | relay (now : Int) (id : Nat) (sec : Option Nat) (frameLen : Option Nat) (newFile : Option Int)
  | conn (p : Nat)
  | disc (p : Nat)
  | replay (now : Int) (p : Nat) (out : List OutObs) (dmg : Option Damage)   -- dmg: only during this replay (probe)
  | rotate (newFile : Option Int)                                            -- rotate / stop
  | timer (now : Int) (deleted : List Int) (outs : List (List OutObs))       -- outs: what was queued for each peer
  | ack (p : Nat) (v : Int)
  | recv (p : Nat) (ts : Int) (accepted : Bool)
  | damage (d : Damage)                                                      -- setbytes / crash k
  | drop
  | restart
  deriving Repr

/-- An observed step: the event and the twelve positions lpos,rpos of peers 0..5 after it. -/
structure Step where
  ev : Ev
  pos : List Int
  deriving Repr

inductive Clause
  | persisted            -- an event for a disconnected related endpoint was not logged
  | replayKnown          -- something was replayed that is not a logged event
  | replayOrder          -- replayed out of order or twice
  | replayConfirmed      -- replayed although the peer had confirmed it
  | replayVisible        -- replayed although the peer's zone may not see the object
  | replayComplete       -- an intact, unconfirmed, visible, young enough event was not replayed
  | cleanupSafe          -- a file was deleted that a related endpoint still needs
  | receiverFilter       -- the receiver processed a message OLDER than its recorded position (or moved the position on it)
  | receiverAcceptsNotOlder  -- a message with ts ≥ the recorded position (equal is not older) was dropped / not recorded
  | ackMonotone          -- a log-position acknowledgement moved the position backwards or not to max
  | restartKeepsPositions  -- a new sender process came up with other endpoint positions than the old one had: what the peer
                           -- confirmed is replayed again (local position lost) / old messages are accepted again (remote position lost)
  deriving DecidableEq, Repr

def Clause.name : Clause → String
  | .persisted => "persisted" | .replayKnown => "replay_known" | .replayOrder => "replay_order"
  | .replayConfirmed => "replay_confirmed" | .replayVisible => "replay_visible" | .replayComplete => "replay_complete"
  | .cleanupSafe => "cleanup_safe" | .receiverFilter => "receiver_filter"
  | .receiverAcceptsNotOlder => "receiver_accepts_not_older" | .ackMonotone => "ack_monotone"
  | .restartKeepsPositions => "restart_keeps_positions"

/-- A logged event, where its frame ends in its file, and whether its bytes are (still) intact. -/
structure GEntry where
  e : Entry
  endOff : Nat
  intact : Bool
  deriving DecidableEq, Repr

structure GFile where
  name : Int
  es : List GEntry
  deriving DecidableEq, Repr

structure SpecSt where
  files : List GFile := []
  cur : List GEntry := []
  curSize : Nat := 0
  curTorn : Bool := false        -- a damaged tail precedes whatever is appended now
  conn : List Bool := [false, false, false, false, false, false]
  pos : List Int := [0, 0, 0, 0, 0, 0, 0, 0, 0, 0, 0, 0]
  durs : List Int := [0, 0, 0, 0, 0, 0]   -- log_duration in µs, negative = unlimited
  dropped : Bool := false
  deriving Repr

def specInit (durs : List Int) : SpecSt := { durs := durs }

/-- The peers of the harness topology. -/
def allPeers : List Nat := [0, 1, 2, 3, 4, 5]

/-- Endpoints in the same, the parent or an immediate child zone (all but C in the grandchild zone). -/
def related (p : Nat) : Bool := p < 6 && p != 2

/-- The zone a security object belongs to: a zone is its own, the objects 5..9 of the other type live elsewhere than
    the zone whose name they carry. -/
def secZone : Nat → Nat
  | 5 => 2 | 6 => 0 | 7 => 0 | 8 => 1 | 9 => 1 | o => o

/-- The zones an event about `sec` is relayed to — its zone and all parent zones; for a global zone the local
    zone and its immediate children — each with (is it the local zone, its endpoints other than the local node). -/
def targetZones (sec : Option Nat) : List (Bool × List Nat) :=
  match sec.map secZone with
  | none => [(true, [0]), (false, [4, 5])]
  | some 0 => [(true, [0]), (false, [4, 5])]
  | some 4 => [(true, [0]), (false, [1, 3])]
  | _ => [(false, [1, 3]), (true, [0]), (false, [4, 5])]

/-- An event must be logged when one of its target zones could not be given it at all: none of the zone's endpoints
    is connected.  (A zone one of whose endpoints is connected HAS the event; its other members get it inside the
    zone.  In the local zone every member is addressed directly — there it is the single peer A.) -/
def mustLog (conn : Nat → Bool) (sec : Option Nat) : Bool :=
  (targetZones sec).any (fun z => z.2.all (fun p => !conn p))

/-- May the zone of peer `p` see object `sec` (object's zone is the peer's zone or below it, or global)? -/
def may (dropped : Bool) (p : Nat) (sec : Option Nat) : Bool :=
  match sec with
  | none => true
  | some o =>
    let z := secZone o
    if o == 3 && dropped then false
    else if p == 0 || p == 4 || p == 5 then z ≤ 4            -- zones master and top: everything below them
    else if p == 1 || p == 3 then z == 1 || z == 2 || z == 3 || z == 4
    else z == 2 || z == 4

def lpos (pos : List Int) (p : Nat) : Int := pos.getD (2 * p) 0
def rpos (pos : List Int) (p : Nat) : Int := pos.getD (2 * p + 1) 0

def insertGF (f : GFile) : List GFile → List GFile
  | [] => [f]
  | g :: r => if f.name ≤ g.name then f :: g :: r else g :: insertGF f r

def sortGF : List GFile → List GFile
  | [] => []
  | f :: r => insertGF f (sortGF r)

/-- Mark what a damage at offset `k` destroys. -/
def damageEntries (k : Nat) (es : List GEntry) : List GEntry :=
  es.map (fun g => if g.endOff ≤ k then g else { g with intact := false })

def applyDamage (d : Damage) (sp : SpecSt) : SpecSt :=
  match d.file with
  | none =>
    if d.k ≥ sp.curSize && !d.junk then sp
    else
      let k := min d.k sp.curSize
      { sp with cur := damageEntries k sp.cur,
                curTorn := sp.curTorn || d.junk || !(k == 0 || sp.cur.any (fun g => g.endOff == k)),
                curSize := k }    -- size is re-learnt from the next frame; what follows is not guaranteed anyway
  | some n => { sp with files := sp.files.map (fun f => if f.name == n then { f with es := damageEntries d.k f.es } else f) }

/-- All logged events in replay order (files by name, then current). -/
def ghostOrder (sp : SpecSt) : List GEntry := (sortGF sp.files).flatMap (·.es) ++ sp.cur

def findIdx (l : List GEntry) (id : Nat) (ts : Int) : Option Nat :=
  l.findIdx? (fun g => g.e.id == id && g.e.ts == ts)

def strictlyIncreasing : List Nat → Bool
  | a :: b :: r => decide (a < b) && strictlyIncreasing (b :: r)
  | _ => true

def outMsgs : List OutObs → List (Nat × Int)
  | [] => []
  | .m id ts :: r => (id, ts) :: outMsgs r
  | _ :: r => outMsgs r

/-- The replay clauses for what was delivered to peer `p` from position `pos` at `now`, given the
    (possibly temporarily damaged) ghost state. -/
def checkReplay (sp : SpecSt) (now : Int) (p : Nat) (out : List OutObs) (junk : Bool) : Option Clause :=
  let order := ghostOrder sp
  let pos := lpos sp.pos p
  let dur := sp.durs.getD p 0
  let msgs := outMsgs out
  let idxs := msgs.map (fun m => findIdx order m.1 m.2)
  if !junk && (idxs.any (·.isNone) || out.any (fun o => o == .x)) then some .replayKnown
  else
    let known := idxs.filterMap id
    if !strictlyIncreasing known then some .replayOrder
    else
      let sent := known.filterMap (fun i => order[i]?)
      if sent.any (fun g => decide (g.e.ts ≤ pos)) then some .replayConfirmed
      else if sent.any (fun g => !mayPeer sp.dropped p g.e.sec) then some .replayVisible
      else
        let wanted := order.filter (fun g => g.intact && decide (g.e.ts > pos) && mayPeer sp.dropped p g.e.sec &&
          dur != 0 && (decide (dur < 0) || decide (g.e.ts ≥ now - dur)))
        if wanted.all (fun g => msgs.contains (g.e.id, g.e.ts)) then none else some .replayComplete
where
  mayPeer := may

/-- One observed step: the first violated clause (if any) and the next ghost state. -/
def specStep (sp : SpecSt) (st : Step) : Option Clause × SpecSt :=
  let sp' := { sp with pos := st.pos }
  match st.ev with
  | .relay now id sec frameLen newFile =>
    let bad := if mustLog (fun p => sp.conn.getD p false) sec && frameLen.isNone then some Clause.persisted else none
    let sp1 := match frameLen with
      | none => sp'
      | some n => { sp' with cur := sp'.cur ++ [⟨⟨now, id, sec⟩, sp'.curSize + n, !sp'.curTorn⟩], curSize := sp'.curSize + n }
    let sp2 := match newFile with
      | none => sp1
      | some nm => { sp1 with files := sp1.files ++ [⟨nm, sp1.cur⟩], cur := [], curSize := 0, curTorn := false }
    (bad, sp2)
  | .conn p => (none, { sp' with conn := sp'.conn.set p true })
  | .disc p => (none, { sp' with conn := sp'.conn.set p false })
  | .replay now p out dmg =>
    let spd := match dmg with | none => sp | some d => applyDamage d sp
    (checkReplay spd now p out (match dmg with | some d => d.junk | none => false), sp')
  | .rotate newFile =>
    match newFile with
    | none => (none, sp')
    | some nm => (none, { sp' with files := sp'.files ++ [⟨nm, sp'.cur⟩], cur := [], curSize := 0, curTorn := false })
  | .timer now deleted _ =>
    let gone := sp.files.filter (fun f => deleted.contains f.name)
    let needed := gone.any (fun f => f.es.any (fun g => g.intact && allPeers.any (fun p =>
      related p && decide (g.e.ts > lpos sp.pos p) &&
        !(decide (sp.durs.getD p 0 ≥ 0) && decide (g.e.ts < now - sp.durs.getD p 0)))))
    (if needed then some .cleanupSafe else none, { sp' with files := sp'.files.filter (fun f => !deleted.contains f.name) })
  | .ack p v =>
    let want := if v > lpos sp.pos p then v else lpos sp.pos p
    (if lpos st.pos p == want then none else some .ackMonotone, sp')
  | .recv p ts accepted =>
    let old := rpos sp.pos p
    let bad := if ts < old then (if !accepted && rpos st.pos p == old then none else some Clause.receiverFilter)
               else (if accepted && rpos st.pos p == ts then none else some Clause.receiverAcceptsNotOlder)
    (bad, sp')
  | .damage d => (none, applyDamage d sp')
  | .drop => (none, { sp' with dropped := true })
  | .restart =>
    -- the positions are state attributes (endpoint.ti:23-24): the new process has them from the state file
    (if st.pos != sp.pos then some .restartKeepsPositions else none, { sp' with conn := [false, false, false, false, false, false] })

/-! ## confirmations (F-C12c)

  A `log::SetLogPosition` tells the peer "I have everything you sent up to here"; the peer then neither replays
  nor keeps older events.  It must therefore never carry a position beyond the one up to which messages were
  actually received from that peer (`remote_log_position`).  This clause is evaluated on its own (not inside
  `specStep`), so that its failures never hide — and are never hidden by — the other clauses. -/

/-- How a confirmation is wrong: it is the name of a log file ReplayLog was replaying (the shape recorded as
    F-C12c, apilistener.cpp `log_position = file.first`), or anything else. -/
inductive ConfirmBad
  | replayFileName
  | other
  deriving DecidableEq, Repr

def ConfirmBad.name : ConfirmBad → String
  | .replayFileName => "replay_file_name" | .other => "other"

def setPosValues : List OutObs → List Int
  | [] => []
  | .l v :: r => v :: setPosValues r
  | _ :: r => setPosValues r

/-- The positions ReplayLog's file names stand for at time `now`: the rotated files and `current` (now + 1 s). -/
def replayFileNames (sp : SpecSt) (now : Int) : List Int :=
  sp.files.map (fun f => f.name * usec) ++ [(now + usec) / usec * usec]

/-- Clause `confirmation_not_beyond_received` on one observed step (positions as they were before the step). -/
def confirmStep (sp : SpecSt) (st : Step) : Option ConfirmBad :=
  match st.ev with
  | .replay now p out _ =>
    let beyond := (setPosValues out).filter (fun v => decide (v > rpos sp.pos p))
    if beyond.isEmpty then none
    else if beyond.all (fun v => (replayFileNames sp now).contains v) then some .replayFileName
    else some .other
  | .timer _ _ outs =>
    if allPeers.any (fun p => (setPosValues (outs.getD p [])).any (fun v => decide (v > rpos sp.pos p))) then some .other
    else none
  | _ => none

/-- The clause over a whole trace (ghost state advanced by `specStep`): index and kind of the first failure. -/
def confirmTrace : SpecSt → List Step → Nat → Option (Nat × ConfirmBad)
  | _, [], _ => none
  | sp, st :: r, i =>
    match confirmStep sp st with
    | some k => some (i, k)
    | none => confirmTrace (specStep sp st).2 r (i + 1)

/-! ## who may move an endpoint's local log position

  `local_log_position` says up to where the peer needs nothing from our log any more.  It may grow only by the
  peer's own confirmation, or to the timestamp of an event that reached the peer's zone while the peer itself was
  CONNECTED (RelayMessageOne's skipped endpoints: a connected sibling, or the zone master, got the event).  Raising it
  for a DISCONNECTED endpoint makes ReplayLog skip events that were persisted for it.  Evaluated on its own, like
  the confirmation clause (positions and connectivity as they were before the step). -/

/-- Clause `position_advance_justified` on one observed step: `false` = violated. -/
def advanceOk (sp : SpecSt) (st : Step) : Bool :=
  allPeers.all (fun p =>
    let old := lpos sp.pos p
    let new := lpos st.pos p
    if new ≤ old then true
    else match st.ev with
      | .ack q v => q == p && new == v
      | .relay now _ _ _ _ => sp.conn.getD p false && new == now
      | _ => false)

/-- The clause over a whole trace (ghost state advanced by `specStep`): index of the first failure. -/
def advanceTrace : SpecSt → List Step → Nat → Option Nat
  | _, [], _ => none
  | sp, st :: r, i => if advanceOk sp st then advanceTrace (specStep sp st).2 r (i + 1) else some i

/-! ## "before it is considered in sync"

  After a reconnect the logged events are replayed BEFORE the endpoint is treated as in sync: nothing may be queued for it
  live on the new connection before the replay of that connection (SyncClient: config sync + ReplayLog) has finished — a
  live event in front of the replay carries a newer `ts`, the receiver records it as its position and then ignores every
  replayed (older) message.  And the synchronisation must end: when SyncClient returns, the endpoint's `syncing` flag is
  clear again (also when ReplayLog failed), otherwise nothing is ever sent to it live again while nothing is logged for it.
  Evaluated on its own, over its own view of the trace. -/

inductive SyncEv
  | attach (p : Nat)                  -- Endpoint::AddClient: the endpoint counts as connected from now on
  | detach (p : Nat)
  | live (ps : List Nat)              -- an event was queued live for these endpoints (SyncSendMessage)
  | synced (p : Nat) (flag : Bool)    -- SyncClient returned for p's connection; flag = its `syncing` attribute afterwards
  | restart
  deriving DecidableEq, Repr

structure SyncSt where
  attached : Nat → Bool := fun _ => false
  replayed : Nat → Bool := fun _ => false     -- the replay for the CURRENT connection is complete

inductive SyncBad
  | liveBeforeSync
  | syncStuck
  deriving DecidableEq, Repr

def SyncBad.name : SyncBad → String
  | .liveBeforeSync => "no_live_before_sync" | .syncStuck => "sync_completes"

def syncStep (s : SyncSt) : SyncEv → Option SyncBad × SyncSt
  | .attach p =>
    (none, if s.attached p then s
           else { attached := fun q => if q = p then true else s.attached q, replayed := fun q => if q = p then false else s.replayed q })
  | .detach p => (none, { attached := fun q => if q = p then false else s.attached q, replayed := fun q => if q = p then false else s.replayed q })
  | .live ps => (if ps.any (fun p => s.attached p && !s.replayed p) then some .liveBeforeSync else none, s)
  | .synced p flag =>
    (if flag then some .syncStuck else none, { s with replayed := fun q => if q = p then s.attached p else s.replayed q })
  | .restart => (none, {})

def syncTrace : SyncSt → List SyncEv → Nat → Option (Nat × SyncBad)
  | _, [], _ => none
  | s, e :: r, i =>
    match syncStep s e with
    | (some b, _) => some (i, b)
    | (none, s') => syncTrace s' r (i + 1)

/-! ## events persisted after a crash-restart (F-C12g)

  An event the RUNNING sender persists for a disconnected endpoint must be replayed to it — also when an earlier process
  died while writing `current` and left a torn last frame there.  (The statement's last sentence excuses what a damage
  DESTROYED, not what a healthy process writes afterwards.)  Judged on its own, over the events appended to `current`
  behind a frame that a crash / truncation (no foreign bytes) tore: each of them that the peer still wants must be in
  the next undamaged replay.  Any other damage switches the clause off for the rest of the trace. -/

structure TornSt where
  tornOpen : Bool := false            -- `current` ends (or ended, before the appends) in a frame torn by a crash
  behind : List (Nat × Int) := []     -- (id, ts) of the events appended behind it
  tainted : Bool := false
  deriving Repr

/-- Clause `persisted_after_crash_replayed` on one observed step (`sp`: the ghost state BEFORE the step): (ok, next). -/
def tornStep (sp : SpecSt) (t : TornSt) (st : Step) : Bool × TornSt :=
  match st.ev with
  | .damage d =>
    if d.junk || d.file.isSome then (true, { t with tainted := true })
    else
      let k := min d.k sp.curSize
      let lost := decide (d.k < sp.curSize)
      let torn := lost && !(k == 0 || sp.cur.any (fun g => g.endOff == k))
      -- what a further crash cut off is gone for a reason the property accepts
      let behind := if lost then t.behind.filter (fun key => !sp.cur.any (fun g => (g.e.id, g.e.ts) == key && decide (g.endOff > k)))
                    else t.behind
      (true, { t with tornOpen := t.tornOpen || torn, behind := behind })
  | .relay now id _ frameLen newFile =>
    let t1 := if t.tornOpen && frameLen.isSome then { t with behind := t.behind ++ [(id, now)] } else t
    (true, if newFile.isSome then { t1 with tornOpen := false } else t1)
  | .rotate (some _) => (true, { t with tornOpen := false })
  | .replay now p out none =>
    if t.tainted then (true, t)
    else
      let pos := lpos sp.pos p
      let dur := sp.durs.getD p 0
      let msgs := outMsgs out
      let wanted := (ghostOrder sp).filter (fun g => t.behind.contains (g.e.id, g.e.ts) && decide (g.e.ts > pos) &&
        may sp.dropped p g.e.sec && dur != 0 && (decide (dur < 0) || decide (g.e.ts ≥ now - dur)))
      (wanted.all (fun g => msgs.contains (g.e.id, g.e.ts)), t)
  | _ => (true, t)

/-- The clause over a whole trace (ghost state advanced by `specStep`): index of the first failure. -/
def tornTrace : SpecSt → TornSt → List Step → Nat → Option Nat
  | _, _, [], _ => none
  | sp, t, st :: r, i =>
    match tornStep sp t st with
    | (false, _) => some i
    | (true, t') => tornTrace (specStep sp st).2 t' r (i + 1)

/-- The whole trace: the first violated clause with the index of the step. -/
def specTrace : SpecSt → List Step → Nat → Option (Nat × Clause)
  | _, [], _ => none
  | sp, st :: r, i =>
    match specStep sp st with
    | (some c, _) => some (i, c)
    | (none, sp') => specTrace sp' r (i + 1)

end Icinga.C12

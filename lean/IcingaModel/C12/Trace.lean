/-
  C12 — the sender node as a whole: the model functions of Model.lean composed the way the harness's
  operations (harness/c12.cpp) and the driver (Driver/C12.lean) compose them, with the two oracle inputs
  instantiated: the record text is `c.enc e` for an abstract payload encoding, and "may the peer's zone see the
  object" is the topology's `may` (Spec.lean).  `runModel` produces the observed trace (`Step`s) the
  specification predicate `specTrace` judges.  Core Lean only.
-/
import IcingaModel.C12.Model
import IcingaModel.C12.Spec

namespace Icinga.C12
open Icinga.C20

/-- A payload encoding as PersistMessage/ReplayLog need it: decoding inverts encoding, records stay below
    the netstring reader's length limit. -/
structure Codec where
  enc : Entry → Bytes
  dec : Bytes → Option Entry
  dec_enc : ∀ e, dec (enc e) = some e
  small : ∀ e, (enc e).length < 10 ^ 9

/-- `Zone::GetEndpoints()` is a `std::set` of pointers: in which order the two endpoints of zone sat (B, D) and of zone
    top (E, F) are visited is not determined by the configuration.  `true` = the second one first. -/
def orient (satRev topRev : Bool) (l : List Nat) : List Nat :=
  if l == [1, 3] && satRev then [3, 1] else if l == [4, 5] && topRev then [5, 4] else l

/-- The target zones of an event (`targetZones`) with their endpoints in iteration order. -/
def zonesOf (satRev topRev : Bool) (sec : Option Nat) : List (Bool × List Nat) :=
  (targetZones sec).map (fun z => (z.1, orient satRev topRev z.2))

structure Node where
  snd : Sender
  peers : Nat → Peer          -- 0 = A, 1 = B, 2 = C, 3 = D, 4 = E, 5 = F
  paFirst : Bool              -- peer A's name sorts before the local one: A is the zone master while connected
  satRev : Bool := false      -- iteration order of zone sat's / zone top's endpoints (see `orient`)
  topRev : Bool := false
  dropped : Bool := false     -- zone zx has been unregistered (`Op.drop`): ConfigObject::GetObject finds nothing, apilistener.cpp:1541-1546

def Node.setPeer (n : Node) (i : Nat) (f : Peer → Peer) : Node :=
  { n with peers := fun j => if j = i then f (n.peers j) else n.peers j }

def Node.pos (n : Node) : List Int :=
  [(n.peers 0).lpos, (n.peers 0).rpos, (n.peers 1).lpos, (n.peers 1).rpos, (n.peers 2).lpos, (n.peers 2).rpos,
   (n.peers 3).lpos, (n.peers 3).rpos, (n.peers 4).lpos, (n.peers 4).rpos, (n.peers 5).lpos, (n.peers 5).rpos]

def Node.peerList (n : Node) : List Peer := [n.peers 0, n.peers 1, n.peers 2, n.peers 3, n.peers 4, n.peers 5]

/-- GetMaster() in the two-endpoint local zone (apilistener.cpp:393-410). -/
def Node.master (n : Node) : Option Nat := if n.paFirst && (n.peers 0).connected then some 0 else none

/-- Names of files that exist in `new` but not in `old`. -/
def newNames (old new : Sender) : List Int :=
  (new.files.filter (fun f => !old.files.any (fun g => g.name == f.name))).map (·.name)

/-- CloseLogFile, RotateLogFile, OpenLogFile (apilistener.cpp:1169-1171). -/
def rot (now : Int) (s : Sender) : Sender := openLog now (rotate now (closeLog s))

inductive Op
  | relay (now : Int) (id : Nat) (sec : Option Nat)
  | conn (p : Nat)                  -- NewClientHandlerInternal with SyncClient already under way: connected, syncing
  | attach (p : Nat)                -- only its synchronous part (Endpoint::AddClient): connected, SyncClient not started yet
  | disc (p : Nat)
  | replay (now : Int) (p : Nat)    -- SyncClient (… ReplayLog, syncing cleared)
  | rotate (now : Int)
  | timer (now : Int)
  | ack (p : Nat) (v : Int)
  | recv (p : Nat) (ts : Int)
  | crashStart (now : Int) (satRev topRev : Bool)   -- the process dies (every byte written so far is on disk), a new one starts at
                                                    -- `now`; its std::set orders of the two-endpoint zones are whatever they are
  | stopStart (now : Int) (satRev topRev : Bool)    -- graceful restart: ApiListener::Stop (CloseLogFile, RotateLogFile — apilistener.cpp:376-380;
                                                    -- WHEN it ran does not matter, `stop_time_irrelevant`), then a new process starts at `now`
  | drop                                            -- the object "zx" (security object 3) is deleted at runtime
  deriving Repr

def outObs (o : List Out) : List OutObs := o.map fun | .msg e => .m e.id e.ts | .setPos v => .l v

/-- One operation: the next node state and what an observer sees (the same events the driver feeds to the spec). -/
def stepOp (c : Codec) (limit : Nat) (n : Node) : Op → Node × List Step
  | .relay now id sec =>
    let r := relay n.peers n.master (zonesOf n.satRev n.topRev sec)
    let n1 : Node := { n with peers := fun i => if r.skipped.contains i then { n.peers i with lpos := now } else n.peers i }
    let e : Entry := ⟨now, id, sec⟩
    let snd2 := if r.needLog then persist limit now (c.enc e) now n.snd else n.snd
    let logged := r.needLog && n.snd.isOpen && n.snd.current.isSome
    let n2 : Node := { n1 with snd := snd2 }
    (n2, [⟨.relay now id sec (if logged then some (nsEncode (c.enc e)).length else none) (newNames n.snd snd2).head?, n2.pos⟩])
  | .conn p =>
    let n' := n.setPeer p (fun q => { q with connected := true, syncing := true })
    (n', [⟨.conn p, n'.pos⟩])
  | .attach p =>
    let n' := n.setPeer p (fun q => { q with connected := true })
    (n', [⟨.conn p, n'.pos⟩])
  | .disc p =>
    let n' := n.setPeer p (fun q => { q with connected := false })
    (n', [⟨.disc p, n'.pos⟩])
  | .replay now p =>
    let pr := n.peers p
    let r := replay c.dec (fun o => may n.dropped p (some o)) limit now pr.dur pr.lpos n.snd
    let n' := ({ n with snd := replaySender now pr.dur n.snd }).setPeer p (fun q => { q with syncing := false })
    (n', [⟨.replay now p (outObs r.out) none, n'.pos⟩])
  | .rotate now =>
    let s' := rot now n.snd
    let n' := { n with snd := s' }
    (n', [⟨.rotate (newNames n.snd s').head?, n'.pos⟩])
  | .timer now =>
    let s' := cleanup now n.peerList n.snd
    let deleted := (n.snd.files.filter (fun f => !n.peerList.any (needsFile now f.name))).map (·.name)
    let n' := { n with snd := s' }
    let outs := n.peerList.map (fun q => match timerSetPos q with | some v => [OutObs.l v] | none => [])
    (n', [⟨.timer now deleted outs, n'.pos⟩])
  | .ack p v =>
    let n' := n.setPeer p (fun q => { q with lpos := setLogPos q.lpos v })
    (n', [⟨.ack p v, n'.pos⟩])
  | .recv p ts =>
    let r := recv (n.peers p).rpos (some ts)
    let n' := n.setPeer p (fun q => { q with rpos := r.2 })
    (n', [⟨.recv p ts r.1, n'.pos⟩])
  | .crashStart now sr tr =>
    let len := match n.snd.current with | some b => b.length | none => 0
    let n' : Node := { n with snd := start now (crash len n.snd), satRev := sr, topRev := tr,
                              peers := fun i => { n.peers i with connected := false, syncing := false } }
    (n', [⟨.damage ⟨none, len, false⟩, n'.pos⟩, ⟨.restart, n'.pos⟩])
  | .stopStart now sr tr =>
    let s1 := stop now n.snd
    let n' : Node := { n with snd := start now s1, satRev := sr, topRev := tr,
                              peers := fun i => { n.peers i with connected := false, syncing := false } }
    -- what the driver feeds to the spec for the harness's `stop` and `start` lines: a rotation, the end of all connections (twice)
    (n', [⟨.rotate (newNames n.snd s1).head?, n'.pos⟩, ⟨.restart, n'.pos⟩, ⟨.restart, n'.pos⟩])
  | .drop =>
    let n' : Node := { n with dropped := true }
    (n', [⟨.drop, n'.pos⟩])

def runModel (c : Codec) (limit : Nat) : Node → List Op → List Step
  | _, [] => []
  | n, op :: r => (stepOp c limit n op).2 ++ runModel c limit (stepOp c limit n op).1 r

/-- The node itself after a sequence of operations (the state `runModel` ends in). -/
def endNode (c : Codec) (limit : Nat) : Node → List Op → Node
  | n, [] => n
  | n, op :: r => endNode c limit (stepOp c limit n op).1 r

/-- A fresh node: empty directory, log opened at `t0`, nobody connected, positions 0; `durs p` = log_duration of peer p. -/
def initNode (t0 : Int) (paFirst satRev topRev : Bool) (durs : Nat → Int) : Node :=
  { snd := start t0 {}, paFirst := paFirst, satRev := satRev, topRev := topRev,
    peers := fun i => { related := related i, dur := durs i, lpos := 0 } }

/-- The log_durations as the spec's list. -/
def dursList (durs : Nat → Int) : List Int := [durs 0, durs 1, durs 2, durs 3, durs 4, durs 5]

/-- The virtual clock: which time an operation happens at (operations without a time take none). -/
def Op.time : Op → Option Int
  | .relay now _ _ => some now | .replay now _ => some now | .rotate now => some now
  | .timer now => some now | .crashStart now _ _ => some now | .stopStart now _ _ => some now | _ => none

def Op.peerOk : Op → Bool
  | .conn p => p < 6 | .attach p => p < 6 | .disc p => p < 6 | .replay _ p => p < 6 | .ack p _ => p < 6 | .recv p _ => p < 6 | _ => true

/-- Every timed operation happens strictly after the previous one (≥ 1 µs per event), peers are 0..5. -/
def ClockOK : Int → List Op → Prop
  | _, [] => True
  | t, op :: r => op.peerOk = true ∧
      match op.time with
      | some now => t < now ∧ ClockOK now r
      | none => ClockOK t r

/-! ## the view the clause no_live_before_sync judges -/

/-- What an observer of connections and queues sees of one operation (the same events the driver feeds to `syncStep`):
    whom an event was queued for live, which connections appeared/disappeared, when SyncClient returned and with which
    `syncing` flag. -/
def syncObs (c : Codec) (limit : Nat) (n : Node) : Op → List SyncEv
  | .relay _ _ sec => [.live (relay n.peers n.master (zonesOf n.satRev n.topRev sec)).live]
  | .conn p => [.attach p]
  | .attach p => [.attach p]
  | .disc p => [.detach p]
  | .replay now p => [.synced p ((stepOp c limit n (.replay now p)).1.peers p).syncing]
  | .crashStart _ _ _ => [.restart]
  | .stopStart _ _ _ => [.restart, .restart]
  | _ => []

def runSync (c : Codec) (limit : Nat) : Node → List Op → List SyncEv
  | _, [] => []
  | n, op :: r => syncObs c limit n op ++ runSync c limit (stepOp c limit n op).1 r

/-- No connection is ever added without SyncClient being under way at once (the harness's `conn`; production's
    NewClientHandlerInternal only queues SyncClient: `attach`). -/
def NoWindow : List Op → Prop
  | [] => True
  | .attach _ :: _ => False
  | _ :: r => NoWindow r

/-! ## two nodes (F-C12c): what one node's ReplayLog queues is handled by the other node's MessageHandler -/

/-- One end of a link, reduced to what matters: the records on its disk in replay order (file name, record),
    and its two positions for the peer. -/
structure PNode where
  view : List (Int × Entry)
  lpos : Int
  rpos : Int
  deriving DecidableEq, Repr

/-- ReplayLog of `n` towards its peer (one pass; further passes send nothing, `second_pass_empty`). -/
def PNode.replayOut (vis : Nat → Bool) (n : PNode) : List Out :=
  (replayEntries vis ⟨n.lpos, n.lpos, [], 0⟩ n.view).out

/-- MessageHandler of `n` for one message of the peer's queue: an event passes the `ts` filter and is recorded
    (jsonrpcconnection.cpp:304-313); log::SetLogPosition goes to SetLogPositionHandler (:376-389). -/
def PNode.handle (n : PNode) : Out → PNode
  | .msg e => { n with rpos := (recv n.rpos (some e.ts)).2 }
  | .setPos v => { n with lpos := setLogPos n.lpos v }

/-- The events of `out` the receiver `n` processes (not dropped by its filter). -/
def PNode.accepted (n : PNode) : List Out → List Entry
  | [] => []
  | .msg e :: r => if (recv n.rpos (some e.ts)).1 then e :: (n.handle (.msg e)).accepted r else (n.handle (.msg e)).accepted r
  | .setPos v :: r => (n.handle (.setPos v)).accepted r

end Icinga.C12

/-
  C15 — the interpreter.  `eval : Fuel → Frame → Task → State → Out × State`, one case per `DoEvaluate` of
  lib/config/expression.cpp:92-1067, with `VMOps` (lib/config/vmops.hpp) and the frame-depth accounting of
  `Expression::Evaluate` (expression.cpp:39-64) + `ScriptFrame::IncreaseStackDepth` (scriptframe.cpp:82-93).

  Fuel exists only to make the Lean function total (`while` and a `for` over a growing array may diverge in both
  worlds); it decreases by one per nested evaluation / loop iteration and its exhaustion is reported as `Err.fuel`,
  never as a script result.  The frame depth is NOT the fuel: it is `Frame.depth`, limit 300, exactly as in the code.
-/
import IcingaModel.C15.Natives
import IcingaModel.C15.Literal

namespace Icinga.C15

/-- scriptframe.cpp:84 -/
def depthLimit : Nat := 300

inductive IterKind | map | filter | any | all | reduce
  deriving DecidableEq, Repr

/-- What one call of `eval` is asked to do. -/
inductive Task (N : Type) where
  | expr (e : Expr N)                                            -- Expression::Evaluate
  | exprs (es : List (Expr N)) (acc : List (Value N))            -- argument / element lists, left to right
  | block (es : List (Expr N)) (last : Value N)                  -- statements of a DictExpression
  | ref (e : Expr N) (initDict : Bool)                           -- Expression::GetReference
  | whileL (c body : Expr N)                                     -- the `for (;;)` of WhileExpression
  | forArr (k : String) (a : Addr) (i : Nat) (body : Expr N)     -- vmops.hpp:185-189
  | forKeys (k v : String) (d : Addr) (keys : List String) (body : Expr N)   -- vmops.hpp:204-209
  | call (f self : Value N) (args : List (Value N))              -- VMOps::FunctionCall
  | iter (kind : IterKind) (f : Value N) (items acc : List (Value N))       -- Array#map/filter/any/all/reduce

/-- What it answers. -/
inductive Out (N : Type) where
  | val (c : Ctl) (v : Value N)          -- ExpressionResult
  | vals (vs : List (Value N))           -- of `exprs`
  | ref (parent : Value N) (index : String)   -- GetReference returned true
  | noref                                -- GetReference returned false
  | err (e : Err)

abbrev Res (N : Type) := Out N × State N

section
variable {N : Type} [Num N]

def stackErr : Err := .script .stack "Stack overflow while evaluating expression: Recursion level too deep."

/-- CHECK_RESULT: continue with the value when the code is ResultOK, otherwise hand the result up unchanged. -/
@[inline] def bindV (r : Res N) (k : Value N → State N → Res N) : Res N :=
  match r with
  | (.val .ok v, st) => k v st
  | r => r

/-- argument/element lists. -/
@[inline] def bindVals (r : Res N) (k : List (Value N) → State N → Res N) : Res N :=
  match r with
  | (.vals vs, st) => k vs st
  | r => r

/-- CHECK_RESULT_LOOP: `return` leaves the loop with its value, `break` ends it with Empty, everything else iterates. -/
@[inline] def loopStep (r : Res N) (next : State N → Res N) : Res N :=
  match r with
  | (.val .ret v, st) => (.val .ret v, st)
  | (.val .brk _, st) => (.val .ok .empty, st)
  | (.val _ _, st) => next st
  | r => r

/-- `ExpressionResult → Value`: the flow-control code is dropped (vmops.hpp:112, expression.cpp:784-789). -/
@[inline] def bindAny (r : Res N) (k : Value N → State N → Res N) : Res N :=
  match r with
  | (.val _ v, st) => k v st
  | r => r

@[inline] def bindRef (r : Res N) (kref : Value N → String → State N → Res N) (kno : State N → Res N) : Res N :=
  match r with
  | (.ref p i, st) => kref p i st
  | (.noref, st) => kno st
  | r => r

/-- expression.cpp:1055-1066: the value of the try body is discarded, a script error runs the handler. -/
@[inline] def catchScript (r : Res N) (k : State N → Res N) : Res N :=
  match r with
  | (.val .ok _, st) => (.val .ok .empty, st)
  | (.err (.script _ _), st) => k st
  | r => r

/-- a callee expression must produce a plain value. -/
@[inline] def bindCallee (r : Res N) (k : Value N → State N → Res N) : Res N :=
  match r with
  | (.val .ok v, st) => k v st
  | (.val _ _, st) => (.err (.unmodelled "flow control in callee position"), st)
  | r => r

@[inline] def liftE (r : Except Err (Value N) × State N) : Res N :=
  match r with
  | (.ok v, st) => (.val .ok v, st)
  | (.error e, st) => (.err e, st)

def State.noteDepth (st : State N) (d : Nat) : State N := { st with maxDepth := max st.maxDepth d }

def localsGet (st : State N) (fr : Frame N) (x : String) : Option (Value N) :=
  match st.dict? fr.locals with | some kvs => kvGet x kvs | none => none

def localsSet (st : State N) (fr : Frame N) (x : String) (v : Value N) : State N :=
  match st.dict? fr.locals with
  | some kvs => st.put fr.locals (.dict (kvSet x v kvs))
  | none => st

/-- `frame.Self.IsObject() && frame.Locals != frame.Self` (expression.cpp:117, 134). -/
def selfUsable (fr : Frame N) : Bool :=
  fr.self.isObject && (match fr.self with | .dict a => a != fr.locals | _ => true)

/-- `use (a, b)` is a std::map: evaluated and stored in key order, duplicates collapse. -/
def sortedNames (l : List String) : List String :=
  dedupSorted (fun a b => a == b) (sortBy (fun a b => decide (a < b)) l)

/-- expression.cpp:198 `~(long)operand`. -/
def bitNot (v : Value N) : Except Err (Value N) :=
  match v with
  | .num _ | .bool _ | .empty =>
    match Num.toInt32 v.toDouble with
    | some i => .ok (.num (Num.ofInt (-i - 1)))
    | none => .error (.unmodelled "~ beyond int")
  | .str s => if s == "" then .ok (.num (Num.ofInt (-1))) else .error (.unmodelled "~ string")
  | _ => .error (.script .tonumber "Can't convert object to a floating point number.")

def isCallbackNative (name : String) : Option IterKind :=
  match name with
  | "Array#map" => some .map | "Array#filter" => some .filter | "Array#any" => some .any
  | "Array#all" => some .all | "Array#reduce" => some .reduce | _ => none

/-- `if (function->Invoke({ item }))` in array-script.cpp:176, 196, 214: the C++ converts the result with
    `operator double()` (not `ToBool`): strings are parsed as numbers, objects throw. -/
def cbTruth (v : Value N) : Option Bool :=
  match v with
  | .num _ | .bool _ | .empty => some (!(Num.eq v.toDouble (nzero : N)))
  | .str s => if s == "" then some false else none
  | _ => none

/-- expression.cpp:765-779: with `init_dict`, an Empty slot on the path of an assignment is first filled with a new dictionary. -/
def refInit (initDict : Bool) (vparent : Value N) (vindex : String) (st1 : State N) : Except Err (State N) :=
  if initDict then
    match (if (if vparent.isObject then hasOwnField st1 vparent vindex else true) then getField st1 vparent vindex else .ok .empty) with
    | .error e => .error e
    | .ok .empty => setField (st1.alloc (.dict [])).2 vparent vindex (.dict (st1.alloc (.dict [])).1)
    | .ok _ => .ok st1
  else .ok st1

/-- expression.cpp:764-782: the parent of an indexer reference. -/
def refParent (initDict : Bool) (vparent : Value N) (vindex : String) (st1 : State N) : Res N :=
  match refInit initDict vparent vindex st1 with
  | .error e => (.err e, st1)
  | .ok st2 => liftE (getField st2 vparent vindex, st2)

/-- expression.cpp:622-653: combine with the old value for `+=` …. -/
def assignValue (parent : Value N) (index : String) (op : SetOp) (v : Value N) (st2 : State N) : Except Err (Value N) × State N :=
  match op.bin with
  | none => (.ok v, st2)
  | some bop =>
    match getField st2 parent index with
    | .ok old => binop bop old v st2
    | .error e => (.error e, st2)

/-- expression.cpp:622-655: …, then store. -/
def assign (parent : Value N) (index : String) (op : SetOp) (v : Value N) (st2 : State N) : Res N :=
  match (assignValue parent index op v st2).1 with
  | .error e => (.err e, (assignValue parent index op v st2).2)
  | .ok nv =>
    match setField (assignValue parent index op v st2).2 parent index nv with
    | .ok st4 => (.val .ok .empty, st4)
    | .error e => (.err e, (assignValue parent index op v st2).2)

def isFunction (v : Value N) : Bool := match v with | .fn _ | .native _ => true | _ => false

/-! Each task is one step function over `ev`, the evaluator for the nested evaluations (open recursion): `eval` ties the
    knot with `ev := eval fuel`.  Theorems about all tasks are proved per step function from a hypothesis on `ev`. -/

def stepExprs (ev : Frame N → Task N → State N → Res N) (fr : Frame N) (es : List (Expr N)) (acc : List (Value N)) (st : State N) : Res N :=
  match es with
  | [] => (.vals acc.reverse, st)
  | e :: es => bindV (ev fr (.expr e) st) fun v st1 => ev fr (.exprs es (v :: acc)) st1

def stepBlock (ev : Frame N → Task N → State N → Res N) (fr : Frame N) (es : List (Expr N)) (last : Value N) (st : State N) : Res N :=
  match es with
  | [] => (.val .ok last, st)
  | e :: es => bindV (ev fr (.expr e) st) fun v st1 => ev fr (.block es v) st1     -- expression.cpp:523-527

def stepWhile (ev : Frame N → Task N → State N → Res N) (fr : Frame N) (c body : Expr N) (st : State N) : Res N :=
  -- expression.cpp:708-719
  bindV (ev fr (.expr c) st) fun cv st1 =>
    if !truthy st1 cv then (.val .ok .empty, st1)
    else loopStep (ev fr (.expr body) st1) fun st2 => ev fr (.whileL c body) st2

def stepForArr (ev : Frame N → Task N → State N → Res N) (fr : Frame N) (k : String) (a : Addr) (i : Nat) (body : Expr N) (st : State N) : Res N :=
  -- vmops.hpp:185-189
  match st.arr? a with
  | none => (.err (.internal "forArr"), st)
  | some xs =>
    if i ≥ xs.length then (.val .ok .empty, st)
    else loopStep (ev fr (.expr body) (localsSet st fr k (xs.getD i .empty))) fun st2 =>
      ev fr (.forArr k a (i + 1) body) st2

def stepForKeys (ev : Frame N → Task N → State N → Res N) (fr : Frame N) (k v : String) (d : Addr) (keys : List String) (body : Expr N) (st : State N) : Res N :=
  match keys with
  | [] => (.val .ok .empty, st)
  | key :: keys =>
    -- vmops.hpp:204-209
    let cur := match st.dict? d with | some kvs => (kvGet key kvs).getD .empty | none => .empty
    loopStep (ev fr (.expr body) (localsSet (localsSet st fr k (.str key)) fr v cur)) fun st2 =>
      ev fr (.forKeys k v d keys body) st2

def stepCall (ev : Frame N → Task N → State N → Res N) (fr : Frame N) (fv self : Value N) (args : List (Value N)) (st : State N) : Res N :=
  -- vmops.hpp:84-116, function.cpp:22-32
  match fv with
  | .fn a =>
    match st.get? a with
    | some (.fn params captured body) =>
      if args.length < params.length then (.err (.script .args "Too few arguments for function"), st)   -- :99
      else
        let loc := (params.zip args).foldl (fun d pa => kvSet pa.1 pa.2 d) captured                    -- :104-110
        let fr2 : Frame N := { locals := (st.alloc (.dict loc)).1, self := (match self with | .empty => .ns | s => s), depth := fr.depth }
        bindAny (ev fr2 (.expr body) (st.alloc (.dict loc)).2) fun v st2 => (.val .ok v, st2)       -- :112 code dropped
    | _ => (.err (.internal "call"), st)
  | .native name =>
    match isCallbackNative name with
    | some kind =>
      if args.isEmpty then (.err tooFew, st) else
      match self, args.headD .empty with
      | .arr a, cb =>
        if !isFunction cb then (.err (.unmodelled "callback is not a function"), st) else
        match st.arr? a with
        | some xs =>
          match kind, xs with
          | .reduce, [] => (.val .ok .empty, st)
          | .reduce, x :: r => ev fr (.iter .reduce cb r [x]) st
          | k, xs => ev fr (.iter k cb xs []) st
        | none => (.err (.internal "iter"), st)
      | _, _ => (.err (.unmodelled "self"), st)
    | none =>
      match nativePure name self args st with
      -- natives evaluate no expression: the ghost depth mark is the caller's (stated here instead of re-proved for ~45 natives)
      | some (r, st') => liftE (r, { st' with maxDepth := st.maxDepth })
      | none => (.err (.unmodelled ("native " ++ name)), st)
  | _ => (.err (.internal "call of a non-function"), st)

def stepIter (ev : Frame N → Task N → State N → Res N) (fr : Frame N) (kind : IterKind) (cb : Value N) (items acc : List (Value N)) (st : State N) : Res N :=
  -- array-script.cpp:121-231
  match items with
  | [] =>
    match kind with
    | .map | .filter => liftE (newArr st acc.reverse)
    | .any => (.val .ok (.bool false), st)
    | .all => (.val .ok (.bool true), st)
    | .reduce => (.val .ok (acc.headD .empty), st)
  | x :: rest =>
    let cargs := match kind with | .reduce => [acc.headD .empty, x] | _ => [x]
    bindV (ev fr (.call cb .empty cargs) st) fun r st1 =>
      match kind with
      | .map => ev fr (.iter kind cb rest (r :: acc)) st1
      | .filter =>
        match cbTruth r with
        | some t => ev fr (.iter kind cb rest (if t then x :: acc else acc)) st1
        | none => (.err (if r.isObject then .script .tonumber "Can't convert object to a floating point number."
                         else .unmodelled "callback result to double"), st1)
      | .any =>
        match cbTruth r with
        | some t => if t then (.val .ok (.bool true), st1) else ev fr (.iter kind cb rest acc) st1
        | none => (.err (if r.isObject then .script .tonumber "Can't convert object to a floating point number."
                         else .unmodelled "callback result to double"), st1)
      | .all =>
        match cbTruth r with
        | some t => if !t then (.val .ok (.bool false), st1) else ev fr (.iter kind cb rest acc) st1
        | none => (.err (if r.isObject then .script .tonumber "Can't convert object to a floating point number."
                         else .unmodelled "callback result to double"), st1)
      | .reduce => ev fr (.iter kind cb rest [r]) st1

def stepRef (ev : Frame N → Task N → State N → Res N) (fr : Frame N) (e : Expr N) (initDict : Bool) (st : State N) : Res N :=
  match e with
  | .var x =>                                                   -- expression.cpp:125-150
    if (localsGet st fr x).isSome then (.ref (.dict fr.locals) x, st)
    else if selfUsable fr && hasOwnField st fr.self x then (.ref fr.self x, st)
    else if systemFunctions.contains x then                     -- FindVarImportRef evaluates the imports: two frames deeper
      if fr.depth + 2 > depthLimit then (.err stackErr, st) else (.ref .sysns x, st.noteDepth (fr.depth + 2))
    else if fr.depth + 3 > depthLimit then (.err stackErr, st.noteDepth (min depthLimit (fr.depth + 2)))
    else if kvHas x st.globals then (.ref .ns x, st.noteDepth (fr.depth + 3))
    else (.ref fr.self x, st.noteDepth (fr.depth + 3))
  | .index a b =>                                               -- expression.cpp:751-802
    let parentRes : Res N :=
      bindRef (ev fr (.ref a initDict) st)
        (fun vparent vindex st1 => refParent initDict vparent vindex st1)
        (fun st1 => bindAny (ev fr (.expr a) st1) fun v st2 => (.val .ok v, st2))     -- :784-785 code ignored
    bindV parentRes fun p st3 =>
      bindAny (ev fr (.expr b) st3) fun iv st4 =>           -- :788-789
        match toStrH st4 iv with
        | some i => (.ref p i, st4)
        | none => (.err (.unmodelled "cyclic container to string"), st4)
  | _ => (.noref, st)                                           -- expression.cpp:66-69

/-- expression.cpp:463-493: the callee value decides before any argument is evaluated. -/
def callWith (ev : Frame N → Task N → State N → Res N) (fr : Frame N) (args : List (Expr N)) (self vf : Value N) (st1 : State N) : Res N :=
  match vf with
  | .typ _ => (.err (.unmodelled "constructor call"), st1)                                          -- :463
  | .fn _ | .native _ =>
    bindVals (ev fr (.exprs args []) st1) fun vs st2 => ev fr (.call vf self vs) st2
  | _ => (.err (.script .notcallable "Argument is not a callable object."), st1)                   -- :476

/-- `DoEvaluate` of the node, in the frame and state that `Expression::Evaluate` prepared. -/
def stepNode (ev : Frame N → Task N → State N → Res N) (fr : Frame N) (e : Expr N) (st : State N) : Res N :=
  match e with
  | .null => (.val .ok .empty, st)
  | .num n => (.val .ok (.num n), st)
  | .bool b => (.val .ok (.bool b), st)
  | .str s => (.val .ok (.str s), st)
  | .var x =>                                                   -- expression.cpp:111-123
    match localsGet st fr x with
    | some v => (.val .ok v, st)
    | none =>
      if selfUsable fr && hasOwnField st fr.self x then liftE (getField st fr.self x, st)
      else if systemFunctions.contains x then
        if fr.depth + 2 > depthLimit then (.err stackErr, st)
        else (.val .ok (.native ("System#" ++ x)), st.noteDepth (fr.depth + 2))
      else if fr.depth + 3 > depthLimit then (.err stackErr, st.noteDepth (min depthLimit (fr.depth + 2)))
      else match kvGet x st.globals with
        | some v => (.val .ok v, st.noteDepth (fr.depth + 3))
        | none => (.err (.script .undefvar ("Tried to access undefined script variable '" ++ x ++ "'")), st.noteDepth (fr.depth + 3))
  | .scope s =>                                                 -- expression.cpp:542-552
    (.val .ok (match s with | .locals => .dict fr.locals | .this => fr.self | .globals => .ns), st)
  | .bnot a => bindV (ev fr (.expr a) st) fun v st1 => liftE (bitNot v, st1)
  | .lnot a => bindV (ev fr (.expr a) st) fun v st1 => (.val .ok (.bool (!truthy st1 v)), st1)
  | .bin op a b =>                                              -- expression.cpp:209-383
    bindV (ev fr (.expr a) st) fun va st1 =>
      bindV (ev fr (.expr b) st1) fun vb st2 => liftE (binop op va vb st2)
  | .and a b =>                                                 -- expression.cpp:419-432
    bindV (ev fr (.expr a) st) fun va st1 =>
      if !truthy st1 va then (.val .ok va, st1)
      else bindV (ev fr (.expr b) st1) fun vb st2 => (.val .ok vb, st2)
  | .or a b =>                                                  -- expression.cpp:434-447
    bindV (ev fr (.expr a) st) fun va st1 =>
      if truthy st1 va then (.val .ok va, st1)
      else bindV (ev fr (.expr b) st1) fun vb st2 => (.val .ok vb, st2)
  | .isIn a b =>                                                -- expression.cpp:385-400 (right operand first)
    bindV (ev fr (.expr b) st) fun vb st1 =>
      if vb.isEmpty then (.val .ok (.bool false), st1)
      else match vb with
        | .arr ba =>
          bindV (ev fr (.expr a) st1) fun va st2 =>
            match arrContains st2 ((st2.arr? ba).getD []) va with
            | some r => (.val .ok (.bool r), st2)
            | none => (.err (.unmodelled "deep comparison"), st2)
        | _ => (.err (.script .inrhs "Invalid right side argument for 'in' operator"), st1)
  | .notIn a b =>                                               -- expression.cpp:402-417
    bindV (ev fr (.expr b) st) fun vb st1 =>
      if vb.isEmpty then (.val .ok (.bool true), st1)
      else match vb with
        | .arr ba =>
          bindV (ev fr (.expr a) st1) fun va st2 =>
            match arrContains st2 ((st2.arr? ba).getD []) va with
            | some r => (.val .ok (.bool !r), st2)
            | none => (.err (.unmodelled "deep comparison"), st2)
        | _ => (.err (.script .inrhs "Invalid right side argument for 'in' operator"), st1)
  | .index a b =>                                               -- expression.cpp:740-749
    bindV (ev fr (.expr a) st) fun va st1 =>
      bindV (ev fr (.expr b) st1) fun vb st2 =>
        match toStrH st2 vb with
        | some i => liftE (getField st2 va i, st2)
        | none => (.err (.unmodelled "cyclic container to string"), st2)
  | .call fe args =>                                            -- expression.cpp:449-494
    bindRef (ev fr (.ref fe false) st)
      (fun self index st1 =>
        match getField st1 self index with
        | .ok vf => callWith ev fr args self vf st1
        | .error e => (.err e, st1))
      (fun st1 => bindCallee (ev fr (.expr fe) st1) fun vf st2 => callWith ev fr args .empty vf st2)
  | .array es =>                                                -- expression.cpp:496-509
    bindVals (ev fr (.exprs es []) st) fun vs st1 => liftE (newArr st1 vs)
  | .dict body =>                                               -- expression.cpp:511-540 (not inline)
    bindV (ev { fr with self := .dict (st.alloc (.dict [])).1 } (.block body .empty) (st.alloc (.dict [])).2) fun _ st2 =>
      (.val .ok (.dict (st.alloc (.dict [])).1), st2)
  | .block body => ev fr (.block body .empty) st            -- expression.cpp:511-540 (inline)
  | .set lhs op rhs =>                                          -- expression.cpp:606-667
    bindRef (ev fr (.ref lhs true) st)
      (fun parent index st1 => bindV (ev fr (.expr rhs) st1) fun v st2 => assign parent index op v st2)
      (fun st1 => (.err (.script .noassign "Expression cannot be assigned to."), st1))
  | .cond c t fe =>                                             -- expression.cpp:690-701
    bindV (ev fr (.expr c) st) fun cv st1 =>
      if truthy st1 cv then ev fr (.expr t) st1
      else match fe with
        | some fe => ev fr (.expr fe) st1
        | none => (.val .ok .empty, st1)
  | .while c body => ev fr (.whileL c body) st
  | .for k v e body =>                                          -- expression.cpp:961-970, vmops.hpp:177-234
    bindV (ev fr (.expr e) st) fun cv st1 =>
      match cv with
      | .arr a =>
        if v != "" then (.err (.script .fortype "Cannot use dictionary iterator for array."), st1)
        else ev fr (.forArr k a 0 body) st1
      | .dict d =>
        if v == "" then (.err (.script .fortype "Cannot use array iterator for dictionary."), st1)
        else ev fr (.forKeys k v d (((st1.dict? d).getD []).map (·.1)) body) st1
      | .ns | .sysns => (.err (.unmodelled "for over a namespace"), st1)
      | _ => (.err (.script .fortype "Invalid type in for expression"), st1)
  | .func params uses body =>                                   -- expression.cpp:899-902, vmops.hpp:93-116, 258-269
    let names := sortedNames uses
    bindVals (ev fr (.exprs (names.map .var) []) st) fun vs st1 =>
      (.val .ok (.fn (st1.alloc (.fn params (names.zip vs) body)).1), (st1.alloc (.fn params (names.zip vs) body)).2)
  | .ret a => bindV (ev fr (.expr a) st) fun v st1 => (.val .ret v, st1)     -- expression.cpp:722-728
  | .brk => (.val .brk .empty, st)
  | .cont => (.val .cont .empty, st)
  | .throw a =>                                                 -- expression.cpp:849-855
    bindV (ev fr (.expr a) st) fun v st1 =>
      match toStrH st1 v with
      | some m => (.err (.script .user m), st1)
      | none => (.err (.unmodelled "cyclic container to string"), st1)
  | .try a b =>                                                 -- expression.cpp:1055-1066
    catchScript (ev fr (.expr a) st) fun st1 =>
      bindV (ev fr (.expr b) st1) fun _ st2 => (.val .ok .empty, st2)



/-- `Expression::Evaluate` (expression.cpp:39-64). -/
def stepExpr (ev : Frame N → Task N → State N → Res N) (fr : Frame N) (e : Expr N) (st : State N) : Res N :=
  if fr.depth + 1 > depthLimit then (.err stackErr, st)         -- scriptframe.cpp:84-85
  else stepNode ev { fr with depth := fr.depth + 1 } e (st.noteDepth (fr.depth + 1))     -- scriptframe.cpp:87

def eval : Nat → Frame N → Task N → State N → Res N
  | 0, _, _, st => (.err .fuel, st)
  | f + 1, fr, task, st =>
    match task with
    | .exprs es acc => stepExprs (eval f) fr es acc st
    | .block es last => stepBlock (eval f) fr es last st
    | .whileL c body => stepWhile (eval f) fr c body st
    | .forArr k a i body => stepForArr (eval f) fr k a i body st
    | .forKeys k v d keys body => stepForKeys (eval f) fr k v d keys body st
    | .call fv self args => stepCall (eval f) fr fv self args st
    | .iter kind cb items acc => stepIter (eval f) fr kind cb items acc st
    | .ref e initDict => stepRef (eval f) fr e initDict st
    | .expr e => stepExpr (eval f) fr e st

/-- `BindToScope` (expression.cpp:809-847) applied by the parser to the assignment targets of a dictionary literal
    (config_parser.yy:1027-1033, ScopeThis), of `var` (ScopeLocal): a variable or string literal becomes `scope[name]`,
    an indexer chain is bound at its root. -/
def bindTarget (sc : Scope) : Nat → Expr N → Expr N
  | 0, e => e
  | f + 1, e =>
    match e with
    | .index a b => .index (bindTarget sc f a) b
    | .var x => .index (.scope sc) (.str x)
    | .str s => .index (.scope sc) (.str s)
    | e => e

/-- the statements of a dictionary literal after `BindToScope(expr, ScopeThis)`: only direct assignments are rewritten. -/
def bindDictBody (body : List (Expr N)) : List (Expr N) :=
  body.map fun e => match e with
    | .set lhs op rhs => .set (bindTarget .this 64 lhs) op rhs
    | e => e

/-- A fresh `ScriptFrame frame(true)`: empty locals, `this` = globals, depth 0. -/
def initState : State N := { heap := #[.dict []], globals := [], maxDepth := 0 }
def initFrame : Frame N := { locals := 0, self := .ns, depth := 0 }

/-- Compile-and-evaluate of a whole program (a statement list = inline DictExpression, configcompiler Compile()). -/
def run (fuel : Nat) (prog : List (Expr N)) : Res N :=
  eval fuel initFrame (.expr (.block prog)) initState

end

end Icinga.C15

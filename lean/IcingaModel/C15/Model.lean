/-
  C15 — the interpreter.  `eval : Fuel → Frame → Task → State → Out × State`, one case per `DoEvaluate` of
  lib/config/expression.cpp:92-1067, with `VMOps` (lib/config/vmops.hpp) and the frame-depth accounting of
  `Expression::Evaluate` (expression.cpp:39-64) + `ScriptFrame::IncreaseStackDepth` (scriptframe.cpp:82-93).

  Fuel exists only to make the Lean function total (`while` and a `for` over a growing array may diverge in both
  worlds); it decreases by one per nested evaluation / loop iteration and its exhaustion is reported as `Err.fuel`,
  never as a script result.  The frame depth is NOT the fuel: it is `Frame.depth`, limit 300, exactly as in the code.
-/
import IcingaModel.C15.Natives

namespace Icinga.C15

/-- scriptframe.cpp:84 -/
def depthLimit : Nat := 300

inductive IterKind | map | filter | any | all | reduce
  deriving DecidableEq, Repr

/-- What one call of `eval` is asked to do. -/
inductive Task (N : Type) where
  | expr (e : Expr N)                                            -- Expression::Evaluate
  | exprs (es : List (Expr N)) (acc : List (Value N))            -- argument / element lists, left to right
  | block (es : List (Expr N)) (last : Value N)                  -- statements of a DictExpression
  | ref (e : Expr N) (initDict : Bool)                           -- Expression::GetReference
  | whileL (c body : Expr N)                                     -- the `for (;;)` of WhileExpression
  | forArr (k : String) (a : Addr) (i : Nat) (body : Expr N)     -- vmops.hpp:185-189
  | forKeys (k v : String) (d : Addr) (keys : List String) (body : Expr N)   -- vmops.hpp:204-209
  | call (f self : Value N) (args : List (Value N))              -- VMOps::FunctionCall
  | iter (kind : IterKind) (f : Value N) (items acc : List (Value N))       -- Array#map/filter/any/all/reduce

/-- What it answers. -/
inductive Out (N : Type) where
  | val (c : Ctl) (v : Value N)          -- ExpressionResult
  | vals (vs : List (Value N))           -- of `exprs`
  | ref (parent : Value N) (index : String)   -- GetReference returned true
  | noref                                -- GetReference returned false
  | err (e : Err)

abbrev Res (N : Type) := Out N × State N

section
variable {N : Type} [Num N]

def stackErr : Err := .script .stack "Stack overflow while evaluating expression: Recursion level too deep."

/-- CHECK_RESULT: continue with the value when the code is ResultOK, otherwise hand the result up unchanged. -/
@[inline] def bindV (r : Res N) (k : Value N → State N → Res N) : Res N :=
  match r with
  | (.val .ok v, st) => k v st
  | r => r

@[inline] def liftE (r : Except Err (Value N) × State N) : Res N :=
  match r with
  | (.ok v, st) => (.val .ok v, st)
  | (.error e, st) => (.err e, st)

def State.noteDepth (st : State N) (d : Nat) : State N := { st with maxDepth := max st.maxDepth d }

def localsGet (st : State N) (fr : Frame N) (x : String) : Option (Value N) :=
  match st.dict? fr.locals with | some kvs => kvGet x kvs | none => none

def localsSet (st : State N) (fr : Frame N) (x : String) (v : Value N) : State N :=
  match st.dict? fr.locals with
  | some kvs => st.put fr.locals (.dict (kvSet x v kvs))
  | none => st

/-- `frame.Self.IsObject() && frame.Locals != frame.Self` (expression.cpp:117, 134). -/
def selfUsable (fr : Frame N) : Bool :=
  fr.self.isObject && (match fr.self with | .dict a => a != fr.locals | _ => true)

/-- `use (a, b)` is a std::map: evaluated and stored in key order, duplicates collapse. -/
def sortedNames (l : List String) : List String :=
  dedupSorted (fun a b => a == b) (sortBy (fun a b => decide (a < b)) l)

/-- expression.cpp:198 `~(long)operand`. -/
def bitNot (v : Value N) : Except Err (Value N) :=
  match v with
  | .num _ | .bool _ | .empty =>
    match Num.toInt32 v.toDouble with
    | some i => .ok (.num (Num.ofInt (-i - 1)))
    | none => .error (.unmodelled "~ beyond int")
  | .str s => if s == "" then .ok (.num (Num.ofInt (-1))) else .error (.unmodelled "~ string")
  | _ => .error (.unmodelled "~ object")

def isCallbackNative (name : String) : Option IterKind :=
  match name with
  | "Array#map" => some .map | "Array#filter" => some .filter | "Array#any" => some .any
  | "Array#all" => some .all | "Array#reduce" => some .reduce | _ => none

/-- `if (function->Invoke({ item }))` in array-script.cpp:176, 196, 214: the C++ converts the result with
    `operator double()` (not `ToBool`): strings are parsed as numbers, objects throw. -/
def cbTruth (v : Value N) : Option Bool :=
  match v with
  | .num _ | .bool _ | .empty => some (!(Num.eq v.toDouble (nzero : N)))
  | .str s => if s == "" then some false else none
  | _ => none

def isFunction (v : Value N) : Bool := match v with | .fn _ | .native _ => true | _ => false

def eval : Nat → Frame N → Task N → State N → Res N
  | 0, _, _, st => (.err .fuel, st)
  | f + 1, fr, task, st =>
    match task with
    -- ------------------------------------------------------------------------------------------ lists
    | .exprs [] acc => (.vals acc.reverse, st)
    | .exprs (e :: es) acc =>
      bindV (eval f fr (.expr e) st) fun v st1 => eval f fr (.exprs es (v :: acc)) st1
    | .block [] last => (.val .ok last, st)
    | .block (e :: es) _ =>                                         -- expression.cpp:523-527
      bindV (eval f fr (.expr e) st) fun v st1 => eval f fr (.block es v) st1
    -- ------------------------------------------------------------------------------------------ loops
    | .whileL c body =>                                             -- expression.cpp:708-719
      bindV (eval f fr (.expr c) st) fun cv st1 =>
        if !truthy st1 cv then (.val .ok .empty, st1)
        else match eval f fr (.expr body) st1 with
          | (.val .ret v, st2) => (.val .ret v, st2)
          | (.val .brk _, st2) => (.val .ok .empty, st2)
          | (.val _ _, st2) => eval f fr (.whileL c body) st2
          | r => r
    | .forArr k a i body =>                                         -- vmops.hpp:185-189
      match st.arr? a with
      | none => (.err (.internal "forArr"), st)
      | some xs =>
        if i ≥ xs.length then (.val .ok .empty, st)
        else match eval f fr (.expr body) (localsSet st fr k (xs.getD i .empty)) with
          | (.val .ret v, st2) => (.val .ret v, st2)
          | (.val .brk _, st2) => (.val .ok .empty, st2)
          | (.val _ _, st2) => eval f fr (.forArr k a (i + 1) body) st2
          | r => r
    | .forKeys _ _ _ [] _ => (.val .ok .empty, st)
    | .forKeys k v d (key :: keys) body =>                          -- vmops.hpp:204-209
      let cur := match st.dict? d with | some kvs => (kvGet key kvs).getD .empty | none => .empty
      match eval f fr (.expr body) (localsSet (localsSet st fr k (.str key)) fr v cur) with
      | (.val .ret x, st2) => (.val .ret x, st2)
      | (.val .brk _, st2) => (.val .ok .empty, st2)
      | (.val _ _, st2) => eval f fr (.forKeys k v d keys body) st2
      | r => r
    -- ------------------------------------------------------------------------------------------ calls
    | .call fv self args =>                                         -- vmops.hpp:84-116, function.cpp:22-32
      match fv with
      | .fn a =>
        match st.get? a with
        | some (.fn params captured body) =>
          if args.length < params.length then (.err (.script .args "Too few arguments for function"), st)   -- :99
          else
            let loc := (params.zip args).foldl (fun d pa => kvSet pa.1 pa.2 d) captured                    -- :104-110
            let (la, st1) := st.alloc (.dict loc)
            let fr2 : Frame N := { locals := la, self := (match self with | .empty => .ns | s => s), depth := fr.depth }
            match eval f fr2 (.expr body) st1 with
            | (.val _ v, st2) => (.val .ok v, st2)                                                          -- :112 code dropped
            | r => r
        | _ => (.err (.internal "call"), st)
      | .native name =>
        match isCallbackNative name with
        | some kind =>
          if args.isEmpty then (.err tooFew, st) else
          match self, args.headD .empty with
          | .arr a, cb =>
            if !isFunction cb then (.err (.unmodelled "callback is not a function"), st) else
            match st.arr? a with
            | some xs =>
              match kind, xs with
              | .reduce, [] => (.val .ok .empty, st)
              | .reduce, x :: r => eval f fr (.iter .reduce cb r [x]) st
              | k, xs => eval f fr (.iter k cb xs []) st
            | none => (.err (.internal "iter"), st)
          | _, _ => (.err (.unmodelled "self"), st)
        | none =>
          match nativePure name self args st with
          | some r => liftE r
          | none => (.err (.unmodelled ("native " ++ name)), st)
      | _ => (.err (.internal "call of a non-function"), st)
    | .iter kind cb items acc =>                                    -- array-script.cpp:121-231
      match items with
      | [] =>
        match kind with
        | .map | .filter => liftE (newArr st acc.reverse)
        | .any => (.val .ok (.bool false), st)
        | .all => (.val .ok (.bool true), st)
        | .reduce => (.val .ok (acc.headD .empty), st)
      | x :: rest =>
        let cargs := match kind with | .reduce => [acc.headD .empty, x] | _ => [x]
        bindV (eval f fr (.call cb .empty cargs) st) fun r st1 =>
          match kind with
          | .map => eval f fr (.iter kind cb rest (r :: acc)) st1
          | .filter =>
            match cbTruth r with
            | some t => eval f fr (.iter kind cb rest (if t then x :: acc else acc)) st1
            | none => (.err (.unmodelled "callback result to double"), st1)
          | .any =>
            match cbTruth r with
            | some t => if t then (.val .ok (.bool true), st1) else eval f fr (.iter kind cb rest acc) st1
            | none => (.err (.unmodelled "callback result to double"), st1)
          | .all =>
            match cbTruth r with
            | some t => if !t then (.val .ok (.bool false), st1) else eval f fr (.iter kind cb rest acc) st1
            | none => (.err (.unmodelled "callback result to double"), st1)
          | .reduce => eval f fr (.iter kind cb rest [r]) st1
    -- ------------------------------------------------------------------------------------------ references
    | .ref e initDict =>
      match e with
      | .var x =>                                                   -- expression.cpp:125-150
        if (localsGet st fr x).isSome then (.ref (.dict fr.locals) x, st)
        else if selfUsable fr && hasOwnField st fr.self x then (.ref fr.self x, st)
        -- (the imports are looked up here as well; observed on the real evaluator: no frame-depth error arises from this
        --  lookup at the limit — `dict149` of the deep-nesting stream — so the reference path carries no depth check)
        else if systemFunctions.contains x then (.ref .sysns x, st)
        else if kvHas x st.globals then (.ref .ns x, st)
        else (.ref fr.self x, st)
      | .index a b =>                                               -- expression.cpp:751-802
        let parentRes : Res N :=
          match eval f fr (.ref a initDict) st with
          | (.ref vparent vindex, st1) =>
            let init : Except Err (State N) :=
              if initDict then
                let has := if vparent.isObject then hasOwnField st1 vparent vindex else true
                match (if has then getField st1 vparent vindex else .ok .empty) with
                | .error e => .error e
                | .ok .empty =>
                  let (d, st2) := st1.alloc (.dict [])
                  setField st2 vparent vindex (.dict d)
                | .ok _ => .ok st1
              else .ok st1
            match init with
            | .error e => (.err e, st1)
            | .ok st2 =>
              match getField st2 vparent vindex with
              | .ok p => (.val .ok p, st2)
              | .error e => (.err e, st2)
          | (.noref, st1) =>
            match eval f fr (.expr a) st1 with
            | (.val _ v, st2) => (.val .ok v, st2)                  -- :784-785 code ignored
            | r => r
          | r => r
        bindV parentRes fun p st3 =>
          match eval f fr (.expr b) st3 with
          | (.val _ iv, st4) =>                                     -- :788-789
            match iv.toStr? with
            | some i => (.ref p i, st4)
            | none => (.err (.unmodelled "container to string"), st4)
          | r => r
      | _ => (.noref, st)                                           -- expression.cpp:66-69
    -- ------------------------------------------------------------------------------------------ expressions
    | .expr e =>
      if fr.depth + 1 > depthLimit then (.err stackErr, st)         -- scriptframe.cpp:84-85
      else
      let fr : Frame N := { fr with depth := fr.depth + 1 }         -- scriptframe.cpp:87
      let st := st.noteDepth fr.depth
      match e with
      | .null => (.val .ok .empty, st)
      | .num n => (.val .ok (.num n), st)
      | .bool b => (.val .ok (.bool b), st)
      | .str s => (.val .ok (.str s), st)
      | .var x =>                                                   -- expression.cpp:111-123
        match localsGet st fr x with
        | some v => (.val .ok v, st)
        | none =>
          if selfUsable fr && hasOwnField st fr.self x then liftE (getField st fr.self x, st)
          else if systemFunctions.contains x then
            if fr.depth + 2 > depthLimit then (.err stackErr, st)
            else (.val .ok (.native ("System#" ++ x)), st.noteDepth (fr.depth + 2))
          else if fr.depth + 3 > depthLimit then (.err stackErr, st.noteDepth (min depthLimit (fr.depth + 2)))
          else match kvGet x st.globals with
            | some v => (.val .ok v, st.noteDepth (fr.depth + 3))
            | none => (.err (.script .undefvar ("Tried to access undefined script variable '" ++ x ++ "'")), st.noteDepth (fr.depth + 3))
      | .scope s =>                                                 -- expression.cpp:542-552
        (.val .ok (match s with | .locals => .dict fr.locals | .this => fr.self | .globals => .ns), st)
      | .bnot a => bindV (eval f fr (.expr a) st) fun v st1 => liftE (bitNot v, st1)
      | .lnot a => bindV (eval f fr (.expr a) st) fun v st1 => (.val .ok (.bool (!truthy st1 v)), st1)
      | .bin op a b =>                                              -- expression.cpp:209-383
        bindV (eval f fr (.expr a) st) fun va st1 =>
          bindV (eval f fr (.expr b) st1) fun vb st2 => liftE (binop op va vb st2)
      | .and a b =>                                                 -- expression.cpp:419-432
        bindV (eval f fr (.expr a) st) fun va st1 =>
          if !truthy st1 va then (.val .ok va, st1)
          else bindV (eval f fr (.expr b) st1) fun vb st2 => (.val .ok vb, st2)
      | .or a b =>                                                  -- expression.cpp:434-447
        bindV (eval f fr (.expr a) st) fun va st1 =>
          if truthy st1 va then (.val .ok va, st1)
          else bindV (eval f fr (.expr b) st1) fun vb st2 => (.val .ok vb, st2)
      | .isIn a b =>                                                -- expression.cpp:385-400 (right operand first)
        bindV (eval f fr (.expr b) st) fun vb st1 =>
          if vb.isEmpty then (.val .ok (.bool false), st1)
          else match vb with
            | .arr ba =>
              bindV (eval f fr (.expr a) st1) fun va st2 =>
                match arrContains st2 ((st2.arr? ba).getD []) va with
                | some r => (.val .ok (.bool r), st2)
                | none => (.err (.unmodelled "deep comparison"), st2)
            | _ => (.err (.script .inrhs "Invalid right side argument for 'in' operator"), st1)
      | .notIn a b =>                                               -- expression.cpp:402-417
        bindV (eval f fr (.expr b) st) fun vb st1 =>
          if vb.isEmpty then (.val .ok (.bool true), st1)
          else match vb with
            | .arr ba =>
              bindV (eval f fr (.expr a) st1) fun va st2 =>
                match arrContains st2 ((st2.arr? ba).getD []) va with
                | some r => (.val .ok (.bool !r), st2)
                | none => (.err (.unmodelled "deep comparison"), st2)
            | _ => (.err (.script .inrhs "Invalid right side argument for 'in' operator"), st1)
      | .index a b =>                                               -- expression.cpp:740-749
        bindV (eval f fr (.expr a) st) fun va st1 =>
          bindV (eval f fr (.expr b) st1) fun vb st2 =>
            match vb.toStr? with
            | some i => liftE (getField st2 va i, st2)
            | none => (.err (.unmodelled "container to string"), st2)
      | .call fe args =>                                            -- expression.cpp:449-494
        let fres : Except Err (Value N × Value N) × State N :=
          match eval f fr (.ref fe false) st with
          | (.ref self index, st1) =>
            match getField st1 self index with
            | .ok vf => (.ok (self, vf), st1)
            | .error e => (.error e, st1)
          | (.noref, st1) =>
            match eval f fr (.expr fe) st1 with
            | (.val .ok vf, st2) => (.ok (.empty, vf), st2)
            | (.val _ _, st2) => (.error (.unmodelled "flow control in callee position"), st2)
            | (.err e, st2) => (.error e, st2)
            | (_, st2) => (.error (.internal "call/eval"), st2)
          | (.err e, st1) => (.error e, st1)
          | (_, st1) => (.error (.internal "call/ref"), st1)
        match fres with
        | (.error e, st1) => (.err e, st1)
        | (.ok (self, vf), st1) =>
          match vf with
          | .typ _ => (.err (.unmodelled "constructor call"), st1)                                          -- :463
          | .fn _ | .native _ =>
            match eval f fr (.exprs args []) st1 with
            | (.vals vs, st2) => eval f fr (.call vf self vs) st2
            | r => r
          | _ => (.err (.script .notcallable "Argument is not a callable object."), st1)                   -- :476
      | .array es =>                                                -- expression.cpp:496-509
        match eval f fr (.exprs es []) st with
        | (.vals vs, st1) => liftE (newArr st1 vs)
        | r => r
      | .dict body =>                                               -- expression.cpp:511-540 (not inline)
        let (d, st1) := st.alloc (.dict [])
        bindV (eval f { fr with self := .dict d } (.block body .empty) st1) fun _ st2 => (.val .ok (.dict d), st2)
      | .block body => eval f fr (.block body .empty) st            -- expression.cpp:511-540 (inline)
      | .set lhs op rhs =>                                          -- expression.cpp:606-667
        match eval f fr (.ref lhs true) st with
        | (.noref, st1) => (.err (.script .noassign "Expression cannot be assigned to."), st1)
        | (.ref parent index, st1) =>
          bindV (eval f fr (.expr rhs) st1) fun v st2 =>
            let newv : Except Err (Value N) × State N :=
              match op.bin with
              | none => (.ok v, st2)
              | some bop =>
                match getField st2 parent index with
                | .ok old => binop bop old v st2
                | .error e => (.error e, st2)
            match newv with
            | (.error e, st3) => (.err e, st3)
            | (.ok nv, st3) =>
              match setField st3 parent index nv with
              | .ok st4 => (.val .ok .empty, st4)
              | .error e => (.err e, st3)
        | r => r
      | .cond c t fe =>                                             -- expression.cpp:690-701
        bindV (eval f fr (.expr c) st) fun cv st1 =>
          if truthy st1 cv then eval f fr (.expr t) st1
          else match fe with
            | some fe => eval f fr (.expr fe) st1
            | none => (.val .ok .empty, st1)
      | .while c body => eval f fr (.whileL c body) st
      | .for k v e body =>                                          -- expression.cpp:961-970, vmops.hpp:177-234
        bindV (eval f fr (.expr e) st) fun cv st1 =>
          match cv with
          | .arr a =>
            if v != "" then (.err (.script .fortype "Cannot use dictionary iterator for array."), st1)
            else eval f fr (.forArr k a 0 body) st1
          | .dict d =>
            if v == "" then (.err (.script .fortype "Cannot use array iterator for dictionary."), st1)
            else eval f fr (.forKeys k v d (((st1.dict? d).getD []).map (·.1)) body) st1
          | .ns | .sysns => (.err (.unmodelled "for over a namespace"), st1)
          | _ => (.err (.script .fortype "Invalid type in for expression"), st1)
      | .func params uses body =>                                   -- expression.cpp:899-902, vmops.hpp:93-116, 258-269
        let names := sortedNames uses
        match eval f fr (.exprs (names.map .var) []) st with
        | (.vals vs, st1) =>
          let (a, st2) := st1.alloc (.fn params (names.zip vs) body)
          (.val .ok (.fn a), st2)
        | r => r
      | .ret a => bindV (eval f fr (.expr a) st) fun v st1 => (.val .ret v, st1)     -- expression.cpp:722-728
      | .brk => (.val .brk .empty, st)
      | .cont => (.val .cont .empty, st)
      | .throw a =>                                                 -- expression.cpp:849-855
        bindV (eval f fr (.expr a) st) fun v st1 =>
          match v.toStr? with
          | some m => (.err (.script .user m), st1)
          | none => (.err (.unmodelled "container to string"), st1)
      | .try a b =>                                                 -- expression.cpp:1055-1066
        match eval f fr (.expr a) st with
        | (.val .ok _, st1) => (.val .ok .empty, st1)
        | (.err (.script _ _), st1) =>
          bindV (eval f fr (.expr b) st1) fun _ st2 => (.val .ok .empty, st2)
        | r => r

/-- A fresh `ScriptFrame frame(true)`: empty locals, `this` = globals, depth 0. -/
def initState : State N := { heap := #[.dict []], globals := [], maxDepth := 0 }
def initFrame : Frame N := { locals := 0, self := .ns, depth := 0 }

/-- Compile-and-evaluate of a whole program (a statement list = inline DictExpression, configcompiler Compile()). -/
def run (fuel : Nat) (prog : List (Expr N)) : Res N :=
  eval fuel initFrame (.expr (.block prog)) initState

end

end Icinga.C15

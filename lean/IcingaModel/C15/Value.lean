/-
  C15 — values and operators of the Icinga 2 config language.
  Transcribes lib/base/value-operators.cpp (typing rules of + - * / % & | ^ << >> == != < > <= >=),
  lib/base/value.cpp:184-213 (ToBool) and the `IsEmpty/IsNumber/IsString` predicates of lib/base/value.hpp.

  The number type is a class parameter `Num`: the driver instantiates it with `Float` (IEEE binary64, so the
  executable model computes what the C++ computes, bit for bit); the theorems are generic in it and the
  kernel-checked examples use the exact instance `Int`.  No theorem depends on a floating-point fact.
-/
namespace Icinga.C15

/-- What the interpreter needs from `double`. -/
class Num (N : Type) where
  ofInt : Int → N
  add : N → N → N
  sub : N → N → N
  mul : N → N → N
  div : N → N → N
  eq : N → N → Bool
  lt : N → N → Bool
  le : N → N → Bool
  /-- C++ `static_cast<int>(double)`: truncation toward zero; `none` when the truncated value does not fit
      `int` (undefined behaviour in C++). -/
  toInt32 : N → Option Int
  /-- `Convert::ToString(double)` (lib/base/convert.cpp:20-31). -/
  toStr : N → String
  /-- `stream << std::fixed << double` (ConfigWriter::EmitNumber): always six fraction digits. -/
  toFixed : N → String

/-- Exact instance used by the kernel-checked examples (division truncates; not used by the driver). -/
instance : Num Int where
  ofInt := id
  add := (· + ·)
  sub := (· - ·)
  mul := (· * ·)
  div := Int.tdiv
  eq := (· == ·)
  lt a b := decide (a < b)
  le a b := decide (a ≤ b)
  toInt32 a := if -2147483648 ≤ a ∧ a ≤ 2147483647 then some a else none
  toStr a := toString a
  toFixed a := toString a ++ ".000000"

abbrev Addr := Nat

/-- lib/base/value.hpp `ValueType` plus the object classes the sub-language can produce.
    Arrays, dictionaries and script functions are heap objects (reference semantics: `var b = a; b.add(1)`
    changes `a`), so the value is the address. -/
inductive Value (N : Type) where
  | empty
  | num (n : N)
  | bool (b : Bool)
  | str (s : String)
  | arr (a : Addr)
  | dict (a : Addr)
  | fn (a : Addr)            -- closure created by `function`/lambda (vmops.hpp:93-116)
  | native (name : String)   -- prototype method or System function, e.g. "Array#len", "System#len"
  | ns                       -- ScriptGlobal::GetGlobals()
  | sysns                    -- the frozen `System` namespace (first import of every VariableExpression)
  | typ (name : String)      -- Type object (result of typeof)

/-- Type tags (`Value::GetTypeName`). -/
inductive Ty | empty | number | boolean | string | array | dictionary | function | namespace | type
  deriving DecidableEq, Repr

def Value.ty {N} : Value N → Ty
  | .empty => .empty | .num _ => .number | .bool _ => .boolean | .str _ => .string
  | .arr _ => .array | .dict _ => .dictionary | .fn _ => .function | .native _ => .function
  | .ns => .namespace | .sysns => .namespace | .typ _ => .type

def Ty.name : Ty → String
  | .empty => "Empty" | .number => "Number" | .boolean => "Boolean" | .string => "String"
  | .array => "Array" | .dictionary => "Dictionary" | .function => "Function" | .namespace => "Namespace"
  | .type => "Type"

/-- Heap objects. -/
inductive Obj (N E : Type) where
  | arr (xs : List (Value N))
  | dict (kvs : List (String × Value N))   -- std::map<String, Value>: sorted by key
  | fn (params : List String) (captured : List (String × Value N)) (body : E)

/-- value.hpp `IsEmpty()`: the Empty value **or the empty string**. -/
def Value.isEmpty {N} : Value N → Bool
  | .empty => true
  | .str s => s == ""
  | _ => false

def Value.isNumber {N} : Value N → Bool | .num _ => true | _ => false
def Value.isString {N} : Value N → Bool | .str _ => true | _ => false
def Value.isBoolean {N} : Value N → Bool | .bool _ => true | _ => false
def Value.isArray {N} : Value N → Bool | .arr _ => true | _ => false
def Value.isDict {N} : Value N → Bool | .dict _ => true | _ => false
def Value.isObject {N} : Value N → Bool
  | .arr _ | .dict _ | .fn _ | .native _ | .ns | .sysns | .typ _ => true
  | _ => false

/-- Script errors, by the class of their message (the harness maps the C++ message to the same classes). -/
inductive ErrKind
  | stack        -- "Stack overflow while evaluating expression: Recursion level too deep."
  | optype       -- "Operator X cannot be applied to values of type ..."
  | divzero      -- "Right-hand side argument for operator / is 0." / "... is Empty."
  | undefvar     -- "Tried to access undefined script variable 'x'"
  | notcallable  -- "Argument is not a callable object."
  | badfield     -- "Invalid field access (for value of type 'T'): 'f'"
  | bounds       -- "Array index 'i' is out of bounds."
  | inrhs        -- "Invalid right side argument for 'in' operator"
  | fortype      -- "Invalid type in for expression" / "Cannot use ... iterator for ..."
  | setnull      -- "Cannot set field 'f' on a value that is not an object."
  | notobject    -- "Cannot convert value of type 'T' to an object."
  | badcast      -- bad lexical cast (array assignment with a non-integer index)
  | args         -- "Too few arguments for function"
  | range        -- "String index is out of range"
  | noassign     -- "Expression cannot be assigned to."
  | frozen       -- "Namespace is read-only and must not be modified."
  | tonumber     -- "Can't convert '…' to a floating point number."
  | user         -- thrown by `throw` (message compared literally)
  deriving DecidableEq, Repr

def ErrKind.name : ErrKind → String
  | .stack => "stack" | .optype => "optype" | .divzero => "divzero" | .undefvar => "undefvar"
  | .notcallable => "notcallable" | .badfield => "badfield" | .bounds => "bounds" | .inrhs => "inrhs"
  | .fortype => "fortype" | .setnull => "setnull" | .notobject => "notobject" | .badcast => "badcast"
  | .args => "args" | .range => "range" | .noassign => "noassign" | .frozen => "frozen" | .tonumber => "tonumber" | .user => "user"

inductive Err where
  | script (k : ErrKind) (msg : String)   -- catchable by try/except (everything derived from std::exception)
  | fuel                                   -- model artefact: loop/comparison budget exhausted
  | unmodelled (what : String)             -- outside the modelled domain (C++ undefined behaviour, native argument conversions ...)
  | internal (what : String)               -- dangling address / impossible shape: never on well-formed states
  deriving DecidableEq, Repr

section ops
variable {N : Type} [Num N]

def nzero : N := Num.ofInt 0

/-- value.cpp:184-213 `ToBool` for scalars; containers need the heap (`truthy` in Model.lean). -/
def Value.scalarBool : Value N → Bool
  | .num n => !(Num.eq n (nzero : N))
  | .bool b => b
  | .str s => s != ""
  | .empty => false
  | _ => true

/-- value-operators.cpp:14-36 `operator double()` restricted to the operand classes that reach it. -/
def Value.toDouble : Value N → N
  | .num n => n
  | .bool b => Num.ofInt (if b then 1 else 0)
  | _ => nzero

/-- `Object::ToString` default for objects. -/
def Ty.objString (t : Ty) : String := "Object of type '" ++ t.name ++ "'"

/-- value-operators.cpp:38-60 `operator String()`. -/
def Value.toStr : Value N → String
  | .empty => ""
  | .num n => Num.toStr n
  | .bool b => if b then "true" else "false"
  | .str s => s
  | v => v.ty.objString

def opTypeErr (op : String) (l r : Value N) : Err :=
  .script .optype ("Operator " ++ op ++ " cannot be applied to values of type '" ++ l.ty.name ++ "' and '" ++ r.ty.name ++ "'")

/-- (number-or-empty) × (number-or-empty), not both empty: the guard shared by * & | ^ << >> and the relational operators
    (value-operators.cpp:319, 413, 441, 469, 497, 525, 555). -/
def numPair (l r : Value N) : Bool :=
  (l.isNumber || l.isEmpty) && (r.isNumber || r.isEmpty) && !(l.isEmpty && r.isEmpty)

/-- the stricter guard of + and - (value-operators.cpp:210, 259): additionally neither side is a string. -/
def numPairStrict (l r : Value N) : Bool :=
  (l.isEmpty || l.isNumber) && !l.isString && (r.isEmpty || r.isNumber) && !r.isString && !(l.isEmpty && r.isEmpty)

/-- value-operators.cpp:212 — string concatenation guard. -/
def strPair (l r : Value N) : Bool :=
  (l.isString || l.isEmpty || l.isNumber) && (r.isString || r.isEmpty || r.isNumber)
    && (!(l.isEmpty && r.isEmpty) || l.isString || r.isString)

def arrPair (l r : Value N) : Bool := (l.isArray || l.isEmpty) && (r.isArray || r.isEmpty) && !(l.isEmpty && r.isEmpty)
def dictPair (l r : Value N) : Bool := (l.isDict || l.isEmpty) && (r.isDict || r.isEmpty) && !(l.isEmpty && r.isEmpty)

/-- two's complement wrap to `int` (the result of int arithmetic in the C++ is converted back to double). -/
def wrap32 (i : Int) : Int := ((i + 2147483648) % 4294967296) - 2147483648

/-- bit operations on C++ `int` operands. -/
def toU32 (i : Int) : Nat := (i % 4294967296).toNat
def ofU32 (n : Nat) : Int := wrap32 (Int.ofNat (n % 4294967296))

inductive IntOp | mod | xor | band | bor | shl | shr
  deriving DecidableEq, Repr

/-- `static_cast<int>(lhs) OP static_cast<int>(rhs)`; `none` = undefined (shift count outside 0..31, INT_MIN % -1).
    Signed shifts with an in-range count follow GCC's documented behaviour (the object code under test is built with it):
    `<<` wraps modulo 2^32, `>>` of a negative value is arithmetic. -/
def intOp (op : IntOp) (a b : Int) : Option Int :=
  match op with
  | .mod => if b == 0 then none else if a == -2147483648 && b == -1 then none else some (Int.tmod a b)
  | .xor => some (ofU32 (toU32 a ^^^ toU32 b))
  | .band => some (ofU32 (toU32 a &&& toU32 b))
  | .bor => some (ofU32 (toU32 a ||| toU32 b))
  | .shl => if 0 ≤ b && b < 32 then some (wrap32 (a * (2 ^ b.toNat))) else none
  | .shr => if 0 ≤ b && b < 32 then some (Int.fdiv a (2 ^ b.toNat)) else none

/-- result of a scalar binary operator: a value, an error, or "needs the heap" (arrays/dictionaries). -/
inductive OpRes (N : Type) where
  | val (v : Value N)
  | err (e : Err)
  | heap                     -- array/dictionary/deep-comparison case: handled by the interpreter with the heap

def intBin (name : String) (op : IntOp) (l r : Value N) : OpRes N :=
  if numPair l r then
    match Num.toInt32 l.toDouble, Num.toInt32 r.toDouble with
    | some a, some b =>
      match intOp op a b with
      | some c => .val (.num (Num.ofInt c))
      | none => .err (.unmodelled ("int " ++ name))
    | _, _ => .err (.unmodelled ("static_cast<int> " ++ name))
  else .err (opTypeErr name l r)

inductive BinOp | add | sub | mul | div | mod | xor | band | bor | shl | shr | eq | ne | lt | gt | le | ge
  deriving DecidableEq, Repr

def BinOp.sym : BinOp → String
  | .add => "+" | .sub => "-" | .mul => "*" | .div => "/" | .mod => "%" | .xor => "^" | .band => "&" | .bor => "|"
  | .shl => "<<" | .shr => ">>" | .eq => "==" | .ne => "!=" | .lt => "<" | .gt => ">" | .le => "<=" | .ge => ">="

/-- Relational operators on scalars (value-operators.cpp:551-719): strings with strings, numbers/Empty with
    numbers/Empty; arrays with arrays only for < and > (`heap`); everything else is a type error. -/
def relOp (op : BinOp) (l r : Value N) : OpRes N :=
  match l, r with
  | .str a, .str b =>
    .val (.bool (match op with | .lt => a < b | .gt => b < a | .le => !(b < a) | _ => !(a < b)))
  | _, _ =>
    if numPair l r then
      let a := l.toDouble; let b := r.toDouble
      .val (.bool (match op with | .lt => Num.lt a b | .gt => Num.lt b a | .le => Num.le a b | _ => Num.le b a))
    else if l.isArray && r.isArray && (op == .lt || op == .gt) then .heap
    else .err (opTypeErr op.sym l r)

/-- `Value::operator==` on scalars (value-operators.cpp:130-181); arrays compare element-wise (`heap`),
    other objects by identity. -/
def eqScalar (l r : Value N) : Option Bool :=
  if l.isNumber && r.isNumber then some (Num.eq l.toDouble r.toDouble)
  else if (l.isBoolean || l.isNumber) && (r.isBoolean || r.isNumber) && !(l.isEmpty && r.isEmpty) then
    some (Num.eq l.toDouble r.toDouble)
  else if l.isString && r.isString then some (l.toStr == r.toStr)
  else if (l.isString || l.isEmpty) && (r.isString || r.isEmpty) && !(l.isEmpty && r.isEmpty) then
    some (l.toStr == r.toStr)
  else if l.isEmpty != r.isEmpty then some false
  else if l.isEmpty then some true
  else if l.isObject != r.isObject then some false
  else if l.isObject then
    match l, r with
    | .arr _, .arr _ => none
    | .dict a, .dict b => some (a == b)
    | .fn a, .fn b => some (a == b)
    | .native a, .native b => some (a == b)
    | .ns, .ns => some true
    | .sysns, .sysns => some true
    | .typ a, .typ b => some (a == b)
    | _, _ => some false
  else some false

/-- The binary operators of value-operators.cpp on scalar operands. -/
def binScalar (op : BinOp) (l r : Value N) : OpRes N :=
  match op with
  | .add =>
    if numPairStrict l r then .val (.num (Num.add l.toDouble r.toDouble))             -- :210
    else if strPair l r then .val (.str (l.toStr ++ r.toStr))                            -- :212
    else if numPair l r then .val (.num (Num.add l.toDouble r.toDouble))                -- :214 (unreachable)
    else if arrPair l r then .heap                                                       -- :218
    else if dictPair l r then .heap                                                      -- :225
    else .err (opTypeErr "+" l r)
  | .sub =>
    if numPairStrict l r then .val (.num (Num.sub l.toDouble r.toDouble))             -- :259
    else if arrPair l r then .heap                                                       -- :267
    else .err (opTypeErr "-" l r)
  | .mul =>
    if numPair l r then .val (.num (Num.mul l.toDouble r.toDouble)) else .err (opTypeErr "*" l r)   -- :319
  | .div =>
    if r.isEmpty then .err (.script .divzero "Right-hand side argument for operator / is Empty.")    -- :347
    else if (l.isEmpty || l.isNumber) && r.isNumber then                                               -- :349
      if Num.eq r.toDouble (nzero : N) then .err (.script .divzero "Right-hand side argument for operator / is 0.")
      else .val (.num (Num.div l.toDouble r.toDouble))
    else .err (opTypeErr "/" l r)
  | .mod =>
    if r.isEmpty then .err (.script .divzero "Right-hand side argument for operator % is Empty.")    -- :380
    else if (r.isNumber || l.isNumber) && r.isNumber then                                              -- :382 (sic: only rhs is checked)
      if Num.eq r.toDouble (nzero : N) then .err (.script .divzero "Right-hand side argument for operator % is 0.")
      else
        match Num.toInt32 r.toDouble with                                     -- `int divisor = static_cast<int>(rhs)`
        | none => .err (.unmodelled "static_cast<int> %")
        | some b =>
          -- the operands are truncated to integers: 0.5 becomes 0 as well (09db53a)
          if b == 0 then .err (.script .divzero "Right-hand side argument for operator % is 0.")
          -- INT_MIN % -1 overflows; the remainder is 0 for every left-hand side, which is not even converted (09db53a)
          else if b == -1 then .val (.num (Num.ofInt 0))
          else
            -- `static_cast<int>(lhs)`: goes through `operator double()`, which lexical_casts strings and objects
            match l with
            | .num _ | .bool _ | .empty =>
              match Num.toInt32 l.toDouble with
              | some a => .val (.num (Num.ofInt (Int.tmod a b)))
              | none => .err (.unmodelled "static_cast<int> %")
            | .str s => if s == "" then .val (.num (Num.ofInt 0))
              else .err (.unmodelled "lexical_cast<double>(string) %")
            | _ => .err (.script .tonumber "Can't convert object to a floating point number.")
    else .err (opTypeErr "%" l r)
  | .xor => intBin "&" .xor l r      -- :416 (sic: the message of ^ says '&')
  | .band => intBin "&" .band l r
  | .bor => intBin "|" .bor l r
  | .shl => intBin "<<" .shl l r
  | .shr => intBin ">>" .shr l r
  | .eq => match eqScalar l r with | some b => .val (.bool b) | none => .heap
  | .ne => match eqScalar l r with | some b => .val (.bool !b) | none => .heap
  | .lt | .gt | .le | .ge => relOp op l r

end ops

end Icinga.C15

/-
  C15 — abstract syntax, heap, field access (vmops.hpp:236-255, array.cpp:339-370, dictionary.cpp:283-306,
  namespace.cpp:134-154, object.cpp:183-201) and the heap half of the value operators.
-/
import IcingaModel.C15.Value

namespace Icinga.C15

inductive Scope | this | locals | globals
  deriving DecidableEq, Repr

/-- config_lexer.ll: `=` `+=` `-=` `*=` `/=` `%=` `^=` `&=` `|=` (CombinedSetOp). -/
inductive SetOp | lit | add | sub | mul | div | mod | xor | band | bor
  deriving DecidableEq, Repr

def SetOp.bin : SetOp → Option BinOp
  | .lit => none | .add => some .add | .sub => some .sub | .mul => some .mul | .div => some .div
  | .mod => some .mod | .xor => some .xor | .band => some .band | .bor => some .bor

/-- One constructor per node class of lib/config/expression.hpp that the sub-language uses.
    (`-e` is `bin sub (num 0) e`, `+e` is `e`, `a.b` is `index a (str "b")`, `var x = e` is
    `set (index (scope locals) (str "x")) lit e`, `function f(..) {..}` is `set (index (scope this) (str "f")) lit (func ..)`
    — exactly what config_parser.yy builds.) -/
inductive Expr (N : Type) where
  | null | num (n : N) | bool (b : Bool) | str (s : String)     -- LiteralExpression
  | var (x : String)                                            -- VariableExpression
  | scope (s : Scope)                                           -- GetScopeExpression
  | bnot (e : Expr N)                                           -- NegateExpression  ~
  | lnot (e : Expr N)                                           -- LogicalNegateExpression  !
  | bin (op : BinOp) (a b : Expr N)                             -- Add … GreaterThanOrEqualExpression
  | and (a b : Expr N) | or (a b : Expr N)                      -- LogicalAnd/OrExpression
  | isIn (a b : Expr N) | notIn (a b : Expr N)                  -- In/NotInExpression
  | index (a b : Expr N)                                        -- IndexerExpression
  | call (f : Expr N) (args : List (Expr N))                    -- FunctionCallExpression
  | array (es : List (Expr N))                                  -- ArrayExpression
  | dict (body : List (Expr N))                                 -- DictExpression (not inline): new `this`
  | block (body : List (Expr N))                                -- DictExpression (inline): statement list
  | set (lhs : Expr N) (op : SetOp) (rhs : Expr N)              -- SetExpression
  | cond (c t : Expr N) (f : Option (Expr N))                   -- ConditionalExpression
  | while (c body : Expr N)                                     -- WhileExpression
  | for (k v : String) (e body : Expr N)                        -- ForExpression (v = "" : array form)
  | func (params : List String) (uses : List String) (body : Expr N)   -- FunctionExpression
  | ret (e : Expr N) | brk | cont                               -- Return/Break/ContinueExpression
  | throw (e : Expr N)                                          -- ThrowExpression
  | try (a b : Expr N)                                          -- TryExceptExpression

abbrev HObj (N : Type) := Obj N (Expr N)

/-- Interpreter state: the heap (append-only allocation), the user-visible part of the global namespace, and the
    ghost high-water mark of `ScriptFrame::Depth` (`depth_bounded` is about it). -/
structure State (N : Type) where
  heap : Array (HObj N)
  globals : List (String × Value N)
  maxDepth : Nat

/-- scriptframe.hpp:17-24. `depth` is `ScriptFrame::Depth`. -/
structure Frame (N : Type) where
  locals : Addr
  self : Value N
  depth : Nat

/-- `ExpressionResult` codes (expression.hpp). -/
inductive Ctl | ok | ret | brk | cont
  deriving DecidableEq, Repr

section
variable {N : Type} [Num N]

/-! ### association lists sorted by key (std::map<String, Value>) -/

def kvGet (k : String) : List (String × Value N) → Option (Value N)
  | [] => none
  | (a, v) :: r => if a == k then some v else kvGet k r

def kvSet (k : String) (v : Value N) : List (String × Value N) → List (String × Value N)
  | [] => [(k, v)]
  | (a, w) :: r => if k < a then (k, v) :: (a, w) :: r else if a == k then (k, v) :: r else (a, w) :: kvSet k v r

def kvRemove (k : String) : List (String × Value N) → List (String × Value N)
  | [] => []
  | (a, w) :: r => if a == k then r else (a, w) :: kvRemove k r

def kvHas (k : String) (l : List (String × Value N)) : Bool := (kvGet k l).isSome

/-- `Dictionary::CopyTo`: every pair of `src` is set in `dst`. -/
def kvMerge (dst src : List (String × Value N)) : List (String × Value N) :=
  src.foldl (fun d kv => kvSet kv.1 kv.2 d) dst

/-! ### heap -/

def State.alloc (st : State N) (o : HObj N) : Addr × State N :=
  (st.heap.size, { st with heap := st.heap.push o })

def State.get? (st : State N) (a : Addr) : Option (HObj N) := st.heap[a]?

def State.put (st : State N) (a : Addr) (o : HObj N) : State N :=
  { st with heap := st.heap.setIfInBounds a o }

def State.arr? (st : State N) (a : Addr) : Option (List (Value N)) :=
  match st.get? a with | some (.arr xs) => some xs | _ => none

def State.dict? (st : State N) (a : Addr) : Option (List (String × Value N)) :=
  match st.get? a with | some (.dict kvs) => some kvs | _ => none

/-- value.cpp:184-213 `ToBool` (containers: non-empty). -/
def truthy (st : State N) : Value N → Bool
  | .arr a => match st.arr? a with | some xs => !xs.isEmpty | none => true
  | .dict a => match st.dict? a with | some kvs => !kvs.isEmpty | none => true
  | v => v.scalarBool

/-! ### deep equality and ordering (value-operators.cpp:159-175, 559-579) — the C++ recursion is unbounded
    (a self-containing array crashes it, finding F-C15c); the model gives up (`none`) beyond depth `fuel`. -/

def valEq : Nat → State N → Value N → Value N → Option Bool
  | 0, _, _, _ => none
  | f + 1, st, l, r =>
    match eqScalar l r with
    | some b => some b
    | none =>
      match l, r with
      | .arr a, .arr b =>
        if a == b then some true else
        match st.arr? a, st.arr? b with
        | some xs, some ys =>
          if xs.length != ys.length then some false
          else
            let rec go : List (Value N) → List (Value N) → Option Bool
              | x :: xs, y :: ys =>
                match valEq f st x y with
                | some true => go xs ys
                | some false => some false
                | none => none
              | _, _ => some true
            go xs ys
        | _, _ => none
      | _, _ => none

/-- `Array::Contains` (array.cpp): first element equal to `v`. -/
def arrContains (st : State N) (xs : List (Value N)) (v : Value N) : Option Bool :=
  match xs with
  | [] => some false
  | x :: r =>
    match valEq 64 st x v with
    | some true => some true
    | some false => arrContains st r v
    | none => none

inductive CmpRes | yes | no | typeErr | giveUp
  deriving DecidableEq

/-- element-wise ordering of two arrays with Empty padding (value-operators.cpp:569-579). -/
def lessList (cmp : Bool → Value N → Value N → CmpRes) (lt : Bool) : Nat → List (Value N) → List (Value N) → CmpRes
  | 0, _, _ => .no
  | n + 1, xs, ys =>
    let x := xs.headD .empty; let y := ys.headD .empty
    match cmp lt x y with
    | .yes => .yes
    | .no =>
      match cmp (!lt) x y with
      | .yes => .no
      | .no => lessList cmp lt n xs.tail ys.tail
      | e => e
    | e => e

/-- `lhs < rhs` (lt = true) or `lhs > rhs` on arbitrary values, arrays element-wise with Empty padding. -/
def valLess : Nat → State N → Bool → Value N → Value N → CmpRes
  | 0, _, _, _, _ => .giveUp
  | f + 1, st, lt, l, r =>
    match relOp (if lt then .lt else .gt) l r with
    | .val (.bool b) => if b then .yes else .no
    | .val _ => .giveUp
    | .err _ => .typeErr
    | .heap =>
      match l, r with
      | .arr a, .arr b =>
        match st.arr? a, st.arr? b with
        | some xs, some ys => lessList (fun lt x y => valLess f st lt x y) lt (max xs.length ys.length) xs ys
        | _, _ => .giveUp
      | _, _ => .giveUp

/-- Outcome of an operator: value (possibly with an allocation) or error. -/
def binop (op : BinOp) (l r : Value N) (st : State N) : Except Err (Value N) × State N :=
  match binScalar op l r with
  | .val v => (.ok v, st)
  | .err e => (.error e, st)
  | .heap =>
    match op with
    | .add =>
      if arrPair l r then
        -- value-operators.cpp:218-224
        let xs := match l with | .arr a => (st.arr? a).getD [] | _ => []
        let ys := match r with | .arr a => (st.arr? a).getD [] | _ => []
        let (a, st') := st.alloc (.arr (xs ++ ys))
        (.ok (.arr a), st')
      else
        -- :225-231
        let xs := match l with | .dict a => (st.dict? a).getD [] | _ => []
        let ys := match r with | .dict a => (st.dict? a).getD [] | _ => []
        let (a, st') := st.alloc (.dict (kvMerge xs ys))
        (.ok (.dict a), st')
    | .sub =>
      -- :267-292  left elements not equal to any right element; Empty - Array = []
      match l with
      | .arr la =>
        -- `if (rhs.IsEmpty()) return lhs->ShallowClone();` (13754a5; before it: a null dereference)
        if !r.isArray then (let (a, st') := st.alloc (.arr ((st.arr? la).getD [])); (.ok (.arr a), st')) else
        let xs := (st.arr? la).getD []
        let ys := match r with | .arr a => (st.arr? a).getD [] | _ => []
        let keep := xs.foldr (fun x (acc : Option (List (Value N))) =>
          match acc, arrContains st ys x with
          | some acc, some true => some acc
          | some acc, some false => some (x :: acc)
          | _, _ => none) (some [])
        match keep with
        | some ks => let (a, st') := st.alloc (.arr ks); (.ok (.arr a), st')
        | none => (.error (.unmodelled "deep comparison"), st)
      | _ => let (a, st') := st.alloc (.arr []); (.ok (.arr a), st')
    | .eq => match valEq 64 st l r with
      | some b => (.ok (.bool b), st) | none => (.error (.unmodelled "deep comparison"), st)
    | .ne => match valEq 64 st l r with
      | some b => (.ok (.bool !b), st) | none => (.error (.unmodelled "deep comparison"), st)
    | .lt | .gt =>
      match valLess 64 st (op == .lt) l r with
      | .yes => (.ok (.bool true), st)
      | .no => (.ok (.bool false), st)
      | .typeErr => (.error (.script .optype ("Operator " ++ op.sym ++ " cannot be applied to nested values")), st)
      | .giveUp => (.error (.unmodelled "deep comparison"), st)
    | _ => (.error (.internal "binop"), st)

/-! ### `Array::ToString` / `Dictionary::ToString` = ConfigWriter::EmitArray / EmitScope (lib/base/configwriter.cpp:31-135).
    The C++ recursion has no cycle check (finding F-C15c); the model gives up (`none`) beyond depth `fuel`. -/

def cwKeywords : List String :=
  ["object", "template", "include", "include_recursive", "include_zones", "library", "null", "true", "false", "const", "var",
   "this", "globals", "locals", "use", "using", "namespace", "default", "ignore_on_error", "current_filename", "current_line",
   "apply", "to", "where", "import", "assign", "ignore", "function", "return", "break", "continue", "for", "if", "else",
   "while", "throw", "try", "except"]

/-- configwriter.cpp:189-199 -/
def escapeIcingaString (s : String) : String :=
  String.ofList (s.toList.flatMap fun c =>
    if c == '\\' then ['\\', '\\'] else if c == '\n' then ['\\', 'n'] else if c == '\t' then ['\\', 't']
    else if c == '\r' then ['\\', 'r'] else if c == Char.ofNat 8 then ['\\', 'b'] else if c == Char.ofNat 12 then ['\\', 'f']
    else if c == '"' then ['\\', '"'] else [c])

def emitString (s : String) : String := "\"" ++ escapeIcingaString s ++ "\""

def isIdentifier (s : String) : Bool :=
  match s.toList with
  | [] => false
  | c :: r => (c.isAlpha || c == '_') && r.all fun d => d.isAlphanum || d == '_'

/-- configwriter.cpp:128-154 with inAssignment = true -/
def emitIdentifier (s : String) : String :=
  if cwKeywords.contains s then "@" ++ s else if isIdentifier s then s else emitString s

def indent (n : Nat) : String := String.ofList (List.replicate n '\t')

def joinOpt (sep : String) : List (Option String) → Option String
  | [] => some ""
  | [x] => x
  | x :: r => match x, joinOpt sep r with | some a, some b => some (a ++ sep ++ b) | _, _ => none

def emitValue : Nat → State N → Nat → Value N → Option String
  | 0, _, _, _ => none
  | f + 1, st, lvl, v =>
    match v with
    | .arr a =>
      match st.arr? a with
      | some xs =>
        (joinOpt ", " (xs.map (emitValue f st lvl))).map fun body => "[ " ++ body ++ (if xs.isEmpty then "" else " ") ++ "]"
      | none => none
    | .dict a =>
      match st.dict? a with
      | some kvs =>
        (joinOpt "" (kvs.map fun kv =>
          (emitValue f st (lvl + 1) kv.2).map fun x => "\n" ++ indent lvl ++ emitIdentifier kv.1 ++ " = " ++ x)).map
          fun body => "{" ++ body ++ "\n" ++ indent (lvl - 1) ++ "}"
      | none => none
    | .str s => some (emitString s)
    | .num n => some (Num.toFixed n)
    | .bool b => some (if b then "true" else "false")
    | .empty => some "null"
    | _ => some ""                                   -- other objects: no branch of EmitValue applies

/-- `operator String()` of any value (value-operators.cpp:38-60 + Object::ToString overrides). -/
def toStrH (st : State N) (v : Value N) : Option String :=
  match v with
  | .arr _ | .dict _ => emitValue 16 st 1 v
  | v => some v.toStr

/-! ### field access -/

/-- `Convert::ToLong(String)` = boost::lexical_cast<long>: optional sign, at least one digit, nothing else. -/
def parseLong (s : String) : Option Int :=
  let cs := s.toList
  let (neg, ds) := match cs with
    | '-' :: r => (true, r)
    | '+' :: r => (false, r)
    | r => (false, r)
  if ds.isEmpty || !ds.all Char.isDigit || ds.length > 18 then none
  else
    let n : Nat := ds.foldl (fun acc c => acc * 10 + (c.toNat - 48)) 0
    some (if neg then - (Int.ofNat n) else Int.ofNat n)

def arrayMethods : List String :=
  ["len", "set", "get", "add", "remove", "contains", "clear", "sort", "shallow_clone", "join", "reverse",
   "map", "reduce", "filter", "any", "all", "unique", "freeze"]
def dictMethods : List String :=
  ["len", "set", "get", "remove", "clear", "contains", "shallow_clone", "keys", "values", "freeze"]
def stringMethods : List String :=
  ["len", "to_string", "substr", "upper", "lower", "split", "find", "contains", "replace", "reverse", "trim"]
def numberMethods : List String := ["to_string"]
def booleanMethods : List String := ["to_string"]
/-- methods of the Object prototype (base of Array/Dictionary/Function…): exist in the C++, not modelled. -/
def objectMethods : List String := ["to_string", "notify_attribute", "clone"]
/-- System functions the model implements (lib/base/scriptutils.cpp:27-62). -/
def systemFunctions : List String :=
  ["len", "typeof", "union", "intersection", "keys", "range", "string", "number", "bool"]

def badField (t : Ty) (f : String) : Err :=
  .script .badfield ("Invalid field access (for value of type '" ++ t.name ++ "'): '" ++ f ++ "'")

/-- `VMOps::GetField` (vmops.hpp:236-247). -/
def getField (st : State N) (ctx : Value N) (field : String) : Except Err (Value N) :=
  match ctx with
  | .empty => .ok .empty                                                          -- :238
  | .str _ => if stringMethods.contains field then .ok (.native ("String#" ++ field)) else .error (badField .string field)
  | .num _ => if numberMethods.contains field then .ok (.native ("Number#" ++ field)) else .error (badField .number field)
  | .bool _ => if booleanMethods.contains field then .ok (.native ("Boolean#" ++ field)) else .error (badField .boolean field)
  | .arr a =>
    match st.arr? a with
    | none => .error (.internal "getField arr")
    | some xs =>
      match parseLong field with                                                  -- array.cpp:343
      | some i =>
        if i < -2147483648 || i > 2147483647 then .error (.unmodelled "array index beyond int")
        else if i < 0 || i.toNat ≥ xs.length then
          .error (.script .bounds ("Array index '" ++ toString i ++ "' is out of bounds."))
        else .ok (xs.getD i.toNat .empty)
      | none =>
        if arrayMethods.contains field then .ok (.native ("Array#" ++ field))
        else if objectMethods.contains field then .error (.unmodelled "Object prototype")
        else .error (badField .array field)
  | .dict a =>
    match st.dict? a with
    | none => .error (.internal "getField dict")
    | some kvs =>
      match kvGet field kvs with                                                  -- dictionary.cpp:287
      | some v => .ok v
      | none =>
        if dictMethods.contains field then .ok (.native ("Dictionary#" ++ field))
        else if objectMethods.contains field then .error (.unmodelled "Object prototype")
        else .ok .empty                                                           -- not_found_error = false
  | .ns =>
    match kvGet field st.globals with
    | some v => .ok v
    | none => .error (.unmodelled "built-in global")    -- System, Types, Icinga, NodeName …: not modelled
  | .sysns => if systemFunctions.contains field then .ok (.native ("System#" ++ field)) else .error (.unmodelled "System field")
  | .typ n => if field == "name" then .ok (.str n) else .error (.unmodelled "Type field")
  | .fn _ | .native _ => .error (.unmodelled "Function field")

/-- `Object::HasOwnField` for the self/parent objects that `VariableExpression` asks. -/
def hasOwnField (st : State N) (ctx : Value N) (field : String) : Bool :=
  match ctx with
  | .dict a => match st.dict? a with | some kvs => kvHas field kvs | none => false
  | .ns => kvHas field st.globals
  | _ => false

/-- `VMOps::SetField` (vmops.hpp:249-255) with the conversion `Value → Object::Ptr` of its first parameter. -/
def setField (st : State N) (ctx : Value N) (field : String) (v : Value N) : Except Err (State N) :=
  match ctx with
  | .empty => .error (.script .setnull ("Cannot set field '" ++ field ++ "' on a value that is not an object."))
  | .num _ | .bool _ | .str _ =>
    .error (.script .notobject ("Cannot convert value of type '" ++ ctx.ty.name ++ "' to an object."))
  | .arr a =>
    match st.arr? a with
    | none => .error (.internal "setField arr")
    | some xs =>
      match parseLong field with                                                  -- array.cpp:361
      | none => .error (.script .badcast "bad lexical cast")
      | some i =>
        if i < -2147483648 || i > 2147483647 then .error (.unmodelled "array index beyond int")
        else if i < 0 then .error (.script .bounds ("Array index '" ++ toString i ++ "' is out of bounds."))
        else if i.toNat > 100000 then .error (.unmodelled "huge array resize")
        else
          let n := i.toNat
          let xs' := if n ≥ xs.length then xs ++ List.replicate (n + 1 - xs.length) .empty else xs
          .ok (st.put a (.arr (xs'.set n v)))
  | .dict a =>
    match st.dict? a with
    | none => .error (.internal "setField dict")
    | some kvs => .ok (st.put a (.dict (kvSet field v kvs)))
  | .ns => .ok { st with globals := kvSet field v st.globals }
  | .sysns => .error (.script .frozen "Namespace is read-only and must not be modified.")    -- namespace.cpp:52-54
  | .fn _ | .native _ | .typ _ => .error (.unmodelled "set field of Function/Type")

end

end Icinga.C15

/-
  C15 — the property as an executable predicate over what the harness observed of the REAL compiler/evaluator
  (never looks at the model).  One observation per program: the outcome of the minimally parenthesised text, of the
  fully parenthesised text, and of a second evaluation of the first text in a fresh frame.
-/
namespace Icinga.C15.Spec

/-- outcome strings of the harness: `v:<canonical value>`, `e` (script error) / `e:stack` (the recursion error),
    `syntax@L:C` / `syntaxcap@L:C` (parser capacity),
    `crash:sig=N`, `timeout`; hostile stream: `ok`, `err:syntax@L:C`, `err:script`, `err:std`, `crash:sig=N`, `timeout`. -/
structure Obs where
  min : String
  full : String
  again : String
  /-- the SAME compiled expression of the minimal text evaluated a second time in a fresh frame (same process, globals
      restored): `""` when the harness did not observe it (old corpus lines) -/
  same : String := ""
  /-- the text printed with the minimal parentheses the DOCUMENTED operator table (doc/17-language-reference.md "Operators", levels
      1–13) requires — NOT the table read from the grammar of this build — compiled and evaluated: `""` when the harness did not
      observe it (old corpus lines) -/
  doc : String := ""
  deriving Repr, DecidableEq

/-- `r` starts with `p` (on character lists, so that the kernel can evaluate the predicate). -/
def pre (p r : String) : Bool := r.toList.take p.length == p.toList

def isCrash (r : String) : Bool := pre "crash" r
def isTimeout (r : String) : Bool := r == "timeout"

/-- the bison parser stack is bounded (YYMAXDEPTH): beyond a few thousand nested constructs the compiler answers with
    the located syntax error "memory exhausted" — a script error, not a crash; such texts say nothing about evaluation. -/
def isParserCapacity (r : String) : Bool := pre "syntaxcap@" r || pre "err:syntaxcap@" r

/-- a generated (syntactically valid) program: first violated clause, if any. -/
def checkProgram (o : Obs) : Option String :=
  if isCrash o.min || isCrash o.full || isCrash o.again || isCrash o.same || isCrash o.doc then some "no_crash"
  else if isTimeout o.min || isTimeout o.full || isTimeout o.again || isTimeout o.same || isTimeout o.doc then none      -- `while` may diverge
  else if isParserCapacity o.min || isParserCapacity o.full || isParserCapacity o.doc then none
  else if o.min != o.again then some "deterministic"
  -- "the same result every time it is evaluated in the same environment": also for ONE compiled expression evaluated twice
  -- (an Expression node must not keep state between evaluations, e.g. a container built once and handed out again)
  else if o.same != "" && o.min != o.same then some "deterministic_same_expression"
  -- "operator precedence … as the language reference defines": a text that relies on the DOCUMENTED precedence and associativity
  -- (parentheses only where the table of doc/17 requires them) means what its fully parenthesised form means
  else if o.doc != "" && o.doc != o.full then some "precedence_as_documented"
  else if o.min != o.full then some "precedence_as_declared"
  else if pre "syntax" o.min then some "generated_program_parses"
  else if !(pre "v:" o.min || pre "e" o.min) then some "value_or_script_error"
  else none

/-- `err:syntax@L:C` must carry a location inside the text (line ≥ 1). -/
def syntaxLocated (r : String) : Bool :=
  -- the line number is the digit run after "err:syntax@"
  let ds := (r.toList.drop 11).takeWhile Char.isDigit
  !ds.isEmpty && ds.foldl (fun acc c => acc * 10 + (c.toNat - 48)) 0 ≥ 1

/-- a hostile text (mutated program / arbitrary bytes): it must only return or throw. -/
def checkHostile (r : String) : Option String :=
  if isCrash r then some "no_crash"
  else if isParserCapacity r then none
  else if pre "err:syntax@" r && !syntaxLocated r then some "syntax_error_located"
  else if r == "ok" || r == "timeout" || pre "err:" r then none
  else some "value_or_script_error"

/-! ### number and duration literals (doc/17-language-reference.md "Numeric literals" / "Duration literals")

The reference: a literal `D+(.D+)?` is that decimal number; with a suffix it is a duration in SECONDS: `ms` milliseconds, `s` seconds,
`m` minutes, `h` hours, `d` days.  The value is stated here as an EXACT rational; the implementation's binary64 must equal it
up to rounding (relative error ≤ 2⁻⁵⁰: strtod plus at most three roundings of the multiplications — the reference does not
prescribe the intermediate arithmetic, `* 60 * 60` and `* 3600.0` are both fine). -/

/-- suffix ↦ factor as (numerator, denominator) -/
def suffixFactor (s : List Char) : Option (Nat × Nat) :=
  if s == [] then some (1, 1)
  else if s == ['m', 's'] then some (1, 1000)
  else if s == ['s'] then some (1, 1)
  else if s == ['m'] then some (60, 1)
  else if s == ['h'] then some (3600, 1)
  else if s == ['d'] then some (86400, 1)
  else none

def natOfDigits (ds : List Char) : Nat := ds.foldl (fun acc c => acc * 10 + (c.toNat - 48)) 0

/-- the exact value (numerator, denominator) of the literal text, `none` when the text is not `D+(.D+)?(ms|s|m|h|d)?` -/
def litExactL (cs : List Char) : Option (Nat × Nat) :=
  let ip := cs.takeWhile Char.isDigit
  let r1 := cs.dropWhile Char.isDigit
  if ip.isEmpty then none
  else match r1 with
    | '.' :: r =>
      let fp := r.takeWhile Char.isDigit
      if fp.isEmpty then none
      else (suffixFactor (r.dropWhile Char.isDigit)).map fun f => (natOfDigits (ip ++ fp) * f.1, 10 ^ fp.length * f.2)
    | r => (suffixFactor r).map fun f => (natOfDigits ip * f.1, f.2)

def litExact (text : String) : Option (Nat × Nat) := litExactL text.toList

/-- `bits` (an IEEE binary64 pattern) denotes a finite non-negative number within relative error 2⁻⁵⁰ of `num/den`. -/
def bitsNear (bits num den : Nat) : Bool :=
  let sign := bits / 2 ^ 63
  let e := (bits / 2 ^ 52) % 2048
  let f := bits % 2 ^ 52
  if e == 2047 then false                                  -- inf / nan
  else if num == 0 then e == 0 && f == 0                   -- ±0
  else if sign == 1 then false
  else
    -- value = m · 2^(ex - 1075)
    let m := if e == 0 then f else f + 2 ^ 52
    let ex := if e == 0 then 1 else e
    -- compare A/B = m·2^(ex-1075)·den / num with 1 (the power of two on the side where its exponent is non-negative)
    let a := if ex ≥ 1075 then m * 2 ^ (ex - 1075) * den else m * den
    let b := if ex ≥ 1075 then num else num * 2 ^ (1075 - ex)
    (if a ≥ b then a - b else b - a) * 2 ^ 50 ≤ b

/-- one literal as the real lexer evaluated it (`bits`): first violated clause -/
def checkLiteral (text : String) (bits : Nat) : Option String :=
  match litExact text with
  | some (num, den) => if bitsNear bits num den then none else some "literal_value_as_documented"
  | none => none            -- not a literal of the sub-language: nothing demanded

/-- the alphabetic prefix of a case id names the family the generator drew it from (`scope17` → `scope`). -/
def tagOf (id : String) : String := String.ofList (id.toList.takeWhile Char.isAlpha)

/-- Clauses that need the language reference's answer for the SAME program (the executable model is that reference):
    `impl` = what the real evaluator answered, `ref` = what the reference answers (`none`: outside the modelled domain),
    `refDepth` = the deepest frame nesting the reference reached while evaluating it.

    * `depth_error_only_beyond_limit` — "Stack overflow … Recursion level too deep" may only be raised by a program whose
      evaluation really nests 300 frames (scriptframe.cpp:82-93): handled exceptions, loops and repeated evaluation must
      not accumulate depth.
    * `scoping_use_copies_per_call` — every call of a `use()` closure starts from the values captured at definition and
      from fresh locals (vmops.hpp:104-110): programs of the `scope` family must give exactly the reference's result.
    * `operator_typing_array_minus_total` — `array - array` is defined for all element types (elements are compared with
      `==`): programs of the `arrsub` family for which the reference answers a value never raise.
    * `conditional_branches_in_source_order` — in `if … else if … else` the first true condition in source order decides
      (family `elif`: chains with overlapping conditions).
    * `scoping_this_restored_after_error` — an error raised inside a `{ … }` literal and caught in the same frame leaves
      `this` as it was (expression.cpp:528-532; family `selfkeep`).
    * `prototype_method_on_empty_string` — String methods on the empty string see it as `this` (vmops.hpp:86; family
      `emptystr`: `"".len() == 0`, `"".upper() == ""` …).
    * `flow_control_leaves_enclosing_construct` — `return` ends the enclosing FUNCTION with its value, `break`/`continue` end / restart
      the innermost enclosing LOOP, from wherever they are executed: the try body, the except handler, a conditional nested in
      either, a nested loop (doc/17 "Conditional Statements"/"While Loops"/"For Loops"/"Functions"/"Exceptions"; family `flow`).
    * `literal_creates_new_container` — every evaluation of an array/dictionary literal yields a NEW container (doc/17 "Array"/
      "Dictionary": mutable values; a literal in a function or loop body that is mutated in place must not be seen changed by the
      next evaluation; family `freshlit`).
    * `duration_arithmetic_as_documented` — programs made of number/duration literals of every suffix, compared and combined
      (`1000ms == 1s`, `5m * 10`): exactly the reference's result (family `literal`).
    * `callback_iteration_over_snapshot` — Array#map/filter/any/all visit exactly the elements the array had when the method was called,
      whatever the callback does to that array (add, remove, clear, set, index assignment; array-script.cpp after 1f98393): no element
      visited twice, none read from a stale buffer, the array itself ends as the callbacks left it (family `cbmut`).
    * `array_join_total_on_scalars` — doc/18 "Array#join: joins all elements of the array": joining scalars never raises
      (family `joinscalar`; violated by the unchanged tree for Boolean elements, finding F-C15e). -/
def checkAgainstReference (id impl : String) (ref : Option String) (refDepth : Nat) : Option String :=
  if pre "syntax" impl then none                        -- reported by `generated_program_parses`
  else if impl == "e:stack" && ref.isSome && refDepth < 300 then some "depth_error_only_beyond_limit"
  else if tagOf id == "arrsub" && (match ref with | some r => pre "v:" r | none => false) && !pre "v:" impl then
    some "operator_typing_array_minus_total"
  else if tagOf id == "scope" && ref.isSome && ref != some impl then some "scoping_use_copies_per_call"
  else if tagOf id == "elif" && ref.isSome && ref != some impl then some "conditional_branches_in_source_order"
  else if tagOf id == "selfkeep" && ref.isSome && ref != some impl then some "scoping_this_restored_after_error"
  else if tagOf id == "emptystr" && ref.isSome && ref != some impl then some "prototype_method_on_empty_string"
  else if tagOf id == "flow" && ref.isSome && ref != some impl then some "flow_control_leaves_enclosing_construct"
  else if tagOf id == "freshlit" && ref.isSome && ref != some impl then some "literal_creates_new_container"
  else if tagOf id == "cbmut" && ref.isSome && ref != some impl then some "callback_iteration_over_snapshot"
  else if tagOf id == "literal" && ref.isSome && ref != some impl then some "duration_arithmetic_as_documented"
  else if tagOf id == "joinscalar" && !pre "v:" impl then some "array_join_total_on_scalars"
  else none

/-! ### the examples of the document (doc/17-language-reference.md, table "Operators", column "Examples (Result)")

Every `expression (result)` pair of the table is a program `[ expression, result ]` of family `docex` (generated on every run from the document and corpus/C15/reference_example_templates.tpl):
the real evaluator must answer an array of two EQUAL values — the documented result is what the expression yields. -/

/-- `r` is `v:[A,B]` with `A = B` (canonical scalars contain no comma) -/
def pairEqual (r : String) : Bool :=
  let cs := r.toList
  pre "v:[" r && cs.getLast? == some ']' &&
    (let inner := (cs.drop 3).dropLast
     let a := inner.takeWhile (· != ',')
     let b := (inner.dropWhile (· != ',')).drop 1
     !a.isEmpty && a == b)

/-- `reference_example_as_documented` — a documented example evaluates to its documented result (finding F-C15g, repaired by 86ab6e0: the
    document said `~true (false)` where the code answers -2). -/
def checkDocExample (id impl : String) : Option String :=
  if tagOf id != "docex" then none
  else if isCrash impl || isTimeout impl then none          -- reported by `no_crash` / not an answer
  else if pairEqual impl then none else some "reference_example_as_documented"

end Icinga.C15.Spec

/-
  C15 — the property as an executable predicate over what the harness observed of the REAL compiler/evaluator
  (never looks at the model).  One observation per program: the outcome of the minimally parenthesised text, of the
  fully parenthesised text, and of a second evaluation of the first text in a fresh frame.
-/
namespace Icinga.C15.Spec

/-- outcome strings of the harness: `v:<canonical value>`, `e` (script error) / `e:stack` (the recursion error),
    `syntax@L:C` / `syntaxcap@L:C` (parser capacity),
    `crash:sig=N`, `timeout`; hostile stream: `ok`, `err:syntax@L:C`, `err:script`, `err:std`, `crash:sig=N`, `timeout`. -/
structure Obs where
  min : String
  full : String
  again : String
  deriving Repr, DecidableEq

/-- `r` starts with `p` (on character lists, so that the kernel can evaluate the predicate). -/
def pre (p r : String) : Bool := r.toList.take p.length == p.toList

def isCrash (r : String) : Bool := pre "crash" r
def isTimeout (r : String) : Bool := r == "timeout"

/-- the bison parser stack is bounded (YYMAXDEPTH): beyond a few thousand nested constructs the compiler answers with
    the located syntax error "memory exhausted" — a script error, not a crash; such texts say nothing about evaluation. -/
def isParserCapacity (r : String) : Bool := pre "syntaxcap@" r || pre "err:syntaxcap@" r

/-- a generated (syntactically valid) program: first violated clause, if any. -/
def checkProgram (o : Obs) : Option String :=
  if isCrash o.min || isCrash o.full || isCrash o.again then some "no_crash"
  else if isTimeout o.min || isTimeout o.full || isTimeout o.again then none      -- `while` may diverge
  else if isParserCapacity o.min || isParserCapacity o.full then none
  else if o.min != o.again then some "deterministic"
  else if o.min != o.full then some "precedence_as_declared"
  else if pre "syntax" o.min then some "generated_program_parses"
  else if !(pre "v:" o.min || pre "e" o.min) then some "value_or_script_error"
  else none

/-- `err:syntax@L:C` must carry a location inside the text (line ≥ 1). -/
def syntaxLocated (r : String) : Bool :=
  -- the line number is the digit run after "err:syntax@"
  let ds := (r.toList.drop 11).takeWhile Char.isDigit
  !ds.isEmpty && ds.foldl (fun acc c => acc * 10 + (c.toNat - 48)) 0 ≥ 1

/-- a hostile text (mutated program / arbitrary bytes): it must only return or throw. -/
def checkHostile (r : String) : Option String :=
  if isCrash r then some "no_crash"
  else if isParserCapacity r then none
  else if pre "err:syntax@" r && !syntaxLocated r then some "syntax_error_located"
  else if r == "ok" || r == "timeout" || pre "err:" r then none
  else some "value_or_script_error"

/-- the alphabetic prefix of a case id names the family the generator drew it from (`scope17` → `scope`). -/
def tagOf (id : String) : String := String.ofList (id.toList.takeWhile Char.isAlpha)

/-- Clauses that need the language reference's answer for the SAME program (the executable model is that reference):
    `impl` = what the real evaluator answered, `ref` = what the reference answers (`none`: outside the modelled domain),
    `refDepth` = the deepest frame nesting the reference reached while evaluating it.

    * `depth_error_only_beyond_limit` — "Stack overflow … Recursion level too deep" may only be raised by a program whose
      evaluation really nests 300 frames (scriptframe.cpp:82-93): handled exceptions, loops and repeated evaluation must
      not accumulate depth.
    * `scoping_use_copies_per_call` — every call of a `use()` closure starts from the values captured at definition and
      from fresh locals (vmops.hpp:104-110): programs of the `scope` family must give exactly the reference's result.
    * `operator_typing_array_minus_total` — `array - array` is defined for all element types (elements are compared with
      `==`): programs of the `arrsub` family for which the reference answers a value never raise.
    * `conditional_branches_in_source_order` — in `if … else if … else` the first true condition in source order decides
      (family `elif`: chains with overlapping conditions).
    * `scoping_this_restored_after_error` — an error raised inside a `{ … }` literal and caught in the same frame leaves
      `this` as it was (expression.cpp:528-532; family `selfkeep`).
    * `prototype_method_on_empty_string` — String methods on the empty string see it as `this` (vmops.hpp:86; family
      `emptystr`: `"".len() == 0`, `"".upper() == ""` …).
    * `array_join_total_on_scalars` — doc/18 "Array#join: joins all elements of the array": joining scalars never raises
      (family `joinscalar`; violated by the unchanged tree for Boolean elements, finding F-C15e). -/
def checkAgainstReference (id impl : String) (ref : Option String) (refDepth : Nat) : Option String :=
  if pre "syntax" impl then none                        -- reported by `generated_program_parses`
  else if impl == "e:stack" && ref.isSome && refDepth < 300 then some "depth_error_only_beyond_limit"
  else if tagOf id == "arrsub" && (match ref with | some r => pre "v:" r | none => false) && !pre "v:" impl then
    some "operator_typing_array_minus_total"
  else if tagOf id == "scope" && ref.isSome && ref != some impl then some "scoping_use_copies_per_call"
  else if tagOf id == "elif" && ref.isSome && ref != some impl then some "conditional_branches_in_source_order"
  else if tagOf id == "selfkeep" && ref.isSome && ref != some impl then some "scoping_this_restored_after_error"
  else if tagOf id == "emptystr" && ref.isSome && ref != some impl then some "prototype_method_on_empty_string"
  else if tagOf id == "joinscalar" && !pre "v:" impl then some "array_join_total_on_scalars"
  else none

end Icinga.C15.Spec

/-
  C15 — number and duration literals: what the LEXER computes (lib/config/config_lexer.ll:209-214).

      [0-9]+(\.[0-9]+)?ms   strtod(yytext) / 1000
      [0-9]+(\.[0-9]+)?d    strtod(yytext) * 60 * 60 * 24
      [0-9]+(\.[0-9]+)?h    strtod(yytext) * 60 * 60
      [0-9]+(\.[0-9]+)?m    strtod(yytext) * 60
      [0-9]+(\.[0-9]+)?s    strtod(yytext)
      [0-9]+(\.[0-9]+)?     strtod(yytext)

  `strtod` of `D.F` is the correctly rounded quotient DF / 10^|F|; both operands are exact in binary64 while DF < 2^53 and
  |F| ≤ 22, so ONE correctly rounded division gives strtod's answer — beyond that the literal is outside the modelled domain.
  The arithmetic is the lexer's, operation by operation, in the number type `N` (the driver: binary64).
-/
import IcingaModel.C15.Value

namespace Icinga.C15

inductive Suffix | none | ms | s | m | h | d
  deriving DecidableEq, Repr

/-- the token after the digits; flex takes the longest match, so `ms` before `m` -/
def suffixOf (r : List Char) : Option Suffix :=
  match r with
  | [] => some .none
  | ['m', 's'] => some .ms
  | ['s'] => some .s
  | ['m'] => some .m
  | ['h'] => some .h
  | ['d'] => some .d
  | _ => Option.none

def digitsVal (ds : List Char) : Nat := ds.foldl (fun acc c => acc * 10 + (c.toNat - 48)) 0

/-- the pieces of a literal: (all digits as one number, number of fraction digits, suffix) -/
def splitLiteral (cs : List Char) : Option (Nat × Nat × Suffix) :=
  let ip := cs.takeWhile Char.isDigit
  let r1 := cs.dropWhile Char.isDigit
  if ip.isEmpty then Option.none
  else match r1 with
    | '.' :: r =>
      let fp := r.takeWhile Char.isDigit
      if fp.isEmpty then Option.none
      else (suffixOf (r.dropWhile Char.isDigit)).map fun s => (digitsVal (ip ++ fp), fp.length, s)
    | r => (suffixOf r).map fun s => (digitsVal ip, 0, s)

section
variable {N : Type} [Num N]

/-- `strtod` on `D+(.D+)?` -/
def strtodDec (m fd : Nat) : N :=
  if fd == 0 then Num.ofInt (Int.ofNat m) else Num.div (Num.ofInt (Int.ofNat m)) (Num.ofInt (Int.ofNat (10 ^ fd)))

/-- config_lexer.ll:209-214, the action of each rule -/
def scaleSuffix (s : Suffix) (x : N) : N :=
  let k (i : Int) : N := Num.ofInt i
  match s with
  | .ms => Num.div x (k 1000)
  | .d => Num.mul (Num.mul (Num.mul x (k 60)) (k 60)) (k 24)
  | .h => Num.mul (Num.mul x (k 60)) (k 60)
  | .m => Num.mul x (k 60)
  | .s => x
  | .none => x

/-- value of the literal `text`; `none`: not a literal of the modelled domain -/
def litValue (text : String) : Option N :=
  match splitLiteral text.toList with
  | some (m, fd, s) => if m < 2 ^ 53 && fd ≤ 22 then some (scaleSuffix s (strtodDec m fd)) else Option.none
  | Option.none => Option.none

end

end Icinga.C15

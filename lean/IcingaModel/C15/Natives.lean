/-
  C15 — prototype methods and System functions that do not call back into the interpreter, as pure functions on
  (value, heap).  lib/base/array-script.cpp, dictionary-script.cpp, string-script.cpp, number-script.cpp,
  scriptutils.cpp:81-94, 243-411.  Arguments outside the modelled domain (conversions the function wrapper would
  attempt, C++ undefined behaviour) yield `Err.unmodelled`, which the driver counts and does not compare.
-/
import IcingaModel.C15.Heap

namespace Icinga.C15

section
variable {N : Type} [Num N]

abbrev NRes (N : Type) := Except Err (Value N) × State N

def tooFew : Err := .script .args "Too few arguments for function."

/-- `Value → int` as the function wrapper does it, for the operand classes that cannot throw. -/
def argInt (v : Value N) : Option Int :=
  match v with
  | .num _ | .bool _ | .empty => Num.toInt32 v.toDouble
  | _ => none

/-- insertion sort by a strict order (numbers or strings only: any correct sort gives the same list). -/
def insertBy {α} (lt : α → α → Bool) (x : α) : List α → List α
  | [] => [x]
  | y :: r => if lt x y then x :: y :: r else y :: insertBy lt x r

def sortBy {α} (lt : α → α → Bool) (l : List α) : List α := l.foldr (insertBy lt) []

def dedupSorted {α} (eq : α → α → Bool) : List α → List α
  | [] => []
  | [x] => [x]
  | x :: y :: r => if eq x y then dedupSorted eq (y :: r) else x :: dedupSorted eq (y :: r)

def allNums (xs : List (Value N)) : Option (List N) :=
  xs.foldr (fun v acc => match v, acc with | .num n, some a => some (n :: a) | _, _ => none) (some [])

def allStrs (xs : List (Value N)) : Option (List String) :=
  xs.foldr (fun v acc => match v, acc with | .str s, some a => some (s :: a) | _, _ => none) (some [])

/-- `std::sort` / `std::set<Value>` with `operator<`: modelled for homogeneous number or string arrays. -/
def sortValues (xs : List (Value N)) (unique : Bool) : Option (List (Value N)) :=
  match allNums xs with
  | some ns =>
    let s := sortBy (fun a b => Num.lt a b) ns
    some ((if unique then dedupSorted (fun a b => Num.eq a b) s else s).map .num)
  | none =>
    match allStrs xs with
    | some ss =>
      let s := sortBy (fun a b => decide (a < b)) ss
      some ((if unique then dedupSorted (fun a b => a == b) s else s).map .str)
    | none => none

/-- multiset intersection of two sorted lists (`std::set_intersection`). -/
def interSorted {α} (lt : α → α → Bool) : Nat → List α → List α → List α
  | 0, _, _ => []
  | _ + 1, [], _ => []
  | _ + 1, _, [] => []
  | n + 1, x :: xs, y :: ys =>
    if lt x y then interSorted lt n xs (y :: ys)
    else if lt y x then interSorted lt n (x :: xs) ys
    else x :: interSorted lt n xs ys

def asciiUpper (c : Char) : Char := if 'a' ≤ c ∧ c ≤ 'z' then Char.ofNat (c.toNat - 32) else c
def asciiLower (c : Char) : Char := if 'A' ≤ c ∧ c ≤ 'Z' then Char.ofNat (c.toNat + 32) else c
def isCSpace (c : Char) : Bool := c == ' ' || (9 ≤ c.toNat && c.toNat ≤ 13)

/-- boost::algorithm::split with is_any_of(delims), no token compression. -/
def splitAny (delims : List Char) : List Char → List Char → List (List Char)
  | cur, [] => [cur.reverse]
  | cur, c :: r => if delims.contains c then cur.reverse :: splitAny delims [] r else splitAny delims (c :: cur) r

def isPrefix : List Char → List Char → Bool
  | [], _ => true
  | _ :: _, [] => false
  | a :: p, b :: s => a == b && isPrefix p s

/-- index of the first occurrence of `pat` in `s` at or after `i` (std::string::find). -/
def findFrom (pat : List Char) : List Char → Nat → Option Nat
  | [], i => if pat.isEmpty then some i else none
  | c :: r, i => if isPrefix pat (c :: r) then some i else findFrom pat r (i + 1)

/-- boost::algorithm::replace_all for a non-empty pattern. -/
def replaceAll (pat rep : List Char) : Nat → List Char → List Char
  | 0, s => s
  | _, [] => []
  | n + 1, c :: r =>
    if isPrefix pat (c :: r) then rep ++ replaceAll pat rep n ((c :: r).drop pat.length)
    else c :: replaceAll pat rep n r

def mkStr (cs : List Char) : String := String.ofList cs

def newArr (st : State N) (xs : List (Value N)) : NRes N :=
  let (a, st') := st.alloc (.arr xs); (.ok (.arr a), st')

def numOfNat (n : Nat) : Value N := .num (Num.ofInt (Int.ofNat n))

/-- Array::Join (array.cpp:300-318): folds with the `+` operator of the language. -/
def joinValues (sep : Value N) : List (Value N) → Bool → Value N → State N → NRes N
  | [], _, acc, st => (.ok acc, st)
  | x :: r, first, acc, st =>
    let step1 : NRes N := if first then (.ok acc, st) else binop .add acc sep st
    match step1 with
    | (.ok a1, st1) =>
      match binop .add a1 x st1 with
      | (.ok a2, st2) => joinValues sep r false a2 st2
      | e => e
    | e => e

/-- `range(start, end, increment)` (scriptutils.cpp:347-381), at most `fuel` elements. -/
def rangeList (lt : N → N → Bool) (add : N → N → N) (up : Bool) (stop inc : N) : Nat → N → Option (List (Value N))
  | 0, _ => none
  | f + 1, i =>
    if (if up then lt i stop else lt stop i) then
      (rangeList lt add up stop inc f (add i inc)).map (fun r => Value.num i :: r)
    else some []

/-- The natives that need no callback.  `none` = not one of them. -/
def nativePure (name : String) (self : Value N) (args : List (Value N)) (st : State N) : Option (NRes N) :=
  let a0 := args.headD .empty
  let a1 := args.tail.headD .empty
  let un (w : String) : Option (NRes N) := some (.error (.unmodelled w), st)
  let need (n : Nat) (k : Option (NRes N)) : Option (NRes N) := if args.length < n then some (.error tooFew, st) else k
  let strArgNatives := ["Dictionary#set", "Dictionary#get", "Dictionary#remove", "Dictionary#contains", "String#contains",
    "String#split", "String#find", "String#replace", "System#string"]
  -- (only the natives that take a string convert their argument: `ToString` of a container is expensive and, for a
  --  self-containing one, does not return in the C++)
  let s0 := if strArgNatives.contains name then toStrH st a0 else some ""
  let s1 := if name == "String#replace" then toStrH st a1 else some ""
  if strArgNatives.contains name && (s0.isNone || (name == "String#replace" && s1.isNone)) then un "cyclic container to string" else
  let a0s := s0.getD ""
  let a1s := s1.getD ""
  match name with
  -- ---------------------------------------------------------------- Array (array-script.cpp)
  | "Array#len" => match self with
    | .arr a => (st.arr? a).map fun xs => (.ok (numOfNat xs.length), st)
    | _ => un "self"
  | "Array#add" => need 1 <| match self with
    | .arr a => (st.arr? a).map fun xs => (.ok .empty, st.put a (.arr (xs ++ [a0])))
    | _ => un "self"
  | "Array#get" => need 1 <| match self, argInt a0 with
    | .arr a, some i => (st.arr? a).map fun xs =>
        if i < 0 || i.toNat ≥ xs.length then (.error (.script .bounds "vector::_M_range_check"), st)
        else (.ok (xs.getD i.toNat .empty), st)
    | _, _ => un "Array#get args"
  | "Array#set" => need 2 <| match self, argInt a0 with
    | .arr a, some i => (st.arr? a).map fun xs =>
        if i < 0 || i.toNat ≥ xs.length then (.error (.script .bounds "vector::_M_range_check"), st)
        else (.ok .empty, st.put a (.arr (xs.set i.toNat a1)))
    | _, _ => un "Array#set args"
  | "Array#remove" => need 1 <| match self, argInt a0 with
    | .arr a, some i => (st.arr? a).map fun xs =>
        if i < 0 || i.toNat ≥ xs.length then (.error (.script .bounds "Index to remove must be within bounds."), st)
        else (.ok .empty, st.put a (.arr (xs.eraseIdx i.toNat)))
    | _, _ => un "Array#remove args"
  | "Array#contains" => need 1 <| match self with
    | .arr a => (st.arr? a).map fun xs =>
        match arrContains st xs a0 with
        | some b => (.ok (.bool b), st)
        | none => (.error (.unmodelled "deep comparison"), st)
    | _ => un "self"
  | "Array#clear" => match self with
    | .arr a => some (.ok .empty, st.put a (.arr []))
    | _ => un "self"
  | "Array#shallow_clone" => match self with
    | .arr a => (st.arr? a).map fun xs => newArr st xs
    | _ => un "self"
  | "Array#reverse" => match self with
    | .arr a => (st.arr? a).map fun xs => newArr st xs.reverse
    | _ => un "self"
  | "Array#join" => need 1 <| match self with
    | .arr a => (st.arr? a).map fun xs => joinValues a0 xs true .empty st
    | _ => un "self"
  | "Array#sort" => match self, args with
    | .arr a, [] => (st.arr? a).map fun xs =>
        match sortValues xs false with
        | some s => newArr st s
        | none => (.error (.unmodelled "sort of a mixed array"), st)
    | _, _ => un "sort with comparator"
  | "Array#unique" => match self with
    | .arr a => (st.arr? a).map fun xs =>
        match sortValues xs true with
        | some s => newArr st s
        | none => (.error (.unmodelled "unique of a mixed array"), st)
    | _ => un "self"
  -- ---------------------------------------------------------------- Dictionary (dictionary-script.cpp)
  | "Dictionary#len" => match self with
    | .dict a => (st.dict? a).map fun kvs => (.ok (numOfNat kvs.length), st)
    | _ => un "self"
  | "Dictionary#set" => need 2 <| match self with
    | .dict a => (st.dict? a).map fun kvs => (.ok .empty, st.put a (.dict (kvSet a0s a1 kvs)))
    | _ => un "self"
  | "Dictionary#get" => need 1 <| match self with
    | .dict a => (st.dict? a).map fun kvs => (.ok ((kvGet a0s kvs).getD .empty), st)
    | _ => un "self"
  | "Dictionary#remove" => need 1 <| match self with
    | .dict a => (st.dict? a).map fun kvs => (.ok .empty, st.put a (.dict (kvRemove a0s kvs)))
    | _ => un "self"
  | "Dictionary#contains" => need 1 <| match self with
    | .dict a => (st.dict? a).map fun kvs => (.ok (.bool (kvHas a0s kvs)), st)
    | _ => un "self"
  | "Dictionary#clear" => match self with
    | .dict a => some (.ok .empty, st.put a (.dict []))
    | _ => un "self"
  | "Dictionary#shallow_clone" => match self with
    | .dict a => (st.dict? a).map fun kvs => let (d, st') := st.alloc (.dict kvs); (.ok (.dict d), st')
    | _ => un "self"
  | "Dictionary#keys" => match self with
    | .dict a => (st.dict? a).map fun kvs => newArr st (kvs.map fun kv => .str kv.1)
    | _ => un "self"
  | "Dictionary#values" => match self with
    | .dict a => (st.dict? a).map fun kvs => newArr st (kvs.map fun kv => kv.2)
    | _ => un "self"
  -- ---------------------------------------------------------------- String (string-script.cpp)
  | "String#len" => match self with | .str s => some (.ok (numOfNat s.length), st) | _ => un "self"
  | "String#to_string" => match self with | .str s => some (.ok (.str s), st) | _ => un "self"
  | "String#upper" => match self with | .str s => some (.ok (.str (mkStr (s.toList.map asciiUpper))), st) | _ => un "self"
  | "String#lower" => match self with | .str s => some (.ok (.str (mkStr (s.toList.map asciiLower))), st) | _ => un "self"
  | "String#reverse" => match self with | .str s => some (.ok (.str (mkStr s.toList.reverse)), st) | _ => un "self"
  | "String#trim" => match self with
    | .str s => some (.ok (.str (mkStr ((s.toList.dropWhile isCSpace).reverse.dropWhile isCSpace).reverse)), st)
    | _ => un "self"
  | "String#contains" => need 1 <| match self with
    | .str s => some (.ok (.bool ((findFrom a0s.toList s.toList 0).isSome)), st)
    | _ => un "self"
  | "String#split" => need 1 <| match self with
    | .str s => some (newArr st ((splitAny a0s.toList [] s.toList).map fun cs => .str (mkStr cs)))
    | _ => un "self"
  | "String#find" =>
    if args.isEmpty then some (.error (.script .args "Too few arguments"), st) else
    match self, args.tail with
    | .str s, [] =>
      some (.ok (.num (Num.ofInt (match findFrom a0s.toList s.toList 0 with | some i => Int.ofNat i | none => -1))), st)
    | _, _ => un "String#find with start"
  | "String#replace" => need 2 <| match self with
    | .str s =>
      if a0s == "" then un "replace of the empty string"
      else some (.ok (.str (mkStr (replaceAll a0s.toList a1s.toList (s.length + 1) s.toList))), st)
    | _ => un "self"
  | "String#substr" =>
    if args.isEmpty then some (.error (.script .args "Too few arguments"), st) else
    match self, argInt a0 with
    | .str s, some i =>
      if i < 0 || i.toNat ≥ s.length then some (.error (.script .range "String index is out of range"), st)
      else match args.tail with
        | [] => some (.ok (.str (mkStr (s.toList.drop i.toNat))), st)
        | l :: _ => match argInt l with
          | some n => if n < 0 then un "substr negative length" else some (.ok (.str (mkStr ((s.toList.drop i.toNat).take n.toNat))), st)
          | none => un "substr length"
    | _, _ => un "String#substr args"
  -- ---------------------------------------------------------------- Number / Boolean
  | "Number#to_string" => match self with | .num _ => some (.ok (.str self.toStr), st) | _ => un "self"
  | "Boolean#to_string" => match self with | .bool _ => some (.ok (.str self.toStr), st) | _ => un "self"
  -- ---------------------------------------------------------------- System (scriptutils.cpp)
  | "System#len" => need 1 <| match a0 with
    | .arr a => (st.arr? a).map fun xs => (.ok (numOfNat xs.length), st)
    | .dict a => (st.dict? a).map fun kvs => (.ok (numOfNat kvs.length), st)
    | .str s => some (.ok (numOfNat s.length), st)
    | _ => some (.ok (numOfNat 0), st)
  | "System#typeof" => need 1 <| some (.ok (.typ (match a0 with | .empty => "Object" | v => v.ty.name)), st)   -- Empty reflects as Object
  | "System#string" => need 1 <| some (.ok (.str a0s), st)
  | "System#bool" => need 1 <| some (.ok (.bool (truthy st a0)), st)
  | "System#number" => need 1 <| match a0 with
    | .num _ | .bool _ | .empty => some (.ok (.num a0.toDouble), st)
    | .str s => if s == "" then some (.ok (.num nzero), st) else un "number(string)"
    | _ => un "number(object)"
  | "System#keys" => need 1 <| match a0 with
    | .dict a => (st.dict? a).map fun kvs => newArr st (kvs.map fun kv => .str kv.1)
    | .arr _ | .fn _ | .native _ | .empty => some (newArr st [])
    | _ => un "keys"
  | "System#range" =>
    let mk (start stop inc : Value N) : Option (NRes N) :=
      match start, stop, inc with
      | .num s, .num e, .num i =>
        let z : N := nzero
        if (Num.lt s e && Num.le i z) || (Num.lt e s && Num.le z i) then some (newArr st [])
        else if Num.eq i z then some (newArr st [])     -- start == end
        else match rangeList (N := N) Num.lt Num.add (Num.lt z i) e i 10000 s with
          | some xs => some (newArr st xs)
          | none => un "range too long"
      | _, _, _ => un "range args"
    match args with
    | [e] => mk (.num nzero) e (.num (Num.ofInt 1))
    | [s, e] => mk s e (.num (Num.ofInt 1))
    | [s, e, i] => mk s e i
    | _ => some (.error (.script .args "Invalid number of arguments for range()"), st)
  | "System#union" =>
    let all : Option (List (Value N)) := args.foldr (fun v acc =>
      match v, acc with
      | .arr a, some r => (st.arr? a).map (· ++ r)
      | .empty, some r => some r
      | _, _ => none) (some [])
    match all with
    | some xs => match sortValues xs true with
      | some s => some (newArr st s)
      | none => un "union of mixed values"
    | none => un "union args"
  | "System#intersection" =>
    match args with
    | [.arr a, .arr b] =>
      match st.arr? a, st.arr? b with
      | some xs, some ys =>
        match allNums xs, allNums ys with
        | some nx, some ny =>
          let lt := fun (p q : N) => Num.lt p q
          some (newArr st ((interSorted lt (nx.length + ny.length + 1) (sortBy lt nx) (sortBy lt ny)).map .num))
        | _, _ =>
          match allStrs xs, allStrs ys with
          | some sx, some sy =>
            let lt := fun (p q : String) => decide (p < q)
            some (newArr st ((interSorted lt (sx.length + sy.length + 1) (sortBy lt sx) (sortBy lt sy)).map .str))
          | _, _ => un "intersection of mixed values"
      | _, _ => none
    | _ => un "intersection args"
  | _ => none

end

end Icinga.C15

/-
  C07 — histories: the model run over a whole sequence of operations (loads / runtime creations with the
  cycle check, removals, state and period changes, queries), producing the observations the harness
  records of the implementation.
    * load / runtime creation   `Dependency::BeforeOnAllConfigLoadedHandler` (dependency.cpp:152-169) then
                                `Dependency::OnAllConfigLoaded` (dependency.cpp:247-260): `AddReverseDependency`
                                on the parent, `AddDependency` on the child
    * removal                   `Dependency::Stop` (dependency.cpp:262-272): `RemoveReverseDependency`, `RemoveDependency`
    * `GetChildren` / `GetReverseDependencies`   checkable-dependency.cpp:171-187, 263-276 (from `m_ReverseDependencies`)
    * `GetParents`              checkable-dependency.cpp:251-259 (from the groups' composite keys)
  Core Lean only.
-/
import IcingaModel.C07.Model

namespace Icinga.C07

/-- the model's state: the declared configuration plus the container the code keeps separately from the
    dependency groups — `m_ReverseDependencies` of every checkable, as (parent, dependency) pairs. -/
structure HState where
  cfg : Cfg
  rev : List (Nat × (Nat × Dep)) := []

inductive HOp
  | load (batch : List (Nat × Dep))
  | remove (id : Nat)
  | setState (v : Nat) (checked : Bool) (raw : Nat) (hard : Bool)
  | setPeriod (p : Nat) (closed : Bool)
  | query
  | edges

/-- insertion into a duplicate-free ascending list (`std::set` iteration order). -/
def insertNat (k : Nat) : List Nat → List Nat
  | [] => [k]
  | x :: xs => if k == x then x :: xs else if k < x then k :: x :: xs else x :: insertNat k xs

def sortedSet (l : List Nat) : List Nat := l.foldr insertNat []

/-- `Checkable::GetParents()`: the parents named by the composite keys of the checkable's groups. -/
def HState.parents (hs : HState) (v : Nat) : List Nat :=
  sortedSet ((depsOf hs.cfg.graph v).map (·.parent))

/-- `Checkable::GetReverseDependencies()` (ids). -/
def HState.reverse (hs : HState) (v : Nat) : List Nat :=
  sortedSet ((hs.rev.filter (fun e => e.1 == v)).map (·.2.1))

/-- `Checkable::GetChildren()`: children of the reverse dependencies, the checkable itself left out. -/
def HState.children (hs : HState) (v : Nat) : List Nat :=
  sortedSet (((hs.rev.filter (fun e => e.1 == v)).map (·.2.2.child)).filter (fun c => c != v))

/-- one operation; `n` = number of checkables (fuel bound of the cycle search). -/
def hstep (n : Nat) (hs : HState) : HOp → HState × HObs
  | .load batch =>
    let r := runtimeAdd hs.cfg.graph (batch.map (·.2)) n
    let o := HObs.load batch r.2 (fun v => (depsOf r.1 v).length)
    (if r.2 then { cfg := hs.cfg.next o, rev := hs.rev ++ batch.map (fun x => (x.2.parent, x)) } else hs, o)
  | .remove id => ({ cfg := hs.cfg.next (.remove id), rev := hs.rev.filter (fun e => e.2.1 != id) }, .remove id)
  | .setState v ck r h => ({ hs with cfg := hs.cfg.next (.setState v ck r h) }, .setState v ck r h)
  | .setPeriod p cl => ({ hs with cfg := hs.cfg.next (.setPeriod p cl) }, .setPeriod p cl)
  | .query => (hs, .query (isReachable hs.cfg.graph) (fun v => (depsOf hs.cfg.graph v).length))
  | .edges => (hs, .edges hs.parents hs.children hs.reverse)

/-- the observations of a whole history. -/
def hrun (n : Nat) : HState → List HOp → List HObs
  | _, [] => []
  | hs, op :: ops => (hstep n hs op).2 :: hrun n (hstep n hs op).1 ops

end Icinga.C07

/-
  C07 — the property as properties.jsonl states it, as executable predicates over what was
  *observed* of the implementation (the `IsReachable` answers for all checkables and the three
  aspects, accepted/rejected for a load).  Nothing here uses the model's `available`,
  `groupState`, `reachable` or `dfs`; only the data types (`Graph`, `Dep`, `Node`) are shared.
-/
import IcingaModel.C07.Model

namespace Icinga.C07

/-! ### "A dependency is available when …" (five-way disjunction) -/

/-- the parent "is in a state listed in the dependency's state filter" — filter bits as in
    lib/icinga/notification.hpp:24-33; hosts are Up for OK/WARNING, Down otherwise. -/
def stateListed (p : Node) (filter : Nat) : Bool :=
  if p.isService then
    (p.stateRaw == 0 && filter &&& 1 != 0) || (p.stateRaw == 1 && filter &&& 2 != 0) ||
    (p.stateRaw == 2 && filter &&& 4 != 0) || (p.stateRaw ≥ 3 && filter &&& 8 != 0)
  else
    ((p.stateRaw == 0 || p.stateRaw == 1) && filter &&& 16 != 0) ||
    (!(p.stateRaw == 0 || p.stateRaw == 1) && filter &&& 32 != 0)

/-- "the dependency does not disable the aspect asked about (checks or notifications)". -/
def aspectFree (dt : Aspect) (d : Dep) : Bool :=
  (dt == .checkExec && !d.disableChecks) || (dt == .notification && !d.disableNotifications)

def availSpec (g : Graph) (dt : Aspect) (d : Dep) : Bool :=
  let p := g.node d.parent
  !p.checked                         -- its parent has never been checked
  || stateListed p d.stateFilter     -- is in a state listed in the dependency's state filter
  || (d.ignoreSoft && !p.hard)       -- is in a soft state while ignore_soft_states is set
  || d.periodClosed                  -- the dependency's period is closed
  || aspectFree dt d                 -- the dependency does not disable the aspect asked about

/-! ### "A checkable is reachable exactly when …" -/

/-- "for services, as far as state and notifications are concerned - its host is … in a hard Down
    state". -/
def hostDownSpec (g : Graph) (dt : Aspect) (v : Nat) : Bool :=
  match (g.node v).isService, (g.node v).host with
  | true, some h =>
    (dt == .state || dt == .notification) &&
    !((g.node h).stateRaw == 0 || (g.node h).stateRaw == 1) && (g.node h).hard
  | _, _ => false

/-- The right-hand side of the property's "exactly when", for a candidate answer `R` about the
    parents: host not hard Down; every dependency outside a redundancy group has a reachable parent
    and is available; every redundancy group contains at least one such dependency. -/
def reachClause (g : Graph) (dt : Aspect) (R : Nat → Bool) (v : Nat) : Bool :=
  !hostDownSpec g dt v &&
  g.deps.all (fun d =>
    !(d.child == v) ||
    (match d.group with
     | none => R d.parent && availSpec g dt d
     | some name =>
       g.deps.any (fun d' => d'.child == v && d'.group == some name && R d'.parent && availSpec g dt d')))

/-- `R` answers the property's equation at every checkable `0 … n-1`. -/
def reachEqHolds (n : Nat) (g : Graph) (dt : Aspect) (R : Nat → Bool) : Bool :=
  (List.range n).all (fun v => R v == reachClause g dt R v)

/-- A ranking certificate for "acyclic and at most 256 levels deep": every dependency's parent has a
    strictly smaller rank than its child and no rank exceeds 256.  (The theorems' hypothesis; the
    driver computes a candidate by relaxation and *checks* it with this predicate.) -/
def rankOk (g : Graph) (n : Nat) (rank : Nat → Nat) : Bool :=
  g.deps.all (fun d => rank d.parent < rank d.child) && (List.range n).all (fun v => rank v ≤ 256)

/-! ### "A configuration whose dependencies, together with the implicit service-to-host edges,
        contain a cycle is rejected" -/

/-- all edges child → parent of a configuration: dependencies and implicit service → host edges. -/
def allEdges (n : Nat) (g : Graph) : List (Nat × Nat) :=
  g.deps.map (fun d => (d.child, d.parent)) ++
  (List.range n).filterMap (fun v =>
    match (g.node v).isService, (g.node v).host with
    | true, some h => some (v, h)
    | _, _ => none)

/-- one round of peeling: keep the nodes that still have an edge into the kept set. -/
def peel (edges : List (Nat × Nat)) (alive : List Nat) : List Nat :=
  alive.filter (fun v => edges.any (fun e => e.1 == v && alive.contains e.2))

def peelN (edges : List (Nat × Nat)) : Nat → List Nat → List Nat
  | 0, alive => alive
  | k + 1, alive => peelN edges k (peel edges alive)

/-- acyclic iff repeatedly removing the nodes without outgoing edges (into the rest) removes
    everything (independent of the DFS the implementation uses). -/
def acyclicSpec (n : Nat) (g : Graph) : Bool :=
  (peelN (allEdges n g) n (List.range n)).isEmpty

/-! ### clauses and the per-observation checks -/

inductive Clause
  | reachState | reachCheckExec | reachNotification | liveSet | cycleRejected | refusedUnchanged | edges | terminates
  deriving Repr, DecidableEq

def Clause.name : Clause → String
  | .reachState => "reachable_iff_state"
  | .reachCheckExec => "reachable_iff_check_execution"
  | .reachNotification => "reachable_iff_notification"
  | .liveSet => "graph_equals_live_set"
  | .cycleRejected => "cycle_is_rejected"
  | .refusedUnchanged => "refused_addition_leaves_graph_unchanged"
  | .edges => "edges_equal_live_set"
  | .terminates => "evaluation_terminates"

def Clause.ofAspect : Aspect → Clause
  | .state => .reachState | .checkExec => .reachCheckExec | .notification => .reachNotification

/-- One query: `obs dt v` is the implementation's `IsReachable(dt)` of checkable `v`, `ndeps v` its
    `GetDependencies().size()`.  Precondition (checked by the caller with `rankOk`): the live graph is
    acyclic and at most 256 levels deep. -/
def specQuery (n : Nat) (g : Graph) (obs : Aspect → Nat → Bool) (ndeps : Nat → Nat) : Option Clause :=
  if !(List.range n).all (fun v => ndeps v == (g.deps.filter (fun d => d.child == v)).length) then some .liveSet
  else if !reachEqHolds n g .state (obs .state) then some .reachState
  else if !reachEqHolds n g .checkExec (obs .checkExec) then some .reachCheckExec
  else if !reachEqHolds n g .notification (obs .notification) then some .reachNotification
  else none

/-- One load (initial or runtime batch): `g` = everything live plus the batch.  The property only
    demands rejection of cyclic configurations; that acyclic ones are accepted is checked by the
    model/implementation diff (`cycle_check_complete`), not here. -/
def specLoad (n : Nat) (g : Graph) (accepted : Bool) : Option Clause :=
  if accepted && !acyclicSpec n g then some .cycleRejected else none

/-- One runtime addition (`ConfigObjectUtility::CreateObject`): `g` = the live graph before, `ndeps v` =
    `GetDependencies().size()` of checkable `v` afterwards.  An addition that closes a cycle must be
    refused; a refused addition leaves the graph as it was; an accepted one adds exactly the batch. -/
def specRuntimeAdd (n : Nat) (g : Graph) (new : List Dep) (accepted : Bool) (ndeps : Nat → Nat) : Option Clause :=
  let gAll : Graph := { g with deps := g.deps ++ new }
  let cnt := fun (h : Graph) (v : Nat) => (h.deps.filter (fun d => d.child == v)).length
  if accepted && !acyclicSpec n gAll then some .cycleRejected
  else if !accepted && !(List.range n).all (fun v => ndeps v == cnt g v) then some .refusedUnchanged
  else if accepted && !(List.range n).all (fun v => ndeps v == cnt gAll v) then some .liveSet
  else none

/-! ### "graph edges child->parent and parent->child": what the checkables report equals the live set -/

/-- ascending, duplicate-free. -/
def ascInsert (k : Nat) : List Nat → List Nat
  | [] => [k]
  | x :: xs => if k == x then x :: xs else if k < x then k :: x :: xs else x :: ascInsert k xs

def ascSet (l : List Nat) : List Nat := l.foldr ascInsert []

/-- the parents of `v`: parents of the live dependencies whose child is `v`. -/
def parentsSpec (live : List (Nat × Dep)) (v : Nat) : List Nat :=
  ascSet ((live.filter (fun x => x.2.child == v)).map (·.2.parent))

/-- the children of `v`: children of the live dependencies whose parent is `v`, `v` itself left out. -/
def childrenSpec (live : List (Nat × Dep)) (v : Nat) : List Nat :=
  ascSet (((live.filter (fun x => x.2.parent == v)).map (·.2.child)).filter (fun c => c != v))

/-- the reverse dependencies of `v`: the live dependencies (ids) whose parent is `v`. -/
def reverseSpec (live : List (Nat × Dep)) (v : Nat) : List Nat :=
  ascSet ((live.filter (fun x => x.2.parent == v)).map (·.1))

/-- One observation of `GetParents()`, `GetChildren()`, `GetReverseDependencies()` of every checkable (ascending
    node / dependency ids): nothing stale, nothing missing, whatever additions and removals came before. -/
def specEdges (n : Nat) (live : List (Nat × Dep)) (par chi rev : Nat → List Nat) : Option Clause :=
  if (List.range n).all (fun v => par v == parentsSpec live v && chi v == childrenSpec live v && rev v == reverseSpec live v)
  then none else some .edges

/-! ### whole histories -/

/-- candidate ranking by relaxation (longest dependency chain above each checkable, capped); only a
    *candidate*: `rankOk` decides whether it is a certificate. -/
def relaxPass (deps : List Dep) (lvl : Array Nat) : Array Nat × Bool :=
  deps.foldl (fun (acc : Array Nat × Bool) d =>
    let lp := acc.1[d.parent]?.getD 0
    let lc := acc.1[d.child]?.getD 0
    if lc ≤ lp && lp < 400 && d.child < acc.1.size then (acc.1.set! d.child (lp + 1), true) else acc) (lvl, false)

def relaxN (deps : List Dep) : Nat → Array Nat → Array Nat
  | 0, lvl => lvl
  | k + 1, lvl => let r := relaxPass deps lvl; if r.2 then relaxN deps k r.1 else r.1

def rankArr (n : Nat) (g : Graph) : Array Nat := relaxN g.deps 259 (Array.replicate n 0)

/-- the scope of the "reachable exactly when" equation: the live graph is acyclic and at most 256 levels
    deep (certified by the candidate ranking) and every dependency's child is one of the `n` checkables.
    Outside (graphs built behind the cycle checker's back, chains beyond the recursion limit) the
    property does not say what `IsReachable` answers. -/
def queryInScope (n : Nat) (g : Graph) : Bool :=
  let arr := rankArr n g
  rankOk g n (fun v => arr[v]?.getD 0) && g.deps.all (fun d => d.child < n)

/-- the property on ONE recorded step, given the configuration declared by the steps before it. -/
def specObs (n : Nat) (c : Cfg) : HObs → Option Clause
  | .load batch acc nd => specRuntimeAdd n c.graph (batch.map (·.2)) acc nd
  | .query obs nd => if queryInScope n c.graph then specQuery n c.graph obs nd else none
  | .edges par chi rev => specEdges n c.live par chi rev
  | .hung => some .terminates          -- "so evaluation always terminates": a query that never answers violates the property
  | _ => none

/-- the property on a whole recorded history: the first violated clause, if any. -/
def specTrace (n : Nat) : Cfg → List HObs → Option Clause
  | _, [] => none
  | c, o :: os =>
    match specObs n c o with
    | some cl => some cl
    | none => specTrace n (c.next o) os

end Icinga.C07

/-
  C07 — the dependency-group registry: executable transcription of
    * `DependencyGroup::Register` / `Unregister`        lib/icinga/dependency-group.cpp:23-63
    * `DependencyGroup` constructor, `Hash`/`Equal`      dependency-group.cpp:76-82, dependency.hpp (Hash/Equal)
    * `Checkable::AddDependency` / `RemoveDependency`    lib/icinga/checkable-dependency.cpp:73-145
    * `Checkable::PushDependencyGroupsToRegistry`        checkable-dependency.cpp:26-36 (fresh load)
  A `DependencyGroup::Ptr` held in `m_DependencyGroups` is represented by the group's identity (the
  registry is a set keyed on exactly that identity, and `Unregister` looks the group up by it).
  Core Lean only.
-/
import IcingaModel.C07.Model

namespace Icinga.C07

/-- a `Dependency` object (identity = the value; `id` keeps equal-looking objects apart). -/
structure LDep where
  id : Nat
  d : Dep
  deriving DecidableEq, Repr

abbrev CKey := Nat × Option Nat × Nat × Bool

/-- identity of a group: redundancy group name and the key set of `m_Members` (fixed at construction:
    `AddDependency` only fills existing keys, `RemoveDependency` never drops one). -/
abbrev Ident := String × List CKey

/-- `std::equal` over the two `std::map` key sequences = equality of the key *sets*. -/
def keyEq (a b : List CKey) : Bool := a.all (fun k => b.contains k) && b.all (fun k => a.contains k)

/-- `DependencyGroup::Equal` (dependency.hpp). -/
def identEq (a b : Ident) : Bool := a.1 == b.1 && keyEq a.2 b.2

/-- the redundancy group name a group under this key is constructed with ("" outside redundancy groups). -/
def GKey.name : GKey → String
  | .named n => n
  | .parent _ => ""

structure Group where
  ident : Ident
  members : List LDep          -- all (child, Dependency*) pairs of `m_Members`
  deriving Repr

/-- `new DependencyGroup(name, dependencies)` (dependency-group.cpp:76-82). -/
def newGroup (k : GKey) (deps : List LDep) : Group :=
  { ident := (k.name, deps.map (·.d.composite)), members := deps }

/-- `DependencyGroup::Register` (dependency-group.cpp:23-31): merge into an identical group or insert. -/
def register : List Group → Group → List Group × Ident
  | [], g => ([g], g.ident)
  | h :: t, g =>
    if identEq h.ident g.ident then ({ h with members := h.members ++ g.members } :: t, h.ident)
    else ((register t g).1.cons h, (register t g).2)

/-- `DependencyGroup::Unregister(group, child)` (dependency-group.cpp:45-63): take the child's
    dependencies out of the group, erase the group when nothing is left. -/
def unregister : List Group → Ident → Nat → List Group × List LDep
  | [], _, _ => ([], [])
  | h :: t, i, c =>
    if identEq h.ident i then
      let rest := h.members.filter (fun x => !(x.d.child == c))
      (if rest.isEmpty then t else { h with members := rest } :: t,
       h.members.filter (fun x => x.d.child == c))
    else ((unregister t i c).1.cons h, (unregister t i c).2)

structure RState where
  registry : List Group := []                       -- `DependencyGroup::m_Registry`
  cmap : List ((Nat × GKey) × Ident) := []          -- all checkables' `m_DependencyGroups`

def cmapLookup (cmap : List ((Nat × GKey) × Ident)) (ck : Nat × GKey) : Option Ident :=
  (cmap.find? (fun e => e.1 == ck)).map (·.2)

def cmapErase (cmap : List ((Nat × GKey) × Ident)) (ck : Nat × GKey) : List ((Nat × GKey) × Ident) :=
  cmap.filter (fun e => !(e.1 == ck))

/-- checkable-dependency.cpp:87-91 / 118-126: find the child's group under this key, unregister the
    child from it and forget the map entry. -/
def dropGroup (st : RState) (c : Nat) (k : GKey) : RState × List LDep :=
  match cmapLookup st.cmap (c, k) with
  | none => (st, [])
  | some i => ({ registry := (unregister st.registry i c).1, cmap := cmapErase st.cmap (c, k) },
               (unregister st.registry i c).2)

/-- checkable-dependency.cpp:95-96 / 131-132 / 30-33: register a new group for these dependencies and
    remember what `Register` returned. -/
def addGroup (st : RState) (c : Nat) (k : GKey) (deps : List LDep) : RState :=
  { registry := (register st.registry (newGroup k deps)).1,
    cmap := ((c, k), (register st.registry (newGroup k deps)).2) :: st.cmap }

/-- `Checkable::AddDependency` at runtime (checkable-dependency.cpp:83-96); `std::set::emplace`. -/
def addDep (st : RState) (x : LDep) : RState :=
  let r := dropGroup st x.d.child x.d.key
  addGroup r.1 x.d.child x.d.key (if r.2.contains x then r.2 else r.2 ++ [x])

/-- `Checkable::RemoveDependency` (checkable-dependency.cpp:113-133). -/
def removeDep (st : RState) (x : LDep) : RState :=
  match cmapLookup st.cmap (x.d.child, x.d.key) with
  | none => st                                                        -- :119-121
  | some _ =>
    let r := dropGroup st x.d.child x.d.key
    let deps := r.2.filter (fun y => !(y == x))                       -- :127
    if deps.isEmpty then r.1 else addGroup r.1 x.d.child x.d.key deps -- :130-133

/-- `GetDependencyGroups()` + `GetDependenciesForChild(child)` for the group stored under `k`. -/
def membersOf : List Group → Ident → List LDep
  | [], _ => []
  | h :: t, i => if identEq h.ident i then h.members else membersOf t i

def viewDeps (st : RState) (c : Nat) (k : GKey) : List LDep :=
  match cmapLookup st.cmap (c, k) with
  | none => []
  | some i => (membersOf st.registry i).filter (fun x => x.d.child == c)

/-- runtime operations. -/
inductive ROp
  | add (x : LDep)
  | remove (x : LDep)

def applyOp (st : RState) : ROp → RState
  | .add x => addDep st x
  | .remove x => removeDep st x

/-- the set of live dependencies after the operations (what the configuration says). -/
def liveAfter (live : List LDep) : ROp → List LDep
  | .add x => if live.contains x then live else live ++ [x]
  | .remove x => live.filter (fun y => !(y == x))

/-- fresh load: every checkable pushes, per key, one group with all its pending dependencies
    (`PushDependencyGroupsToRegistry`); `todo` lists the (child, key) pairs still to push — every pair
    that has pending dependencies exactly once, in whatever order the checkables are started. -/
def pushAll (live : List LDep) : RState → List (Nat × GKey) → RState
  | st, [] => st
  | st, (c, k) :: rest =>
    pushAll live (addGroup st c k (live.filter (fun x => x.d.child == c && x.d.key == k))) rest

/-! ### `Checkable::IsReachable` as the code evaluates it: through the group objects of the registry -/

/-- `GetDependencyGroups()` of `v` (checkable-dependency.cpp:153-163): the entries of its
    `m_DependencyGroups`, key and group (identity). -/
def groupsOf (st : RState) (v : Nat) : List (GKey × Ident) :=
  (st.cmap.filter (fun e => e.1.1 == v)).map (fun e => (e.1.2, e.2))

/-- `DependencyGroup::IsRedundancyGroup()` (dependency.hpp:148-151): `!m_RedundancyGroupName.IsEmpty()` —
    decided by the GROUP's name, not by the key the checkable stores it under. -/
def identIsRedundancy (i : Ident) : Bool := !(i.1 == "")

/-- `dependencyGroup->GetDependenciesForChild(v)` (dependency-group.cpp:267-279) for a group the registry
    holds under identity `i`; `eff` supplies what is not part of the object's identity (whether its period is
    closed right now, `Cfg.eff`). -/
def groupDepsR (st : RState) (eff : Dep → Dep) (v : Nat) (i : Ident) : List Dep :=
  ((membersOf st.registry i).filter (fun x => x.d.child == v)).map (fun x => eff x.d)

/-- one level of `IsReachable` (checkable-dependency.cpp:198-218): host test, then every group object the
    checkable holds is asked `GetState(this, dt, rstack + 1)` (dependency-group.cpp:309-348). -/
def reachStepR (st : RState) (node : Nat → Node) (eff : Dep → Dep) (dt : Aspect) (reach : Nat → Bool) (v : Nat) : Bool :=
  !hostHardDown { node := node, deps := [] } dt v &&
  (groupsOf st v).all (fun e =>
    groupState reach (available { node := node, deps := [] } dt) (identIsRedundancy e.2) (groupDepsR st eff v e.2) == .ok)

def reachableR (st : RState) (node : Nat → Node) (eff : Dep → Dep) (dt : Aspect) : Nat → Nat → Bool
  | 0, _ => false
  | fuel + 1, v => reachStepR st node eff dt (reachableR st node eff dt fuel) v

/-- `checkable->IsReachable(dt)` evaluated on the registry state (rstack = 0). -/
def isReachableR (st : RState) (node : Nat → Node) (eff : Dep → Dep) (dt : Aspect) (v : Nat) : Bool :=
  reachableR st node eff dt topFuel v

/-- `Checkable::GetParents()` (checkable-dependency.cpp:250-258) as the code computes it: every group object the
    checkable holds contributes the parents named by ALL composite keys of its `m_Members`
    (`DependencyGroup::LoadParents`, dependency-group.cpp:139-144) — keys, not this child's dependencies. -/
def parentsR (st : RState) (v : Nat) : List Nat :=
  (groupsOf st v).flatMap (fun e => e.2.2.map (·.1))

end Icinga.C07

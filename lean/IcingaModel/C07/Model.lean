/-
  C07 — reachability follows the dependency graph; dependency cycles are rejected.
  Executable transcription of
    * `Dependency::IsAvailable`            lib/icinga/dependency.cpp:274-346
    * `DependencyGroup::GetState`          lib/icinga/dependency-group.cpp:309-348
    * `Checkable::IsReachable`             lib/icinga/checkable-dependency.cpp:189-219
    * `DependencyCycleChecker` / `Dependency::BeforeOnAllConfigLoadedHandler`
                                           lib/icinga/dependency.cpp:33-169
    * the per-checkable group map and the global registry (counts only)
                                           lib/icinga/checkable-dependency.cpp:59-145,
                                           lib/icinga/dependency-group.cpp:23-63
  Core Lean only.
-/
namespace Icinga.C07

/-- `DependencyType` (lib/icinga/checkable.hpp:29-34). -/
inductive Aspect | state | checkExec | notification
  deriving DecidableEq, Repr, Inhabited

def Aspect.toNat : Aspect → Nat | .state => 0 | .checkExec => 1 | .notification => 2
def Aspect.all : List Aspect := [.state, .checkExec, .notification]

/-- A checkable.  `stateRaw` is `ServiceState` (OK=0, WARNING=1, CRITICAL=2, UNKNOWN=3);
    `hard` is `GetStateType() == StateTypeHard`; `checked` is `GetLastCheckResult() != nullptr`;
    `host` is `Service::GetHost()` (none for hosts). -/
structure Node where
  isService : Bool
  host : Option Nat
  checked : Bool
  stateRaw : Nat
  hard : Bool
  deriving Repr, DecidableEq, Inhabited

/-- A `Dependency` object.  `periodClosed` is the oracle input
    `tp && !tp->IsInside(Utility::GetTime())` (dependency.cpp:323-324); `period` only identifies the
    TimePeriod object (part of the registry's composite key). -/
structure Dep where
  child : Nat
  parent : Nat
  group : Option String        -- redundancy_group, `none` = empty string
  stateFilter : Nat
  ignoreSoft : Bool
  periodClosed : Bool
  disableChecks : Bool
  disableNotifications : Bool
  period : Option Nat := none
  deriving Repr, DecidableEq, Inhabited

structure Graph where
  node : Nat → Node
  deps : List Dep

/-! ### from the configuration to the object: attributes that are not set -/

/-- A `Dependency` as the configuration declares it; `none` = the attribute is not set. -/
structure DepDecl where
  child : Nat
  parent : Nat
  group : Option String
  states : Option Nat                    -- `states = [ … ]` as filter bits
  ignoreSoft : Option Bool
  period : Option Nat
  disableChecks : Option Bool
  disableNotifications : Option Bool
  deriving Repr, DecidableEq

/-- `Dependency::OnConfigLoaded` (lib/icinga/dependency.cpp:207-217): without `states` the filter is
    `StateFilterUp` for a host parent, `StateFilterOK | StateFilterWarning` for a service parent. -/
def defaultFilter (parentIsService : Bool) : Nat := if parentIsService then 1 ||| 2 else 16

/-- the object the configuration yields: `OnConfigLoaded` for the filter (an explicitly EMPTY list stays
    empty: `some 0`), lib/icinga/dependency.ti:93-100 for the flags (`ignore_soft_states` defaults to true,
    `disable_checks` to false, `disable_notifications` to true). -/
def DepDecl.resolve (parentIsService : Bool) (x : DepDecl) : Dep :=
  { child := x.child, parent := x.parent, group := x.group,
    stateFilter := x.states.getD (defaultFilter parentIsService),
    ignoreSoft := x.ignoreSoft.getD true,
    periodClosed := false,
    disableChecks := x.disableChecks.getD false,
    disableNotifications := x.disableNotifications.getD true,
    period := x.period }

/-! ### Dependency::IsAvailable -/

/-- `Host::CalculateState` (lib/icinga/host.cpp:141-150): OK/WARNING ⇒ Up. -/
def hostUp (raw : Nat) : Bool := raw == 0 || raw == 1

/-- `ServiceStateToFilter` / `HostStateToFilter` (lib/icinga/notification.cpp:614-641):
    OK=1 Warning=2 Critical=4 Unknown=8, Up=16 Down=32 (dependency.cpp:308-313). -/
def stateBit (n : Node) : Nat :=
  if n.isService then
    (match n.stateRaw with | 0 => 1 | 1 => 2 | 2 => 4 | _ => 8)
  else (if hostUp n.stateRaw then 16 else 32)

/-- dependency.cpp:330-338: the aspect asked about is not disabled by this dependency.
    `DependencyState` has no such escape. -/
def aspectNotDisabled (dt : Aspect) (d : Dep) : Bool :=
  match dt with
  | .state => false
  | .checkExec => !d.disableChecks
  | .notification => !d.disableNotifications

/-- `Dependency::IsAvailable(dt)` — the chain of early `return true` guards as one disjunction, in
    source order: same object (283), never checked (290), ignore_soft_states ∧ soft (296-302),
    state in filter (316), period closed (323-328), aspect not disabled (330-338). -/
def available (g : Graph) (dt : Aspect) (d : Dep) : Bool :=
  let p := g.node d.parent
  d.parent == d.child
  || !p.checked
  || (d.ignoreSoft && !p.hard)
  || (stateBit p &&& d.stateFilter != 0)
  || d.periodClosed
  || aspectNotDisabled dt d

/-! ### DependencyGroup::GetState -/

inductive GState | ok | failed | unreachable
  deriving DecidableEq, Repr, Inhabited

/-- `DependencyGroup::GetState` (dependency-group.cpp:309-348) for the dependencies `deps` of one child
    in one group; `reach` answers `dependency->GetParent()->IsReachable(dt, rstack)`. -/
def groupState (reach : Nat → Bool) (avail : Dep → Bool) (redundancy : Bool) (deps : List Dep) : GState :=
  let reachableDeps := deps.filter (fun d => reach d.parent)     -- :315 (each parent is asked once)
  let reachable := reachableDeps.length                          -- :316
  let available := (reachableDeps.filter avail).length           -- :320-321 (only reachable parents count)
  if redundancy then                                             -- :326
    if reachable == 0 then .unreachable else if available == 0 then .failed else .ok
  else
    if reachable < deps.length then .unreachable                 -- :340
    else if available < deps.length then .failed else .ok

/-! ### the per-checkable group map -/

/-- `GetDependencyGroupKey` (checkable-dependency.cpp:59-66): the redundancy group name, else the
    parent. -/
inductive GKey
  | named (name : String)
  | parent (p : Nat)
  deriving DecidableEq, Repr

def Dep.key (d : Dep) : GKey :=
  match d.group with
  | some n => .named n
  | none => .parent d.parent

def GKey.isRedundancy : GKey → Bool
  | .named _ => true
  | .parent _ => false

/-- `Checkable::GetDependencies()`: the live dependencies whose child is `v`. -/
def depsOf (g : Graph) (v : Nat) : List Dep := g.deps.filter (fun d => d.child == v)

/-- Keys of `m_DependencyGroups` of `v` (checkable.hpp:254), each once. -/
def groupKeys (g : Graph) (v : Nat) : List GKey := ((depsOf g v).map Dep.key).eraseDups

/-- `dependencyGroup->GetDependenciesForChild(v)` for the group stored under `k`. -/
def groupDeps (g : Graph) (v : Nat) (k : GKey) : List Dep := (depsOf g v).filter (fun d => d.key == k)

/-! ### Checkable::IsReachable -/

/-- checkable-dependency.cpp:198-206: a service whose host is not Up in a hard state is unreachable
    as far as state and notifications are concerned. -/
def hostHardDown (g : Graph) (dt : Aspect) (v : Nat) : Bool :=
  let n := g.node v
  n.isService && (dt == .state || dt == .notification) &&
  (match n.host with
   | some h => !hostUp (g.node h).stateRaw && (g.node h).hard
   | none => false)

/-- One level of `Checkable::IsReachable` given the answer `reach` of the next level
    (checkable-dependency.cpp:198-218). -/
def reachStep (g : Graph) (dt : Aspect) (reach : Nat → Bool) (v : Nat) : Bool :=
  !hostHardDown g dt v &&
  (groupKeys g v).all (fun k => groupState reach (available g dt) k.isRedundancy (groupDeps g v k) == .ok)

/-- `Checkable::IsReachable(dt, rstack)` with `fuel = 257 - rstack`: `rstack > 256` ⇒ false
    (checkable-dependency.cpp:191-196); the parents are asked with `rstack + 1` (:209, group :315). -/
def reachable (g : Graph) (dt : Aspect) : Nat → Nat → Bool
  | 0, _ => false
  | fuel + 1, v => reachStep g dt (reachable g dt fuel) v

/-- `l_MaxDependencyRecursionLevel` (checkable-dependency.cpp:15) + 1: levels 0..256 are evaluated. -/
def topFuel : Nat := 257

/-- `checkable->IsReachable(dt)` as the rest of the program calls it (`rstack = 0`). -/
def isReachable (g : Graph) (dt : Aspect) (v : Nat) : Bool := reachable g dt topFuel v

/-! ### DependencyCycleChecker -/

/-- Edges followed by `AssertNoCycle` from `v` (dependency.cpp:118-137): the implicit edge of a service
    to its host, then the parents of the dependencies registered on `v` (incl. pending ones) and of
    the batch's extra dependencies — here all of them are in `g.deps`. -/
def succs (g : Graph) (v : Nat) : List Nat :=
  (match (g.node v).isService, (g.node v).host with
   | true, some h => [h]
   | _, _ => []) ++ (depsOf g v).map (·.parent)

inductive Res
  | cycle                      -- `node.OnStack` ⇒ ScriptError "Dependency cycle:…" (dependency.cpp:78-109)
  | ok (fin : List Nat)        -- returned normally; `fin` = nodes with `Visited && !OnStack`, newest first
  | fuelOut                    -- artefact of the model's fuel (the C++ recursion has none)
  deriving Repr, DecidableEq

/-- the three loops over the outgoing edges (dependency.cpp:119-137); `visit fin w` is the recursive
    `AssertNoCycle(w)` with the marks accumulated so far. -/
def dfsList (visit : List Nat → Nat → Res) : List Nat → List Nat → Res
  | fin, [] => .ok fin
  | fin, w :: ws =>
    match visit fin w with
    | .ok fin' => dfsList visit fin' ws
    | r => r

/-- `AssertNoCycle(v)`: `stack` = nodes with `OnStack`, `fin` = nodes visited and finished. -/
def dfs (succ : Nat → List Nat) : Nat → List Nat → List Nat → Nat → Res
  | 0, _, _, _ => .fuelOut
  | f + 1, stack, fin, v =>
    if v ∈ stack then .cycle                          -- :78
    else if v ∈ fin then .ok fin                      -- :111
    else match dfsList (dfs succ f (v :: stack)) fin (succ v) with   -- :114-137
      | .ok fin' => .ok (v :: fin')                   -- :139
      | r => r

/-- `BeforeOnAllConfigLoadedHandler` (dependency.cpp:152-169): the new dependencies are added as extra
    edges, then the search is started from the parent of every new dependency, sharing the
    visited marks.  `bound` = number of checkables (fuel for the model's recursion). -/
def cycleCheck (g : Graph) (new : List Dep) (bound : Nat) : Res :=
  dfsList (dfs (succs { g with deps := g.deps ++ new }) (bound + 1) []) [] (new.map (·.parent))

def Res.accepted : Res → Bool
  | .ok _ => true
  | _ => false

/-- A batch added at runtime (`ConfigObjectUtility::CreateObject` → `ConfigItem::CommitItems` →
    `BeforeOnAllConfigLoadedHandler` → `OnAllConfigLoaded`, lib/remote/configobjectutility.cpp,
    dependency.cpp:152-169, 247-260): the dependencies are registered only if the cycle check passes;
    a refused batch leaves the registered set as it was. -/
def runtimeAdd (g : Graph) (new : List Dep) (bound : Nat) : Graph × Bool :=
  if (cycleCheck g new bound).accepted then ({ g with deps := g.deps ++ new }, true) else (g, false)

/-- a sequence of runtime batches. -/
def runtimeAdds (bound : Nat) : Graph → List (List Dep) → Graph
  | g, [] => g
  | g, b :: bs => runtimeAdds bound (runtimeAdd g b bound).1 bs

/-! ### registry (counts only; lib/icinga/dependency-group.cpp:23-63, dependency.hpp Hash/Equal) -/

/-- `DependencyGroup::MakeCompositeKeyFor` (dependency-group.cpp:93-101). -/
def Dep.composite (d : Dep) : Nat × Option Nat × Nat × Bool :=
  (d.parent, d.period, d.stateFilter, d.ignoreSoft)

/-- insertion into a duplicate-free sorted list (the `std::map` key set of `m_Members`). -/
def insertKey (k : Nat × Option Nat × Nat × Bool) : List (Nat × Option Nat × Nat × Bool) → List (Nat × Option Nat × Nat × Bool)
  | [] => [k]
  | x :: xs =>
    if k == x then x :: xs
    else if lexLt k x then k :: x :: xs else x :: insertKey k xs
where
  lexLt (a b : Nat × Option Nat × Nat × Bool) : Bool :=
    let pa := match a.2.1 with | none => 0 | some p => p + 1
    let pb := match b.2.1 with | none => 0 | some p => p + 1
    let ia := if a.2.2.2 then 1 else 0
    let ib := if b.2.2.2 then 1 else 0
    a.1 < b.1 || (a.1 == b.1 && (pa < pb || (pa == pb && (a.2.2.1 < b.2.2.1 || (a.2.2.1 == b.2.2.1 && ia < ib)))))

/-- Identity of a registered group: redundancy group name ("" for none) and the set of composite
    keys (`DependencyGroup::Hash/Equal`, dependency.hpp). -/
def groupIdent (g : Graph) (v : Nat) (k : GKey) : String × List (Nat × Option Nat × Nat × Bool) :=
  ((match k with | .named n => n | .parent _ => ""),
   ((groupDeps g v k).map Dep.composite).foldr insertKey [])

/-- `DependencyGroup::GetRegistrySize()` after all children `vs` have pushed their groups. -/
def registrySize (g : Graph) (vs : List Nat) : Nat :=
  ((vs.flatMap (fun v => (groupKeys g v).map (groupIdent g v))).eraseDups).length

/-! ### histories: the declared configuration and what an observer records (data types shared by the
        model `History.lean`, the specification `Spec.lean` and the driver) -/

/-- The configuration as declared so far: the checkables with their states, the live `Dependency`
    objects (id, value) and which pool periods are closed right now (`tp && !tp->IsInside(now)`). -/
structure Cfg where
  node : Nat → Node
  live : List (Nat × Dep) := []
  closed : Nat → Bool := fun _ => false

/-- dependency.cpp:323-324 with `GetPeriod()` resolved: closed iff the dependency names a period and that
    period is closed now. -/
def Cfg.eff (c : Cfg) (d : Dep) : Dep :=
  { d with periodClosed := match d.period with | some p => c.closed p | none => false }

def Cfg.graph (c : Cfg) : Graph := { node := c.node, deps := c.live.map (fun x => c.eff x.2) }

/-- One recorded step of a history: the operation and, after `|` in the harness's lines, what the
    implementation answered. -/
inductive HObs
  | load (batch : List (Nat × Dep)) (accepted : Bool) (ndeps : Nat → Nat)   -- initial load, later batch, runtime creation
  | remove (id : Nat)                                                        -- `Dependency::Stop` / DeleteObject
  | setState (v : Nat) (checked : Bool) (raw : Nat) (hard : Bool)
  | setPeriod (p : Nat) (closed : Bool)
  | query (obs : Aspect → Nat → Bool) (ndeps : Nat → Nat)                    -- IsReachable x 3 aspects, GetDependencies().size()
  | edges (par chi rev : Nat → List Nat)                                     -- GetParents / GetChildren / GetReverseDependencies
  | hung                                                                     -- a query (IsReachable of every checkable) did not come back

/-- what the recorded step means for the declared configuration (an accepted load adds its batch, a
    refused one nothing). -/
def Cfg.next (c : Cfg) : HObs → Cfg
  | .load batch acc _ => if acc then { c with live := c.live ++ batch } else c
  | .remove id => { c with live := c.live.filter (fun x => x.1 != id) }
  | .setState v ck r h =>
    { c with node := fun w => if w == v then { c.node w with checked := ck, stateRaw := r, hard := h } else c.node w }
  | .setPeriod p cl => { c with closed := fun q => if q == p then cl else c.closed q }
  | .query _ _ => c
  | .edges _ _ _ => c
  | .hung => c

end Icinga.C07

/-
  Line-protocol helpers shared by all drivers (core Lean only, no Mathlib).
-/
namespace Icinga.Proto

def words (line : String) : List String :=
  (line.trimAscii.toString.splitOn " ").filter (· ≠ "")

/-- Split `a b c | d e` into (["a","b","c"], ["d","e"]). -/
def splitBar (ws : List String) : List String × List String :=
  let pre := ws.takeWhile (· ≠ "|")
  let post := (ws.dropWhile (· ≠ "|")).drop 1
  (pre, post)

def parseInt? (s : String) : Option Int := s.toInt?
def parseNat? (s : String) : Option Nat := s.toNat?
def parseBool? (s : String) : Option Bool :=
  match s with
  | "0" => some false
  | "1" => some true
  | _ => none

def showBool (b : Bool) : String := if b then "1" else "0"

/-- Read all of stdin as lines, folding a state over them. -/
partial def foldLines {σ : Type} (h : IO.FS.Stream) (f : σ → Nat → String → IO σ) (s : σ) (n : Nat := 1) : IO σ := do
  let line ← h.getLine
  if line.isEmpty then return s
  let s' ← f s n line
  foldLines h f s' (n + 1)

end Icinga.Proto

/-
  C16 — apply rules create exactly the matching objects, with or without the name-index fast path.

  Executable transcription of
    lib/config/applyrule-targeted.cpp:63-273   shape recognition (GetTargetHosts/GetTargetServices/…)
    lib/config/applyrule.cpp:60-82             AddRule: targeted index or regular list
    lib/config/config_parser.yy:466-540,1137-1243  assign/ignore combination
    lib/icinga/service-apply.cpp:20-133 (+ notification-, dependency-, scheduleddowntime-apply.cpp: same shape)
    lib/remote/filterutility.cpp:84-141,296-360    EvaluateFilter, FilterVarsCollideWithTarget, API fast path
    lib/config/expression.cpp:111-123,201-207,319-339,419-447,740-749  evaluation of the filter operators
    lib/base/value.cpp:184-213, value-operators.cpp:130-181, lib/config/vmops.hpp:236-247

  The filter language is self-contained (the full DSL interpreter of C15 is not used): literals, variables,
  indexer, `==`, `!=`, `&&`, `||`, `!`, and an opaque atom `other i` that stands for any other sub-expression
  (custom variable tests, group membership, function calls …) whose value per target is an oracle input.
  Evaluation may raise (`none`): undefined variable, field access on a string, …; an error anywhere during
  the evaluation of the apply rules rejects the whole configuration.

  Not modelled: the evaluation of the rule body, name collisions between created objects ("re-defined"; the
  driver rejects such cases explicitly), `ignore_on_error`, zones/packages, template imports, values of opaque atoms
  on services that only exist through `apply Service` (the generator uses no atoms there).  Core Lean only.
-/
namespace Icinga.C16

/-! ## Values (lib/base/value.hpp) -/

/-- The values the filter language ranges over. `host n` / `service h s` are the config objects named
    `n` / `h!s`; `object ty n` is any other config object (CheckCommand, TimePeriod …). -/
inductive Val
  | empty
  | bool (b : Bool)
  | num (n : Int)
  | str (s : String)
  | host (name : String)
  | service (host name : String)
  | object (type name : String)
  deriving DecidableEq, Repr, Inhabited

/-- `Value::ToBool` (lib/base/value.cpp:184-213). -/
def Val.truthy : Val → Bool
  | .empty => false
  | .bool b => b
  | .num n => n != 0
  | .str s => s != ""
  | .host _ => true
  | .service _ _ => true
  | .object _ _ => true

def boolNum (b : Bool) : Int := if b then 1 else 0

/-- `Value::operator==` (lib/base/value-operators.cpp:130-181). Objects compare by identity; config objects
    are identified by type and name. -/
def valEq : Val → Val → Bool
  | .num a, .num b => a == b
  | .bool a, .bool b => a == b
  | .bool a, .num b => boolNum a == b
  | .num a, .bool b => a == boolNum b
  | .str a, .str b => a == b
  | .str a, .empty => a == ""
  | .empty, .str b => b == ""
  | .empty, .empty => true
  | .host a, .host b => a == b
  | .service h s, .service h' s' => h == h' && s == s'
  | .object t n, .object t' n' => t == t' && n == n'
  | _, _ => false

/-- `Value::operator String` as used by `name += instance` (service-apply.cpp:96). -/
def Val.toStr : Val → String
  | .empty => ""
  | .bool b => if b then "true" else "false"
  | .num n => toString n
  | .str s => s
  | .host _ => "Object of type 'Host'"
  | .service _ _ => "Object of type 'Service'"
  | .object t _ => "Object of type '" ++ t ++ "'"

/-! ## Expressions (the AST classes of lib/config/expression.hpp that the recogniser looks at) -/

inductive Expr
  | lit (v : Val)          -- LiteralExpression
  | var (x : String)       -- VariableExpression
  | idx (a b : Expr)       -- IndexerExpression  a[b] / a.b
  | eq (a b : Expr)        -- EqualExpression
  | ne (a b : Expr)        -- NotEqualExpression
  | and (a b : Expr)       -- LogicalAndExpression
  | or (a b : Expr)        -- LogicalOrExpression
  | not (a : Expr)         -- LogicalNegateExpression
  | other (i : Nat)        -- any other expression class; opaque
  deriving DecidableEq, Repr, Inhabited

/-- What an evaluation can see. `vars` is the flattened variable lookup of `VariableExpression::DoEvaluate`
    (expression.cpp:111-123: frame locals, then `this`, then globals; `none` = undefined ⇒ ScriptError);
    `other` the value of the opaque atoms (`none` = raises); `field` every `VMOps::GetField` the model does
    not decide itself (`none` = raises). -/
structure Env where
  vars : String → Option Val
  other : Nat → Option Val
  field : Val → Val → Option Val

/-- `VMOps::GetField` (vmops.hpp:236-247): an Empty context yields Empty; `name` of a Host is its name and of
    a Service its short name (host.ti / service.ti); everything else is left to `env.field`. -/
def getField (env : Env) (c i : Val) : Option Val :=
  match c with
  | .empty => some .empty
  | .host n => if i = .str "name" then some (.str n) else env.field c i
  | .service _ s => if i = .str "name" then some (.str s) else env.field c i
  | _ => env.field c i

/-- `Expression::Evaluate` for the modelled classes (expression.cpp). `&&`/`||` short-circuit and return the
    deciding operand's value (expression.cpp:419-447). -/
def eval (env : Env) : Expr → Option Val
  | .lit v => some v
  | .var x => env.vars x
  | .idx a b => (eval env a).bind fun va => (eval env b).bind fun vb => getField env va vb
  | .eq a b => (eval env a).bind fun va => (eval env b).bind fun vb => some (.bool (valEq va vb))
  | .ne a b => (eval env a).bind fun va => (eval env b).bind fun vb => some (.bool (!valEq va vb))
  | .and a b => (eval env a).bind fun va => if va.truthy then eval env b else some va
  | .or a b => (eval env a).bind fun va => if va.truthy then some va else eval env b
  | .not a => (eval env a).bind fun va => some (.bool (!va.truthy))
  | .other i => env.other i

/-- `ApplyRule::EvaluateFilter` (applyrule.cpp:82-85) / `FilterUtility::EvaluateFilter`'s last line:
    `Convert::ToBool(filter->Evaluate(frame))`. -/
def evalFilter (env : Env) (e : Expr) : Option Bool := (eval env e).map Val.truthy

/-! ## Shape recognition (lib/config/applyrule-targeted.cpp) -/

/-- The `constants` dictionary argument: absent (`nullptr`) for apply rules, `filter_vars` for API queries. -/
abbrev Consts := Option (String → Option Val)

/-- `ApplyRule::GetConst` (applyrule-targeted.cpp:256-273). -/
def getConst (consts : Consts) : Expr → Option Val
  | .lit v => some v
  | .var x => match consts with
    | some c => c x
    | none => none
  | _ => none

/-- `ApplyRule::GetConstString` (applyrule-targeted.cpp:246-251). -/
def getConstString (consts : Consts) (e : Expr) : Option String :=
  match getConst consts e with
  | some (.str s) => some s
  | _ => none

/-- `ApplyRule::IsNameIndexer` (applyrule-targeted.cpp:224-241). -/
def isNameIndexer (consts : Consts) (lcType : String) : Expr → Bool
  | .idx (.var x) f => x == lcType && getConstString consts f == some "name"
  | _ => false

/-- `ApplyRule::GetComparedName` (applyrule-targeted.cpp:199-219). Note: when the first operand is the name
    indexer the second one decides alone; the operands are not tried the other way round. -/
def getComparedName (consts : Consts) (lcType : String) : Expr → Option String
  | .eq a b =>
    if isNameIndexer consts lcType a then getConstString consts b
    else if isNameIndexer consts lcType b then getConstString consts a
    else none
  | _ => none

/-- `ApplyRule::GetTargetHosts` (applyrule-targeted.cpp:106-123). -/
def getTargetHosts (consts : Consts) : Expr → Option (List String)
  | .or a b =>
    match getTargetHosts consts a, getTargetHosts consts b with
    | some l₁, some l₂ => some (l₁ ++ l₂)
    | _, _ => none
  | e => (getComparedName consts "host" e).map fun n => [n]

/-- `ApplyRule::GetTargetService` (applyrule-targeted.cpp:162-188). -/
def getTargetService (consts : Consts) : Expr → Option (String × String)
  | .and a b =>
    match getComparedName consts "host" a with
    | some h => (getComparedName consts "service" b).map fun s => (h, s)
    | none =>
      match getComparedName consts "host" b with
      | some h => (getComparedName consts "service" a).map fun s => (h, s)
      | none => none
  | _ => none

/-- `ApplyRule::GetTargetServices` (applyrule-targeted.cpp:134-151). -/
def getTargetServices (consts : Consts) : Expr → Option (List (String × String))
  | .or a b =>
    match getTargetServices consts a, getTargetServices consts b with
    | some l₁, some l₂ => some (l₁ ++ l₂)
    | _, _ => none
  | e => (getTargetService consts e).map fun p => [p]

/-! ## Apply rules -/

inductive SrcType | service | notification | dependency | scheduledDowntime
  deriving DecidableEq, Repr, Inhabited

inductive TgtType | host | service
  deriving DecidableEq, Repr, Inhabited

/-- What the `for` term evaluated to on one target (service-apply.cpp:71-115). -/
inductive ForVal
  | err                               -- raised: "silently ignore errors here and assume there are no instances"
  | arr (l : List Val)
  | dict (l : List (String × Val))
  | other                             -- neither array nor dictionary: no instances
  deriving Repr, Inhabited

/-- `for (kvar in term)` (vvar = "") / `for (kvar => vvar in term)`; `term`: the value of the term per target. -/
structure Loop where
  term : Val → ForVal
  kvar : String
  vvar : String := ""

structure Rule where
  src : SrcType
  tgt : TgtType
  name : String
  /-- the `assign where` expressions, in source order -/
  assign : List Expr
  /-- the `ignore where` expressions, in source order -/
  ignore : List Expr
  /-- the `for (k [=> v] in term)` header; `none`: the rule has no `for`. The parser sets the term and the
      variable names together or not at all (config_parser.yy `apply_for_specifier`). -/
  loop : Option Loop
  /-- `use (…)` closure variables (ApplyRule::m_Scope) -/
  scope : List (String × Val) := []

/-- ApplyRule::m_FTerm / m_FKVar / m_FVVar -/
def Rule.fterm (r : Rule) : Option (Val → ForVal) := r.loop.map (·.term)
def Rule.fkvar (r : Rule) : String := (r.loop.map (·.kvar)).getD ""
def Rule.fvvar (r : Rule) : String := (r.loop.map (·.vvar)).getD ""

/-- Several `assign where` (resp. `ignore where`) are OR-ed, left-nested (config_parser.yy:466-540). -/
def orAll : List Expr → Option Expr
  | [] => none
  | e :: es => some (es.foldl Expr.or e)

/-- The rule's filter as the parser builds it (config_parser.yy:1196-1216): `assign && !ignore`,
    `assign` alone without `ignore where`, literal `true` for a `for` rule without `assign where`. -/
def Rule.filter (r : Rule) : Expr :=
  let assign := (orAll r.assign).getD (.lit (.bool true))
  match orAll r.ignore with
  | some ig => .and assign (.not ig)
  | none => assign

/-! ### the statements of a rule body, in source order

  `assign where` / `ignore where` may be written in any order and interleaved with the attribute assignments.  The
  parser (config_parser.yy:494-566) ORs every `assign where` into `m_Assign.top()` and every `ignore where` into
  `m_Ignore.top()` as it meets them; the two are combined once, at the end of the rule (config_parser.yy:1190-1214).
  So a rule is its two lists, each in source order; how the two kinds interleave is forgotten. -/

inductive Stmt
  | assign (e : Expr)
  | ignore (e : Expr)
  deriving DecidableEq, Repr, Inhabited

/-- `m_Assign` / `m_Ignore` after the statements `ss` (as lists; `orAll` is the left-nested `||` the parser builds) -/
def collectStmts (ss : List Stmt) : List Expr × List Expr :=
  (ss.filterMap fun s => match s with | .assign e => some e | .ignore _ => none,
   ss.filterMap fun s => match s with | .ignore e => some e | .assign _ => none)

/-- the rule with the given statements -/
def Rule.withStmts (r : Rule) (ss : List Stmt) : Rule :=
  { r with assign := (collectStmts ss).1, ignore := (collectStmts ss).2 }

/-- the same rule with its statements written in reverse order -/
def Rule.revStmts (r : Rule) : Rule := { r with assign := r.assign.reverse, ignore := r.ignore.reverse }

/-- The inventory: host names and (host, short name) pairs of the services. -/
structure Inventory where
  hosts : List String
  services : List (String × String)

def targets (inv : Inventory) : TgtType → List Val
  | .host => inv.hosts.map Val.host
  | .service => inv.services.map fun p => Val.service p.1 p.2

def hostOf : Val → Val
  | .service h _ => .host h
  | v => v

/-- Everything the property does not define, as seen from one configuration: global script variables,
    the opaque atoms' values per target and loop instance, all other field accesses. -/
structure World where
  globals : String → Option Val
  other : (target key value : Val) → Nat → Option Val
  field : Val → Val → Option Val
  /-- the object a navigation field of the target joins (`target->NavigateField(fid)`, filterutility.cpp:110) -/
  nav : Val → String → Val
  /-- the names of the navigation fields of the Host / Service type (filterutility.cpp:104-115 walks the type's
      fields). Which fields a type has is not the property's business: the driver reads them from the
      implementation's type reflection; today `defaultNavNames`. -/
  navNames : TgtType → List String

def bind (x : String) (v : Val) (f : String → Option Val) : String → Option Val :=
  fun y => if y = x then some v else f y

def bindAll (l : List (String × Val)) (f : String → Option Val) : String → Option Val :=
  l.foldl (fun g p => bind p.1 p.2 g) f

/-- `frame.Locals` after service-apply.cpp:64-67 (notification-apply.cpp:69-74 for the `service` binding):
    the closure scope first, then `host`, then `service`; globals behind the locals. -/
def baseVars (w : World) (r : Rule) (t : Val) : String → Option Val :=
  let l := bind "host" (hostOf t) (bindAll r.scope w.globals)
  match t with
  | .service _ _ => bind "service" t l
  | _ => l

/-- One element of the `for` set: the suffix of the object name and the loop variables set, in order. -/
structure Inst where
  key : String
  binds : List (String × Val)
  deriving DecidableEq, Repr

/-- The loop of service-apply.cpp:82-115. `none`: the rule raises ("Dictionary iterator requires value to be
    a dictionary" / "Array iterator requires value to be an array"). Without `for` the instance list is
    `[""]` and no variable is set (fkvar is empty). -/
def instancesOf (r : Rule) : ForVal → Option (List Inst)
  | .err => some []
  | .other => some []
  | .arr l =>
    if r.fvvar ≠ "" then none
    else some (l.map fun v => if r.fkvar ≠ "" then ⟨v.toStr, [(r.fkvar, v)]⟩ else ⟨"", []⟩)
  | .dict l =>
    if r.fvvar = "" then none
    else some (l.map fun kv => ⟨kv.1, [(r.fkvar, .str kv.1), (r.fvvar, kv.2)]⟩)

/-- service-apply.cpp:69-80: the value iterated over. -/
def forVal (r : Rule) (t : Val) : ForVal :=
  match r.fterm with
  | none => .arr [.str ""]
  | some f => f t

def instances (r : Rule) (t : Val) : Option (List Inst) := instancesOf r (forVal r t)

def instKV (i : Inst) : Val × Val :=
  match i.binds with
  | [] => (.empty, .empty)
  | [(_, k)] => (k, .empty)
  | (_, k) :: (_, v) :: _ => (k, v)

/-- The frame in which the filter of instance `i` is evaluated: the loop variables are set *after*
    `host`/`service` (service-apply.cpp:95,109-110), so they shadow them. -/
def instEnv (w : World) (r : Rule) (t : Val) (i : Inst) : Env :=
  { vars := bindAll i.binds (baseVars w r t)
    other := w.other t (instKV i).1 (instKV i).2
    field := w.field }

def targetName : Val → String
  | .host n => n
  | .service h s => h ++ "!" ++ s
  | _ => "?"

def targetHostName : Val → String
  | .host n => n
  | .service h _ => h
  | _ => "?"

def targetServiceName : Val → Option String
  | .service _ s => some s
  | _ => none

/-- the value the rule body sees under the loop variable name `x` (`empty`: the rule has no such variable) -/
def lookupBind (binds : List (String × Val)) (x : String) : Val :=
  if x = "" then .empty else (bindAll binds (fun _ => none) x).getD .empty

/-- A created object: which rule (by the caller's label), of which type, on which target, its short name
    (rule name + instance key). The loop bindings are kept because the object's scope
    (`builder.SetScope(frame.Locals->ShallowClone())`) and hence its attributes depend on them; `k`/`v` are
    the values of the loop variables as the body sees them. -/
structure Created where
  rule : Nat
  src : SrcType
  target : Val
  name : String
  key : String
  binds : List (String × Val)
  k : Val
  v : Val
  deriving DecidableEq, Repr

/-- service-apply.cpp:92-97,112 (name), :31-50 (builder). -/
def mkCreated (id : Nat) (r : Rule) (t : Val) (i : Inst) : Created :=
  { rule := id, src := r.src, target := t, name := r.name ++ i.key, key := i.key, binds := i.binds
    k := lookupBind i.binds r.fkvar, v := lookupBind i.binds r.fvvar }

inductive Outcome
  | error
  | skip
  | create (c : Created)
  deriving DecidableEq, Repr

/-- `EvaluateApplyRuleInstance` (service-apply.cpp:19-56). -/
def evalInstance (w : World) (skipFilter : Bool) (id : Nat) (r : Rule) (t : Val) (i : Inst) : Outcome :=
  if skipFilter then .create (mkCreated id r t i)
  else match evalFilter (instEnv w r t i) r.filter with
    | none => .error
    | some true => .create (mkCreated id r t i)
    | some false => .skip

/-- `EvaluateApplyRule` (service-apply.cpp:58-118). -/
def evalRule (w : World) (skipFilter : Bool) (id : Nat) (r : Rule) (t : Val) : List Outcome :=
  match instances r t with
  | none => [.error]
  | some is => is.map (evalInstance w skipFilter id r t)

/-- `ApplyRule::AddTargetedRule` (applyrule-targeted.cpp:63-95): the names under which a rule is indexed, as
    target objects; `none`: the rule goes to the regular list (applyrule.cpp:77-79). A rule with `for` is never
    indexed (applyrule-targeted.cpp:65-70, commit b11cb6d: its for-term and loop variables are evaluated on
    every object before the filter). -/
def targetedNames (r : Rule) : Option (List Val) :=
  if r.fterm.isSome then none else
  match r.tgt with
  | .host => (getTargetHosts none r.filter).map fun l => l.map Val.host
  | .service => (getTargetServices none r.filter).map fun l => l.map fun p => Val.service p.1 p.2

def tgtOf : Val → Option TgtType
  | .host _ => some .host
  | .service _ _ => some .service
  | _ => none

def allTargets (inv : Inventory) : List Val := targets inv .host ++ targets inv .service

/-- Rules carry a label chosen by the caller (position in the file, say) so that permuting them keeps
    the identity of what they create. -/
abbrev Rules := List (Nat × Rule)

/-- Plain evaluation: every rule of the target's type is evaluated with its filter. -/
def plainOn (w : World) (rules : Rules) (t : Val) : List Outcome :=
  (rules.filter fun p => tgtOf t == some p.2.tgt).flatMap fun p => evalRule w false p.1 p.2 t

/-- `Service::EvaluateApplyRules` and siblings (service-apply.cpp:120-133): the regular rules of the
    target's type with their filter, then the rules indexed under the target's name with `skipFilter`.
    (`ForHost`/`ForServices[…]` are `std::set`s: a rule indexed twice under a name is evaluated once.) -/
def indexedOn (w : World) (rules : Rules) (t : Val) : List Outcome :=
  ((rules.filter fun p => tgtOf t == some p.2.tgt && (targetedNames p.2).isNone).flatMap
      fun p => evalRule w false p.1 p.2 t)
  ++ ((rules.filter fun p => tgtOf t == some p.2.tgt &&
        (match targetedNames p.2 with | some ns => ns.contains t | none => false)).flatMap
      fun p => evalRule w true p.1 p.2 t)

def plainOutcomes (w : World) (rules : Rules) (inv : Inventory) : List Outcome :=
  (allTargets inv).flatMap (plainOn w rules)

/-- `ConfigItem::CommitNewItems` fans `CreateChildObjects` out over all committed hosts/services
    (configitem.cpp:559-592). -/
def indexedOutcomes (w : World) (rules : Rules) (inv : Inventory) : List Outcome :=
  (allTargets inv).flatMap (indexedOn w rules)

inductive LoadResult
  | rejected
  | accepted (objs : List Created)
  deriving DecidableEq, Repr

def Outcome.isError : Outcome → Bool
  | .error => true
  | _ => false

def Outcome.created? : Outcome → Option Created
  | .create c => some c
  | _ => none

/-- Any raised error fails the commit (`upq.HasExceptions()`, configitem.cpp:583-584). -/
def loadResult (os : List Outcome) : LoadResult :=
  if os.any Outcome.isError then .rejected else .accepted (os.filterMap Outcome.created?)

def plain (w : World) (rules : Rules) (inv : Inventory) : LoadResult := loadResult (plainOutcomes w rules inv)
def indexed (w : World) (rules : Rules) (inv : Inventory) : LoadResult := loadResult (indexedOutcomes w rules inv)

/-! ### the cascade: services created by `apply Service` are targets of the `to Service` rules

  `ConfigItem::CommitNewItems` commits the generated items recursively (configitem.cpp:586-588): the created
  services get their own `CreateChildObjects` round.  `apply Service` only targets hosts, so one extra round
  suffices; the hosts are not evaluated again in it.  Evaluating every rule on the extended inventory yields
  the union of both rounds (the host outcomes do not depend on the services). -/

/-- the (host, short name) pairs of the services an outcome list created -/
def createdServices (os : List Outcome) : List (String × String) :=
  os.filterMap fun o =>
    match o with
    | .create c => if c.src = .service then some (targetHostName c.target, c.name) else none
    | _ => none

def extend (inv : Inventory) (os : List Outcome) : Inventory :=
  { hosts := inv.hosts, services := inv.services ++ createdServices os }

/-- a whole configuration load with every filter evaluated -/
def plainFull (w : World) (rules : Rules) (inv : Inventory) : LoadResult :=
  plain w rules (extend inv (plainOutcomes w rules inv))

/-- a whole configuration load as the code does it -/
def indexedFull (w : World) (rules : Rules) (inv : Inventory) : LoadResult :=
  indexed w rules (extend inv (indexedOutcomes w rules inv))

/-! ### the same configuration committed in two stages

  The rule registry (`ApplyRule::m_Rules`) outlives a commit: hosts and services committed later in the same process
  (`ConfigObjectUtility::CreateObject` → `ConfigItem::CommitItems` with an ActivationContext of its own →
  `CreateChildObjects` → `EvaluateApplyRules`, configitem.cpp:559-592,610) are evaluated against ALL rules, regular and
  indexed, exactly like the objects of the first commit.  `ApplyRule::CheckMatches` (applyrule.cpp:153-181) at the end of
  every commit only reports rules without a match; it does not change the registry. -/

/-- the hosts (with all their services) and the single services that are committed in the second stage -/
structure Late where
  hosts : List String
  services : List (String × String)

def Late.host (l : Late) (h : String) : Bool := l.hosts.contains h
def Late.service (l : Late) (p : String × String) : Bool := l.hosts.contains p.1 || l.services.contains p

def earlyInv (inv : Inventory) (l : Late) : Inventory :=
  { hosts := inv.hosts.filter fun h => !l.host h, services := inv.services.filter fun p => !l.service p }

def lateInv (inv : Inventory) (l : Late) : Inventory :=
  { hosts := inv.hosts.filter l.host, services := inv.services.filter l.service }

/-- every outcome of one whole commit (both rounds of the cascade) of the objects `inv` -/
def indexedFullOutcomes (w : World) (rules : Rules) (inv : Inventory) : List Outcome :=
  indexedOutcomes w rules (extend inv (indexedOutcomes w rules inv))

/-- two commits against the same rule registry; an error in either stage is a rejection -/
def indexedStaged (w : World) (rules : Rules) (inv : Inventory) (l : Late) : LoadResult :=
  loadResult (indexedFullOutcomes w rules (earlyInv inv l) ++ indexedFullOutcomes w rules (lateInv inv l))

/-! ### the same configuration written in another order

  What the harness's permuted variant loads: the rules in reverse order (a `to Service` rule may precede the
  `apply Service` rule that creates its targets), each with its statements in reverse order, the services and the hosts
  in reverse order. -/

def permRules (rules : Rules) : Rules := (rules.map fun p => (p.1, p.2.revStmts)).reverse

def permInv (inv : Inventory) : Inventory := { hosts := inv.hosts.reverse, services := inv.services.reverse }

/-! ## API queries (lib/remote/filterutility.cpp:272-336) -/

/-- the navigation fields today: those of Checkable (checkable.ti:30-51,182), for a Service also `host`
    (service.ti:44) -/
def defaultNavNames : TgtType → List String
  | .host => ["check_command", "check_period", "event_command", "command_endpoint"]
  | .service => ["check_command", "check_period", "event_command", "command_endpoint", "host"]

def lcName : TgtType → String
  | .host => "host"
  | .service => "service"

def tgtOfD (t : Val) : TgtType := match t with
  | .service _ _ => .service
  | _ => .host

/-- what a navigation field joins; a Service's `host` is its host (the one join the property relies on) -/
def navVal (w : World) (t : Val) (n : String) : Val :=
  match t with
  | .service _ _ => if n = "host" then hostOf t else w.nav t n
  | _ => w.nav t n

/-- The namespace `FilterUtility::EvaluateFilter` evaluates a user filter in (filterutility.cpp:84-118,
    342-350): `filter_vars` first, then `obj`, the lower-cased type name, the navigation fields; the later
    ones overwrite. Globals behind. -/
def apiVars (w : World) (fvars : List (String × Val)) (t : Val) : String → Option Val :=
  bindAll ((w.navNames (tgtOfD t)).map fun n => (n, navVal w t n))
    (bind (lcName (tgtOfD t)) t (bind "obj" t (bindAll fvars w.globals)))

def apiEnv (w : World) (fvars : List (String × Val)) (t : Val) : Env :=
  { vars := apiVars w fvars t, other := w.other t .empty .empty, field := w.field }

/-- `filter_vars` as the `constants` argument of the recogniser: absent key ⇒ no dictionary. -/
def apiConsts : Option (List (String × Val)) → Consts
  | none => none
  | some l => some (bindAll l fun _ => none)

/-- Evaluating the filter on every object of the type (`provider->FindTargets`, filterutility.cpp:327-329);
    `none`: some evaluation raised. -/
def apiSlow (w : World) (fvars : Option (List (String × Val))) (ty : TgtType) (e : Expr) (inv : Inventory) :
    Option (List Val) :=
  (targets inv ty).foldr (fun t acc =>
    match evalFilter (apiEnv w (fvars.getD []) t) e, acc with
    | some true, some l => some (t :: l)
    | some false, some l => some l
    | _, _ => none) (some [])

/-- the names `FilterUtility::EvaluateFilter` binds for a target of the type -/
def apiBound (w : World) (ty : TgtType) : List String := ["obj", lcName ty] ++ w.navNames ty

/-- `FilterVarsCollideWithTarget` (filterutility.cpp:119-141, commit 77a9c63): a `filter_vars` key that evaluation
    overwrites with the target is not a constant. -/
def fvarsCollide (w : World) (ty : TgtType) : Option (List (String × Val)) → Bool
  | none => false
  | some l => l.any fun p => (apiBound w ty).contains p.1

/-- `FilterUtility::GetFilterTargets` for `{type, filter, filter_vars}` with the default provider and no
    permission filter (filterutility.cpp:296-360): unless a filter var collides, recognised filters are answered
    from the name index — one entry per named object that exists, in the order (and multiplicity) of the
    filter's disjuncts. -/
def apiTargets (w : World) (fvars : Option (List (String × Val))) (ty : TgtType) (e : Expr) (inv : Inventory) :
    Option (List Val) :=
  if fvarsCollide w ty fvars then apiSlow w fvars ty e inv else
  match ty with
  | .host =>
    match getTargetHosts (apiConsts fvars) e with
    | some names => some ((names.map Val.host).filter fun t => (targets inv .host).contains t)
    | none => apiSlow w fvars ty e inv
  | .service =>
    match getTargetServices (apiConsts fvars) e with
    | some names => some ((names.map fun p => Val.service p.1 p.2).filter fun t => (targets inv .service).contains t)
    | none => apiSlow w fvars ty e inv

/-! ### queries of an ApiUser whose permission carries a filter (filterutility.cpp:143-166,362-384)

  `EvaluatePermissionFilter` runs before the user's filter on every object that is looked at — in `FilteredAddTarget`
  for evaluated filters, in the loop over the looked-up objects for the fast path.  Which objects the permission filter
  admits (`perm`; `none`: it raises on that object, which fails the whole query) is an input: the harness evaluates it
  per object.  An object the permission rejects is never handed to the user's filter (so an error of the user's filter
  on it does not surface). -/

/-- `provider->FindTargets(type, FilteredAddTarget …)` with a permission filter -/
def apiSlowP (w : World) (fvars : Option (List (String × Val))) (ty : TgtType) (e : Expr) (inv : Inventory)
    (perm : Val → Option Bool) : Option (List Val) :=
  (targets inv ty).foldr (fun t acc =>
    match perm t with
    | none => none
    | some false => acc
    | some true =>
      match evalFilter (apiEnv w (fvars.getD []) t) e, acc with
      | some true, some l => some (t :: l)
      | some false, some l => some l
      | _, _ => none) (some [])

/-- the loop over the looked-up objects (filterutility.cpp:362-368): an object is kept when the permission filter
    admits it; the filter raising on one of them fails the query -/
def permFilter (perm : Val → Option Bool) : List Val → Option (List Val)
  | [] => some []
  | t :: ts =>
    match perm t, permFilter perm ts with
    | some true, some l => some (t :: l)
    | some false, some l => some l
    | _, _ => none

/-- `FilterUtility::GetFilterTargets` for a user with a permission filter: the looked-up objects pass
    `EvaluatePermissionFilter` one by one (filterutility.cpp:362-368) -/
def apiTargetsP (w : World) (fvars : Option (List (String × Val))) (ty : TgtType) (e : Expr) (inv : Inventory)
    (perm : Val → Option Bool) : Option (List Val) :=
  if fvarsCollide w ty fvars then apiSlowP w fvars ty e inv perm else
  match ty with
  | .host =>
    match getTargetHosts (apiConsts fvars) e with
    | some names => permFilter perm ((names.map Val.host).filter fun t => (targets inv .host).contains t)
    | none => apiSlowP w fvars ty e inv perm
  | .service =>
    match getTargetServices (apiConsts fvars) e with
    | some names =>
      permFilter perm ((names.map fun p => Val.service p.1 p.2).filter fun t => (targets inv .service).contains t)
    | none => apiSlowP w fvars ty e inv perm

/-- a permission filter that raises on no object -/
def totalPerm (p : Val → Bool) : Val → Option Bool := fun t => some (p t)

/-- the objects the permission filter admits: what a restricted user's queries range over -/
def restrictInv (inv : Inventory) (perm : Val → Bool) : Inventory :=
  { hosts := inv.hosts.filter fun h => perm (.host h), services := inv.services.filter fun p => perm (.service p.1 p.2) }

/-! ### what the HTTP handlers make of the target list

  `ObjectQueryHandler` (objectqueryhandler.cpp:157-196), `ActionsHandler` (actionshandler.cpp:50-100), and likewise
  `ModifyObjectHandler` / `DeleteObjectHandler`, walk the vector `GetFilterTargets` returned and produce one entry of
  `results` per element: an object that is in the vector twice is listed / acted upon twice. -/

/-- `GET /v1/objects/<type>`: the number of `results`; `none`: 404 (the filter raised) -/
def queryResults (l : Option (List Val)) : Option Nat := l.map List.length

/-- `POST /v1/actions/<action>`: the number of `results` = invocations of the action; `none`: 404 (the filter raised
    or no object was found, actionshandler.cpp:58-70) -/
def actionResults (l : Option (List Val)) : Option Nat :=
  match l with
  | none => none
  | some [] => none
  | some l => some l.length

end Icinga.C16

/-
  C16 — the property as an executable predicate over what was *observed*.

  properties.jsonl, C16: "An apply rule instantiates its object on exactly those targets for which the
  assign expression is true and the ignore expression is not - once per element of its `for` set - with the
  target object in scope, and on no other target.  The set of created objects and their attributes does not
  depend on the internal fast path for filters that only compare host/service names, on the order of rules
  and objects, or on parallel evaluation, and the same holds for API queries whose filter takes that fast
  path."

  Observed for one configuration: the objects that exist after loading it as written (`plain1`), after
  loading it with every `assign where F` rewritten to `(F) && true` — which no recogniser accepts — (`wrap1`),
  both again with 16 commit threads, and both again with the text permuted (`perm1`, `permWrap1`: rules in
  reverse order, the assign/ignore statements inside each rule in reverse order, objects in reverse order).
  Observed for one API query: the objects returned for the filter as written (`fast`) and for `(F) && true`
  (`slow`), and how many entries `GetFilterTargets` returned and the object-query and action handlers produced
  for each of the two.

  Also observed: the objects that exist after committing the configuration in two stages (`late1`: some hosts and
  services are committed after the rules and the other objects, in the same process), and API queries issued by an
  ApiUser whose permission carries a filter (`specApiPerm`).

  "the assign expression is true and the ignore expression is not" speaks of the whole rule: which statement is
  written first does not enter (`matchDecl` looks at the two sets of expressions).

  The predicate never runs the model's `indexed`/`plain`/`apiTargets`; it uses only the meaning of the filter
  language (`eval`) to say which (rule, target, instance) triples *match*, written as the property says it:
  some `assign where` is true and no `ignore where` is.  Where that meaning is undefined (an evaluation
  raises) the property is silent about *which* objects exist — but not about fast-path independence.
-/
import IcingaModel.C16.Model

namespace Icinga.C16

/-- What is observed of one created object. -/
structure ObjObs where
  src : SrcType
  /-- the full object name -/
  name : String
  /-- `vars.k` / `vars.v`: the loop variables as the rule body saw them (`empty`: not set) -/
  k : Val
  v : Val
  /-- `vars.hn` / `vars.sn`: `host.name` / `service.name` as the rule body saw them, when it recorded them -/
  hn : Option String
  sn : Option String
  deriving DecidableEq, Repr

/-- `none`: the configuration was rejected. -/
abbrev Obs := Option (List ObjObs)

structure LoadObs where
  plain1 : Obs
  wrap1 : Obs
  plain16 : Option Obs := none      -- `none`: not run
  wrap16 : Option Obs := none
  /-- the permuted text (rules, statements inside the rules, objects in another order), as written / wrapped -/
  perm1 : Option Obs := none
  permWrap1 : Option Obs := none
  /-- the configuration committed in two stages (some hosts/services after everything else, same process) -/
  late1 : Option Obs := none

inductive Clause
  | fastpathIndependent | parallelIndependent | noMissingObject | noExtraObject | rejectedThoughDefined
  | targetInScope | apiFastpathIndependent | apiNoMissing | apiNoExtra | apiRejectedThoughDefined
  | orderIndependent | apiMultiplicityIndependent | stageIndependent
  deriving DecidableEq, Repr

def Clause.name : Clause → String
  | .fastpathIndependent => "fastpath_independent"
  | .parallelIndependent => "parallel_independent"
  | .noMissingObject => "no_missing_object"
  | .noExtraObject => "no_extra_object"
  | .rejectedThoughDefined => "rejected_though_defined"
  | .targetInScope => "target_in_scope"
  | .apiFastpathIndependent => "api_fastpath_independent"
  | .apiNoMissing => "api_no_missing"
  | .apiNoExtra => "api_no_extra"
  | .apiRejectedThoughDefined => "api_rejected_though_defined"
  | .orderIndependent => "order_independent"
  | .apiMultiplicityIndependent => "api_multiplicity_independent"
  | .stageIndependent => "commit_stage_independent"

/-- the same *set* -/
def sameSet {α : Type} [BEq α] (a b : List α) : Bool := a.all b.contains && b.all a.contains

def sameObs {α : Type} [BEq α] : Option (List α) → Option (List α) → Bool
  | none, none => true
  | some a, some b => sameSet a b
  | _, _ => false

/-! ### which triples match, declaratively -/

/-- "the assign expression is true and the ignore expression is not"; `none`: undefined (something raises). -/
def matchDecl (env : Env) (r : Rule) : Option Bool :=
  let as := r.assign.map (evalFilter env)
  let is := r.ignore.map (evalFilter env)
  if as.any (· == none) || is.any (· == none) then none
  else some ((r.assign.isEmpty || as.any (· == some true)) && !(is.any (· == some true)))

/-- What is observed of a created object when everything is as the property demands: `hn`/`sn` are what
    `host.name`/`service.name` must have been in the rule body ("with the target object in scope"). -/
def render (c : Created) : ObjObs :=
  { src := c.src, name := targetName c.target ++ "!" ++ c.name, k := c.k, v := c.v
    hn := some (targetHostName c.target), sn := targetServiceName c.target }

/-- The object the property expects for a matching triple. -/
def expectedObj (r : Rule) (t : Val) (i : Inst) : ObjObs := render (mkCreated 0 r t i)

/-- same object: type, name and loop variables -/
def coreEq (e o : ObjObs) : Bool := e.src == o.src && e.name == o.name && e.k == o.k && e.v == o.v

/-- where the body recorded `host.name` / `service.name` they are the target's -/
def scopeEq (e o : ObjObs) : Bool := (o.hn.isNone || o.hn == e.hn) && (o.sn.isNone || o.sn == e.sn)

/-- Per (rule, target, instance): `none` undefined, `some .skip` no object, `some (.create c)` object `c`. -/
def declInst (w : World) (id : Nat) (r : Rule) (t : Val) (i : Inst) : Option Outcome :=
  (matchDecl (instEnv w r t i) r).map fun b => if b then .create (mkCreated id r t i) else .skip

def declRule (w : World) (id : Nat) (r : Rule) (t : Val) : List (Option Outcome) :=
  match instances r t with
  | none => [none]
  | some is => is.map (declInst w id r t)

def declAll (w : World) (rules : Rules) (inv : Inventory) : List (Option Outcome) :=
  rules.flatMap fun p => (targets inv p.2.tgt).flatMap fun t => declRule w p.1 p.2 t

def unwrap (d : List (Option Outcome)) : List Outcome := d.filterMap id

/-- Which objects the property expects, in two rounds: the services expected from the `apply Service` rules
    are targets of the `to Service` rules.  `none`: the property is silent about which objects exist. -/
def expectedCreated (w : World) (rules : Rules) (inv : Inventory) : Option (List Created) :=
  let d₁ := declAll w rules inv
  if !d₁.all Option.isSome then none else
  let d₂ := declAll w rules (extend inv (unwrap d₁))
  if !d₂.all Option.isSome then none else some ((unwrap d₂).filterMap Outcome.created?)

def expectedObjs (w : World) (rules : Rules) (inv : Inventory) : Option (List ObjObs) :=
  (expectedCreated w rules inv).map fun l => l.map render

/-- The generated Dependency bodies all name the host `depParent` as parent; a Dependency on that host
    itself is a self-dependency, which the cycle check (property C07) rejects — there C16 is silent.
    (Used by the driver as `silentIf`.) -/
def selfDependency (depParent : String) (exp : List ObjObs) : Bool :=
  exp.any fun o => o.src == .dependency && o.name.startsWith (depParent ++ "!") &&
    (o.name.splitOn "!").length == 2

def checkExact (exp : List ObjObs) (obs : Obs) : Option Clause :=
  match obs with
  | none => some .rejectedThoughDefined
  | some l =>
    if !(exp.all fun e => l.any (coreEq e)) then some .noMissingObject
    else if !(l.all fun o => exp.any fun e => coreEq e o) then some .noExtraObject
    else if !(l.all fun o => exp.any fun e => coreEq e o && scopeEq e o) then some .targetInScope
    else none

/-- The property on the observations of one configuration; `none` = holds, else the first violated clause. -/
def specLoad (w : World) (rules : Rules) (inv : Inventory) (silentIf : List ObjObs → Bool)
    (o : LoadObs) : Option Clause :=
  if !sameObs o.plain1 o.wrap1 then some .fastpathIndependent
  else if !((o.plain16.map (sameObs o.plain1)).getD true && (o.wrap16.map (sameObs o.wrap1)).getD true) then
    some .parallelIndependent
  -- "on exactly those targets for which the assign expression is true": a target gets its objects whenever it is
  -- committed — together with the rules or later in the same process; the per-target evaluations are the same
  else if !((o.late1.map (sameObs o.plain1)).getD true) then some .stageIndependent
  else match expectedObjs w rules inv with
    | none => none
    | some exp =>
      -- where every assign/ignore expression has a value on every (target, instance) — so that which statement is
      -- written first cannot hide an error of a later one — the order of rules, statements and objects is immaterial
      if !((o.perm1.map (sameObs o.plain1)).getD true && (o.permWrap1.map (sameObs o.wrap1)).getD true) then
        some .orderIndependent
      else if silentIf exp then none
      else match checkExact exp o.plain1 with
        | some c => some c
        | none => checkExact exp o.wrap1

/-! ### API queries -/

/-- How many entries came back (with multiplicity), for the filter as written (`…f`) and wrapped (`…s`). -/
structure ApiCounts where
  /-- `FilterUtility::GetFilterTargets`: length of the returned vector; `none`: it raised -/
  nf : Option Nat
  ns : Option Nat
  /-- `GET /v1/objects/<type>` through `HttpHandler::ProcessRequest`: entries of `results`; `none`: status ≠ 200 -/
  qf : Option Nat
  qs : Option Nat
  /-- `POST /v1/actions/reschedule-check`: entries of `results` (= invocations of the action); `none`: status ≠ 200 -/
  af : Option Nat
  asl : Option Nat
  deriving DecidableEq, Repr

structure ApiObs where
  /-- returned object names (duplicates removed by the observer); `none`: the query raised -/
  fast : Option (List Val)
  slow : Option (List Val)
  /-- `none`: not observed -/
  counts : Option ApiCounts := none

/-- The objects the filter is true of; `none`: undefined for some object. -/
def apiExpected (w : World) (fvars : Option (List (String × Val))) (ty : TgtType) (e : Expr) (inv : Inventory) :
    Option (List Val) :=
  let d := (targets inv ty).map fun t => (evalFilter (apiEnv w (fvars.getD []) t) e).map fun b => (t, b)
  if d.any (· == none) then none
  else some (d.filterMap fun x => match x with | some (t, true) => some t | _ => none)

/-- the set-valued reading: the same set of objects with and without the fast path, and exactly the objects the
    filter is true of -/
def specApiSets (w : World) (fvars : Option (List (String × Val))) (ty : TgtType) (e : Expr) (inv : Inventory)
    (o : ApiObs) : Option Clause :=
  if !sameObs o.fast o.slow then some .apiFastpathIndependent
  else match apiExpected w fvars ty e inv with
    | none => none
    | some exp =>
      match o.slow with
      | none => some .apiRejectedThoughDefined
      | some l =>
        if !(exp.all l.contains) then some .apiNoMissing
        else if !(l.all exp.contains) then some .apiNoExtra
        else none

/-- "the same holds for API queries whose filter takes that fast path", for what a client sees of a query: how often an
    object is listed by the object query and how often an action is run on it does not depend on the fast path -/
def specApiMult (o : ApiObs) : Option Clause :=
  match o.counts with
  | none => none
  | some c => if c.nf == c.ns && c.qf == c.qs && c.af == c.asl then none else some .apiMultiplicityIndependent

def specApi (w : World) (fvars : Option (List (String × Val))) (ty : TgtType) (e : Expr) (inv : Inventory)
    (o : ApiObs) : Option Clause :=
  match specApiSets w fvars ty e inv o with
  | some c => some c
  | none => specApiMult o

/-- The same for an ApiUser whose permission carries a filter that admits the objects `perm`: the query ranges over the
    admitted objects only — the same set with and without the fast path, exactly the admitted objects the filter is true
    of (the filter's value on a rejected object is immaterial), the same multiplicities.  `perm t = none`: the permission
    filter raises on `t`. -/
def specApiPerm (w : World) (fvars : Option (List (String × Val))) (ty : TgtType) (e : Expr) (inv : Inventory)
    (perm : Val → Option Bool) (o : ApiObs) : Option Clause :=
  if (targets inv ty).all fun t => (perm t).isSome then specApi w fvars ty e (restrictInv inv fun t => perm t == some true) o
  -- the permission filter raises on some object: the property is silent about WHICH objects are returned, not about
  -- fast-path independence
  else if !sameObs o.fast o.slow then some .apiFastpathIndependent
  else none

end Icinga.C16

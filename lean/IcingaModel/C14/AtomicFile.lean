/-
  C14 (c) — atomic file replacement: a small file-system model and the system-call sequence that
  `AtomicFile` issues (lib/base/atomic-file.cpp:18-123; used by `ConfigObject::DumpObjects`
  configobject.cpp:472-500, `IcingaApplication::DumpModifiedAttributes` icingaapplication.cpp:168-192 and
  `ConfigObjectUtility::CreateObjectConfig`/`AtomicFile::Write`).  Core Lean only.

  The kernel is a parameter (DESIGN.md §1): `rename(2)` replaces the target atomically; data covered by
  an `fsync` that returned before the `rename` is on disk whenever the `rename` is; directory
  operations reach the disk in the order they were issued.  Everything else is adversarial: after a
  crash a file with unsynced writes may hold *anything*, and the directory may be in any of the states
  it went through since the last quiescent point.  A process kill (what the harness injects) is the
  special case "current directory, current contents".
-/
import IcingaModel.C20.Model

namespace Icinga.C14

open Icinga.C20 (Bytes)

abbrev FName := List Char
abbrev Ino := Nat

/-- The calls `AtomicFile` makes on the temp file and the target. -/
inductive Sys
  | mkstemp (tmp : FName) (ino : Ino)    -- atomic-file.cpp:32: creates `tmp` (O_EXCL) with a fresh, empty inode
  | chmod (tmp : FName) (mode : Nat)     -- :53
  | write (ino : Ino) (bs : Bytes)       -- the stream buffer's flushes (`af << content`, :93 `flush()`)
  | fsync (ino : Ino)                    -- :107
  | close (ino : Ino)                    -- :118 `::close(m_Fd)` (the stream was opened never_close_handle, :47-51)
  | rename (src dst : FName)             -- :121 Utility::RenameFile
  | unlink (name : FName)                -- :67/:87 (error paths, destructor) and the glob in DumpObjects :467
  deriving Repr, DecidableEq

abbrev Dir := List (FName × Ino)

structure FS where
  dir : Dir                    -- the directory as running processes see it
  past : List Dir              -- the directory before each directory operation since the last quiescent point
  data : List (Ino × Bytes)    -- file contents as running processes see them
  dirty : List Ino             -- inodes holding writes no completed fsync covers
  deriving Repr, DecidableEq

def dirLookup (d : Dir) (n : FName) : Option Ino :=
  match d with
  | [] => none
  | (m, i) :: r => if n = m then some i else dirLookup r n

def dataLookup (d : List (Ino × Bytes)) (i : Ino) : Option Bytes :=
  match d with
  | [] => none
  | (j, b) :: r => if i = j then some b else dataLookup r i

def dirRemove (d : Dir) (n : FName) : Dir := d.filter (fun e => !(e.1 = n))

def dataAppend (d : List (Ino × Bytes)) (i : Ino) (bs : Bytes) : List (Ino × Bytes) :=
  match d with
  | [] => []                                   -- write to an inode that does not exist: EBADF, nothing happens
  | (j, b) :: r => if i = j then (j, b ++ bs) :: r else (j, b) :: dataAppend r i bs

def step (s : FS) : Sys → FS
  | .mkstemp tmp ino =>
    { s with dir := (tmp, ino) :: dirRemove s.dir tmp, past := s.dir :: s.past, data := (ino, []) :: s.data }
  | .chmod _ _ => s
  | .write ino bs => { s with data := dataAppend s.data ino bs, dirty := ino :: s.dirty }
  | .fsync ino => { s with dirty := s.dirty.filter (fun i => !(i = ino)) }
  | .close _ => s
  | .rename src dst =>
    match dirLookup s.dir src with
    | none => s                                -- ENOENT
    | some i => { s with dir := (dst, i) :: dirRemove (dirRemove s.dir src) dst, past := s.dir :: s.past }
  | .unlink n => { s with dir := dirRemove s.dir n, past := s.dir :: s.past }

def run (ops : List Sys) (s : FS) : FS := ops.foldl step s

/-- atomic-file.cpp:18-23 / 25-60 + 91-123: the calls of one successful `AtomicFile` life cycle writing
    `chunks` (one `write` per flush of the stream buffer). -/
def atomicWrite (path tmp : FName) (ino : Ino) (mode : Nat) (chunks : List Bytes) : List Sys :=
  [Sys.mkstemp tmp ino, Sys.chmod tmp mode] ++ chunks.map (Sys.write ino) ++
    [Sys.fsync ino, Sys.close ino, Sys.rename tmp path]

/-- What a reader of `path` finds (`none` = no such file) given a directory and file contents. -/
def readFile (d : Dir) (content : Ino → Option Bytes) (path : FName) : Option Bytes :=
  match dirLookup d path with
  | none => none
  | some i => content i

/-- What the loader sees when nothing crashed. -/
def readNow (s : FS) (path : FName) : Option Bytes := readFile s.dir (dataLookup s.data) path

/-- The states the disk may be found in after a crash of `s`: the directory is the current one or one
    of the earlier ones; every inode without unsynced writes holds exactly its data; inodes with unsynced
    writes hold whatever `content` says. -/
def CrashView (s : FS) (d : Dir) (content : Ino → Option Bytes) : Prop :=
  (d = s.dir ∨ d ∈ s.past) ∧ ∀ i, i ∉ s.dirty → content i = dataLookup s.data i

/-! ## The protocol as the harness observes it -/

/-- Kinds of intercepted calls on the line protocol; `onTarget` = the call named the final path (for
    `rename`: as destination). -/
inductive SysKind
  | mkstemp | chmod | write | fsync | close | rename | unlink | openat
  deriving Repr, DecidableEq

def SysKind.ofString? : String → Option SysKind
  | "mkstemp" => some .mkstemp | "chmod" => some .chmod | "write" => some .write | "fsync" => some .fsync
  | "close" => some .close | "rename" => some .rename | "unlink" => some .unlink | "openat" => some .openat
  | _ => none

/-- A logged call: kind and whether it touched the target path itself (rather than the temp file). -/
structure SysEv where
  kind : SysKind
  onTarget : Bool
  deriving Repr, DecidableEq

/-- Are all writes of the temp-file phase covered by a later fsync?  (`write` makes dirty, `fsync` clean.) -/
def syncedAtEnd (pre : List SysEv) : Bool :=
  !(pre.foldl (fun dirty e => if e.kind == .write then true else if e.kind == .fsync then false else dirty) false)

/-- The protocol, as loosely as the crash theorem allows (`crash_old_or_new_conforming`): after removing
    stale temp files (`unlink*`, configobject.cpp:467) a temp file is created; then any calls on the temp
    file only — `chmod`/`fchmod`, any number of `write`s and `fsync`s, `close` — such that every write is
    followed by an fsync before the rename; the single `rename` onto the target is the only call that names
    the target; after it only `fsync`/`close` may follow.  Rejected: rename before the data is synced,
    any write/open/unlink/chmod on the target itself, a second rename. -/
def protocolWord (evs : List SysEv) : Bool :=
  let evs := evs.dropWhile (fun e => e.kind == .unlink && !e.onTarget)
  match evs with
  | ⟨.mkstemp, false⟩ :: rest =>
    let pre := rest.takeWhile (fun e => !(e.kind == .rename))
    match rest.dropWhile (fun e => !(e.kind == .rename)) with
    | ⟨.rename, true⟩ :: after =>
      pre.all (fun e => !e.onTarget && (e.kind == .chmod || e.kind == .write || e.kind == .fsync || e.kind == .close)) &&
        syncedAtEnd pre &&
        after.all (fun e => !e.onTarget && (e.kind == .fsync || e.kind == .close))
    | _ => false
  | _ => false

/-- Index (0-based) of the `rename` in a logged word, if any. -/
def renameIndex (evs : List SysEv) : Option Nat :=
  let i := (evs.takeWhile (fun e => !(e.kind == .rename))).length
  if i < evs.length then some i else none

end Icinga.C14

/-
  C14 (b) — the state file: executable transcription of `Serialize`/`Deserialize`
  (lib/base/serializer.cpp:62-331) on value trees and of `ConfigObject::DumpObjects` /
  `RestoreObject(s)` (lib/base/configobject.cpp:461-582), composed with C20's JSON codec and netstring
  framing.  Core Lean only.

  An object with reflection type `T` appears in a value tree in its serialised form: the dictionary of
  its selected fields plus `"type": T` (serializer.cpp:149-190).  `Deserialize` outside safe mode turns
  *every* dictionary with a `type` key back into an object (:327-330, :222-267): type not registered
  ⇒ a null pointer (:234-235), i.e. Empty.  For a registered type the model keeps the dictionary (with
  deserialised members): that is what re-serialising the instantiated object yields **provided the
  dictionary has exactly that type's fields**, which holds for everything `Serialize` emitted itself
  (a `CheckResult` inside `last_check_result`).  A *user* dictionary that happens to name a registered
  type (`{type = "Host"}`) is instantiated as that type; this is outside the tree model and the
  generator's `type` values never name a registered type (the harness reports which names are
  registered as the oracle `known`).
-/
import IcingaModel.C14.Model
import IcingaModel.C20.Model
import IcingaModel.C20.Limit

namespace Icinga.C14

open Icinga.C20 (JValue NumCodec Bytes jsonEncode jsonDecode jsonDecodeL nsEncode nsEncodeAll)

def typeKey : Key := ['t', 'y', 'p', 'e']
def nameKey : Key := ['n', 'a', 'm', 'e']
def updateKey : Key := ['u', 'p', 'd', 'a', 't', 'e']

/-! ## Serialize on trees (serializer.cpp:70-121, 269-292): a deep copy -/

mutual
def serialize {N : Type} : JValue N → JValue N
  | .arr xs => .arr (serializeL xs)                 -- SerializeArray :70-96
  | .obj kvs => .obj (serializeM kvs)               -- SerializeDictionary :98-121
  | .null => .null                                  -- :271-272
  | .bool b => .bool b
  | .num n => .num n
  | .str s => .str s
def serializeL {N : Type} : List (JValue N) → List (JValue N)
  | [] => []
  | x :: xs => serialize x :: serializeL xs
def serializeM {N : Type} : Dict N → Dict N
  | [] => []
  | (k, v) :: r => (k, serialize v) :: serializeM r
end

/-! ## Deserialize (serializer.cpp:192-220, 306-331), `safe_mode = false`, no target object -/

mutual
def deserialize {N : Type} (known : Key → Bool) : JValue N → JValue N
  | .arr xs => .arr (deserializeL known xs)         -- DeserializeArray :192-205
  | .obj kvs =>
    if dHas typeKey kvs then                        -- :327-330 → DeserializeObject(nullptr, dict)
      match dGet? typeKey kvs with
      | some (.str s) =>
        if known s then .obj (deserializeM known kvs)   -- object of that type; see the header
        else .null                                  -- :232-235 `Type::GetByName` fails → null pointer
      | _ => .null                                  -- a non-string converts to text that names no type
    else .obj (deserializeM known kvs)              -- DeserializeDictionary :207-220
  | .null => .null                                  -- :313-314
  | .bool b => .bool b
  | .num n => .num n
  | .str s => .str s
def deserializeL {N : Type} (known : Key → Bool) : List (JValue N) → List (JValue N)
  | [] => []
  | x :: xs => deserialize known x :: deserializeL known xs
def deserializeM {N : Type} (known : Key → Bool) : Dict N → Dict N
  | [] => []
  | (k, v) :: r => (k, deserialize known v) :: deserializeM known r
end

/-! ## Objects in the state file -/

/-- A config object as the state file sees it: reflection type, name, and the fields selected by
    the attribute mask (FAState for the state file) in the type's field order.  No field is named
    `type` (serializer.cpp:170-171 skips it). -/
structure SObj (N : Type) where
  typeName : Key
  name : Key
  fields : Dict N

instance {N : Type} [DecidableEq N] : DecidableEq (SObj N) := fun a b =>
  match a, b with
  | ⟨t1, n1, f1⟩, ⟨t2, n2, f2⟩ =>
    if h : t1 = t2 ∧ n1 = n2 ∧ f1 = f2 then isTrue (by rw [h.1, h.2.1, h.2.2])
    else isFalse (by intro e; cases e; exact h ⟨rfl, rfl, rfl⟩)

/-- `Serialize(object, attributeTypes)` (serializer.cpp:149-190). -/
def serializeObject {N : Type} (o : SObj N) : JValue N :=
  .obj (serializeM o.fields ++ [(typeKey, .str o.typeName)])

/-- configobject.cpp:487-491. -/
def persistent {N : Type} (o : SObj N) : JValue N :=
  .obj [(nameKey, .str o.name), (typeKey, .str o.typeName), (updateKey, serializeObject o)]

/-- One frame of the state file (configobject.cpp:493-495). -/
def frameBody {N : Type} (c : NumCodec N) (o : SObj N) : Bytes := jsonEncode c (persistent o)

/-- What `DumpObjects` writes (configobject.cpp:475-497). -/
def stateFile {N : Type} (c : NumCodec N) (objs : List (SObj N)) : Bytes :=
  nsEncodeAll (objs.map (frameBody c))

/-- The guards of the loop in DeserializeObject (serializer.cpp:246-257) as one predicate: the key is
    non-empty and names a field of the object's type that the mask selects. -/
def fieldAccepted {N : Type} (k : Key) (fields : Dict N) : Bool := !(k = []) && dHas k fields

/-- `DeserializeObject(object, input)` (serializer.cpp:222-267) onto an existing object: every
    accepted key sets its field to the deserialised value (:260).  (SetField throwing, :261-263, is
    not modelled: values are well-typed.) -/
def restoreFields {N : Type} (known : Key → Bool) (fields : Dict N) (upd : Dict N) : Dict N :=
  upd.foldl (fun acc e => if fieldAccepted e.1 acc then dReplace e.1 (deserialize known e.2) acc else acc) fields

/-- `RestoreObject(message)` (configobject.cpp:503-523) for the object the message names, freshly
    created from the configuration (`fresh`).  `none`: the message is not a `{…, "update": {…}}`
    dictionary or is nested deeper than the decoder's limit (the real code throws inside the work queue and the
    object keeps the state it was created with). -/
def restoreMessage {N : Type} (c : NumCodec N) (known : Key → Bool) (fresh : SObj N) (msg : Bytes) :
    Option (SObj N) :=
  match jsonDecodeL c msg with          -- the real JsonDecode refuses documents nested deeper than 1000 (json.cpp:276-283)
  | some (.obj kvs) =>
    match dGet? updateKey kvs with
    | some (.obj upd) => some { fresh with fields := restoreFields known fresh.fields upd }
    | _ => none
  | _ => none

/-! ## The hypothesis of the round trip -/

mutual
/-- Every dictionary with a `type` key in the tree names a registered type by a string. -/
def onlyKnownTypes {N : Type} (known : Key → Bool) : JValue N → Bool
  | .arr xs => onlyKnownTypesL known xs
  | .obj kvs =>
    (if dHas typeKey kvs then
      match dGet? typeKey kvs with
      | some (.str s) => known s
      | _ => false
    else true) && onlyKnownTypesM known kvs
  | _ => true
def onlyKnownTypesL {N : Type} (known : Key → Bool) : List (JValue N) → Bool
  | [] => true
  | x :: xs => onlyKnownTypes known x && onlyKnownTypesL known xs
def onlyKnownTypesM {N : Type} (known : Key → Bool) : Dict N → Bool
  | [] => true
  | (_, v) :: r => onlyKnownTypes known v && onlyKnownTypesM known r
end

/-! ## Typed objects inside values: which dictionaries `Deserialize` turns back into objects

  The tree model above shows an object as `Serialize` shows it (a dictionary with a `type` member) and therefore cannot
  say whether a value that comes back from the state file is an *object* of that type again or a dictionary that
  merely has its members.  The getters can (a `PerfdataValue` inside `performance_data`, the `CheckResult` inside
  `last_check_result`): in the *getter view* of a value an object carries the extra first member `"@object": true`
  (harness `GetterTree`).  `stripTag` is `Serialize` on that view (serializer.cpp:149-190: an object becomes the
  dictionary of its fields plus `type`); `deserializeT` is `Deserialize` producing that view, with the `safe_mode`
  flag of serializer.cpp:192-220, 327-330: in safe mode, or without a `type` member, a dictionary stays a dictionary;
  otherwise it is instantiated (registered type) or becomes Empty.  Arrays and dictionaries pass the flag on to their
  members unchanged (:201, :216) — `ConfigObject::RestoreObject` calls it with `safe_mode = false`
  (configobject.cpp:519), so typed objects come back as objects at any depth. -/

def objectTag : Key := ['@', 'o', 'b', 'j', 'e', 'c', 't']

mutual
/-- `Serialize` on the getter view: the tag disappears. -/
def stripTag {N : Type} : JValue N → JValue N
  | .arr xs => .arr (stripTagL xs)
  | .obj kvs => .obj (stripTagM kvs)
  | v => v
def stripTagL {N : Type} : List (JValue N) → List (JValue N)
  | [] => []
  | x :: xs => stripTag x :: stripTagL xs
def stripTagM {N : Type} : Dict N → Dict N
  | [] => []
  | (k, v) :: r => if k = objectTag then stripTagM r else (k, stripTag v) :: stripTagM r
end

mutual
/-- `Deserialize(value, safe_mode, …)` (serializer.cpp:306-331) into the getter view. -/
def deserializeT {N : Type} (known : Key → Bool) (safe : Bool) : JValue N → JValue N
  | .arr xs => .arr (deserializeTL known safe xs)                 -- DeserializeArray :192-205, `safe_mode` passed on
  | .obj kvs =>
    if safe || !dHas typeKey kvs then .obj (deserializeTM known safe kvs)   -- :327-328 DeserializeDictionary
    else
      match dGet? typeKey kvs with                                -- :329-330 DeserializeObject(nullptr, …)
      | some (.str s) =>
        if known s then .obj ((objectTag, .bool true) :: deserializeTM known safe kvs)   -- :243 Instantiate, :246-264
        else .null                                                -- :234-235
      | _ => .null
  | .null => .null
  | .bool b => .bool b
  | .num n => .num n
  | .str s => .str s
def deserializeTL {N : Type} (known : Key → Bool) (safe : Bool) : List (JValue N) → List (JValue N)
  | [] => []
  | x :: xs => deserializeT known safe x :: deserializeTL known safe xs
def deserializeTM {N : Type} (known : Key → Bool) (safe : Bool) : Dict N → Dict N
  | [] => []
  | (k, v) :: r => (k, deserializeT known safe v) :: deserializeTM known safe r
end

mutual
/-- A getter-view tree as the real objects produce it: a dictionary is either an object — tagged (first member only),
    with a `type` member naming a registered type — or a plain dictionary without a `type` member; no other member is
    called `@object`. -/
def wellTagged {N : Type} (known : Key → Bool) : JValue N → Bool
  | .arr xs => wellTaggedL known xs
  | .obj ((k, v) :: r) =>
    if k = objectTag then
      (match v with | .bool true => true | _ => false) && !dHas objectTag r &&
        (match dGet? typeKey r with
         | some (.str s) => known s
         | _ => false) && wellTaggedM known r
    else !dHas objectTag r && !dHas typeKey ((k, v) :: r) && wellTagged known v && wellTaggedM known r
  | .obj [] => true
  | _ => true
def wellTaggedL {N : Type} (known : Key → Bool) : List (JValue N) → Bool
  | [] => true
  | x :: xs => wellTagged known x && wellTaggedL known xs
def wellTaggedM {N : Type} (known : Key → Bool) : Dict N → Bool
  | [] => true
  | (_, v) :: r => wellTagged known v && wellTaggedM known r
end

mutual
/-- no dictionary in the tree has a member called `@object` (true of everything `Serialize` writes into the state file) -/
def noTagKey {N : Type} : JValue N → Bool
  | .arr xs => noTagKeyL xs
  | .obj kvs => noTagKeyM kvs
  | _ => true
def noTagKeyL {N : Type} : List (JValue N) → Bool
  | [] => true
  | x :: xs => noTagKey x && noTagKeyL xs
def noTagKeyM {N : Type} : Dict N → Bool
  | [] => true
  | (k, v) :: r => !(k = objectTag) && noTagKey v && noTagKeyM r
end

end Icinga.C14

/-
  C14 — the property as executable predicates over *observed* behaviour, at the level of
  properties.jsonl.  Nothing here calls `modify`/`restore`/`deserialize`/`step`; only the tree
  accessors (`getPath`, `dSet`, …) are shared with the models.

  (1) "a modified attribute restored through the API returns exactly to its original value":
      the predicate keeps, for every attribute path that is currently modified, the value found there
      immediately before its first modification (`none` = the path did not exist), and demands that a
      successful restore of that path leaves exactly that value there (absent stays absent).
  (2) "identical values after a stop/start cycle": serialised state+config before = after.
  (3) "the file on disk afterwards is the complete previous or the complete new version, never a
      mixture, truncation or missing file": classification of what the real loader found.
-/
import IcingaModel.C14.Model
import IcingaModel.C20.Limit

namespace Icinga.C14

open Icinga.C20 (JValue)

inductive Clause
  | restoreIdentity   -- a restored attribute does not hold its pre-modification value
  | stateRoundtrip    -- serialised state/config after the restart differs from before
  | crashOldOrNew     -- after a kill the file is neither the complete old nor the complete new version
  | writeLost         -- a write that ran to completion is not what the loader finds
  | modattrLoad       -- modified-attributes.conf does not load at start-up (every runtime modification is lost)
  deriving Repr, DecidableEq

def Clause.name : Clause → String
  | .restoreIdentity => "restoreIdentity" | .stateRoundtrip => "stateRoundtrip"
  | .crashOldOrNew => "crashOldOrNew" | .writeLost => "writeLost" | .modattrLoad => "modattrLoad"

/-! ## (1) modify / restore -/

inductive MOp (N : Type)
  | modify (p : Path) (v : JValue N)
  | restore (p : Path)

/-- For each currently modified path: the value found there immediately before its first
    modification, (a) as it was, (b) with the modifications that were outstanding strictly below the
    path at that moment undone.  Both readings of "its original value" are accepted when
    modifications overlap; they coincide otherwise.  (`none` = the path did not exist.) -/
abbrev Ghost (N : Type) := List (Path × Option (JValue N) × Option (JValue N))

def gLookup {N : Type} (p : Path) : Ghost N → Option (Option (JValue N) × Option (JValue N))
  | [] => none
  | (q, v) :: r => if p = q then some v else gLookup p r

/-- `q` lies strictly below `p`. -/
def strictBelow (p q : Path) : Bool := isPrefix p q && decide (p.length < q.length)

/-- Put a value (or remove the key, for `none`) at a relative path inside a value; paths whose parents
    are missing are left alone. -/
def putIn {N : Type} : Path → Option (JValue N) → JValue N → JValue N
  | [], some v, _ => v
  | [], none, cur => cur
  | [k], ov, .obj kvs =>
    match ov with
    | some v => .obj (dSet k v kvs)
    | none => .obj (dRemove k kvs)
  | k :: k2 :: ks, ov, .obj kvs =>
    match dGet? k kvs with
    | some c => .obj (dSet k (putIn (k2 :: ks) ov c) kvs)
    | none => .obj kvs
  | _ :: _, _, cur => cur

def putPath {N : Type} (fields : Dict N) : Path → Option (JValue N) → Dict N
  | [], _ => fields
  | [f], some v => dSet f v fields
  | [_], none => fields
  | f :: k :: ks, ov =>
    match dGet? f fields with
    | some c => dSet f (putIn (k :: ks) ov c) fields
    | none => fields

/-- One observed operation: `prev`/`now` are the attribute trees before/after, `ok` whether the call
    returned without an exception.  Returns the violated clause (if any) and the new ghost.

    Modify of an unmodified path `p`: remember the value at `p`, as it is and with the still-outstanding
    modifications strictly below `p` undone (those are subsumed by `p` from now on).
    Restore of `p`: if `p` is modified, the value at `p` must be the remembered one; everything at or
    below `p` stops being tracked (what was recorded below lived inside the value that just went away).
    If `p` is not modified, nothing is demanded; modifications below `p` that came back stop being tracked. -/
def specStepM {N : Type} [DecidableEq N] (g : Ghost N) (prev : Dict N) (op : MOp N) (ok : Bool) (now : Dict N) :
    Option Clause × Ghost N :=
  if !ok then (none, g)
  else
    match op with
    | .modify p _ =>
      match gLookup p g with
      | some _ => (none, g)
      | none =>
        let below := g.filter (fun e => strictBelow p e.1)
        let undone := below.reverse.foldl (fun f e => putPath f e.1 e.2.2) prev
        (none, g.filter (fun e => !strictBelow p e.1) ++ [(p, getPath prev p, getPath undone p)])
    | .restore p =>
      match gLookup p g with
      | some (asWas, undone) =>
        ((if getPath now p = asWas ∨ getPath now p = undone then none else some Clause.restoreIdentity),
         g.filter (fun e => !isPrefix p e.1))
      | none =>
        -- `p` itself is not modified; the property does not say whether the modifications below it are restored
        -- along: those whose recorded value is back stop being tracked, the others stay outstanding
        (none, g.filter (fun e => !(strictBelow p e.1 &&
          (decide (getPath now e.1 = e.2.1) || decide (getPath now e.1 = e.2.2)))))

/-- A whole observed case: initial tree and the steps `(op, ok, tree after)`.  First violated clause. -/
def specM {N : Type} [DecidableEq N] : Ghost N → Dict N → List (MOp N × Bool × Dict N) → Option Clause
  | _, _, [] => none
  | g, prev, (op, ok, now) :: rest =>
    match specStepM g prev op ok now with
    | (some c, _) => some c
    | (none, g') => specM g' now rest

/-! ## (2) stop / start -/

def specRoundtrip {N : Type} [DecidableEq N] (before after : JValue N) : Option Clause :=
  if before = after then none else some .stateRoundtrip

/-- State side of the restart (`before`/`after` = `Serialize(object, FAState)`).  The record written for the
    object is `{name, type, update = before}`, one level deeper than `before`; the JSON decoder documents a
    nesting limit of 1000 (json.cpp:276-283, C20) beyond which a document is refused, so nothing is demanded of
    state nested deeper than that. -/
def specRestartState {N : Type} [DecidableEq N] (before after : JValue N) : Option Clause :=
  if Icinga.C20.depth before + 1 > Icinga.C20.jsonMaxNestingDepth then none else specRoundtrip before after

def origAttrKey : Key := "__original_attributes".toList

/-- The outermost original entries: those with no other entry at a proper prefix of their path.  They
    say which attributes are modified and what their original values are; entries below another entry
    are bookkeeping that depends on the order of the modifications and is not compared. -/
def outermost {N : Type} (o : Dict N) : Dict N :=
  o.filter (fun e => !(o.any (fun e' => strictBelow (splitDots e'.1) (splitDots e.1))))

def origEntries {N : Type} : Option (JValue N) → Option (Dict N)
  | none => some []
  | some .null => some []
  | some (.obj kvs) => some kvs
  | some _ => none

/-- Config side of the restart (`before`/`after` = serialised config attributes plus the harness's
    `__original_attributes`): every config attribute has the identical value, and the same outermost
    attributes are recorded as modified with the same original values. -/
def specRestartConfig {N : Type} [DecidableEq N] (before after : JValue N) : Option Clause :=
  match before, after with
  | .obj kb, .obj ka =>
    let fb := dRemove origAttrKey kb
    let fa := dRemove origAttrKey ka
    match origEntries (dGet? origAttrKey kb), origEntries (dGet? origAttrKey ka) with
    | some ob, some oa =>
      if fb = fa ∧ (outermost oa).all (fun e => (outermost ob).contains e) ∧
          (outermost ob).all (fun e => (outermost oa).contains e) then none
      else some .stateRoundtrip
    | _, _ => some .stateRoundtrip
  | _, _ => if before = after then none else some .stateRoundtrip

/-- The file the shutdown wrote must load at the next start. -/
def specModattrLoad (loaded : Bool) : Option Clause := if loaded then none else some .modattrLoad

/-! ## (3) kill during a write -/

/-- What the real loader found at the target path. -/
inductive Found
  | old      -- exactly the previous version
  | new      -- exactly the version being written
  | absent   -- no file
  | other    -- anything else (truncated, mixed, unparsable)
  deriving Repr, DecidableEq

def Found.ofString? : String → Option Found
  | "old" => some .old | "new" => some .new | "absent" => some .absent | "other" => some .other
  | _ => none

/-- `oldExisted`: a previous version was on disk; `completed`: the write ran to the end (no kill). -/
def specCrash (oldExisted completed : Bool) (f : Found) : Option Clause :=
  match f with
  | .new => none
  | .old => if completed then some .writeLost else none
  | .absent => if oldExisted then some .crashOldOrNew else if completed then some .writeLost else none
  | .other => some .crashOldOrNew

end Icinga.C14

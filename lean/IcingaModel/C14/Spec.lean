/-
  C14 — the property as executable predicates over *observed* behaviour, at the level of
  properties.jsonl.  Nothing here calls `modify`/`restore`/`deserialize`/`step`; only the tree
  accessors (`getPath`, `dSet`, …) are shared with the models.

  (1) "a modified attribute restored through the API returns exactly to its original value":
      the predicate keeps, for every attribute path that is currently modified, the value found there
      immediately before its first modification (`none` = the path did not exist), and demands that a
      successful restore of that path leaves exactly that value there (absent stays absent).
  (2) "identical values after a stop/start cycle": serialised state+config before = after.
  (3) "the file on disk afterwards is the complete previous or the complete new version, never a
      mixture, truncation or missing file": classification of what the real loader found.
-/
import IcingaModel.C14.Model
import IcingaModel.C20.Limit

namespace Icinga.C14

open Icinga.C20 (JValue)

inductive Clause
  | restoreIdentity   -- a restored attribute does not hold its pre-modification value
  | stateRoundtrip    -- serialised state/config after the restart differs from before
  | crashOldOrNew     -- after a kill the file is neither the complete old nor the complete new version
  | writeLost         -- a write that ran to completion is not what the loader finds
  | modattrLoad       -- modified-attributes.conf does not load at start-up (every runtime modification is lost)
  | stateInventory    -- an attribute the statement names is not a persisted (`[state]`) attribute of its type
  deriving Repr, DecidableEq

def Clause.name : Clause → String
  | .restoreIdentity => "restoreIdentity" | .stateRoundtrip => "stateRoundtrip"
  | .crashOldOrNew => "crashOldOrNew" | .writeLost => "writeLost" | .modattrLoad => "modattrLoad"
  | .stateInventory => "stateInventory"

/-! ## (1) modify / restore -/

inductive MOp (N : Type)
  | modify (p : Path) (v : JValue N)
  | restore (p : Path)

/-- For each currently modified path: the value found there immediately before its first
    modification, (a) as it was, (b) with the modifications that were outstanding strictly below the
    path at that moment undone.  Both readings of "its original value" are accepted when
    modifications overlap; they coincide otherwise.  (`none` = the path did not exist.) -/
abbrev Ghost (N : Type) := List (Path × Option (JValue N) × Option (JValue N))

def gLookup {N : Type} (p : Path) : Ghost N → Option (Option (JValue N) × Option (JValue N))
  | [] => none
  | (q, v) :: r => if p = q then some v else gLookup p r

/-- `q` lies strictly below `p`. -/
def strictBelow (p q : Path) : Bool := isPrefix p q && decide (p.length < q.length)

/-- Put a value (or remove the key, for `none`) at a relative path inside a value; paths whose parents
    are missing are left alone. -/
def putIn {N : Type} : Path → Option (JValue N) → JValue N → JValue N
  | [], some v, _ => v
  | [], none, cur => cur
  | [k], ov, .obj kvs =>
    match ov with
    | some v => .obj (dSet k v kvs)
    | none => .obj (dRemove k kvs)
  | k :: k2 :: ks, ov, .obj kvs =>
    match dGet? k kvs with
    | some c => .obj (dSet k (putIn (k2 :: ks) ov c) kvs)
    | none => .obj kvs
  | _ :: _, _, cur => cur

def putPath {N : Type} (fields : Dict N) : Path → Option (JValue N) → Dict N
  | [], _ => fields
  | [f], some v => dSet f v fields
  | [_], none => fields
  | f :: k :: ks, ov =>
    match dGet? f fields with
    | some c => dSet f (putIn (k :: ks) ov c) fields
    | none => fields

/-- What the predicate remembers between operations.
    `ghost`: the currently modified paths (see `Ghost`).
    `dormant`: for a modified path `p` ("subsumer"), the modifications that were outstanding strictly below `p` when
    `p` was first modified.  While `p` is modified they are part of `p`'s value; when `p` is restored and its value
    returns to the one found before its modification — the one that still contains them — they are outstanding
    again (`restore p` must not make them unrestorable: "a modified attribute restored through the API returns
    exactly to its original value").  They are forgotten as soon as anything else happens at, below or above them
    (then the property does not determine whether they come back). -/
structure Track (N : Type) where
  ghost : Ghost N := []
  dormant : List (Path × Ghost N) := []

def dormantOf {N : Type} (p : Path) : List (Path × Ghost N) → Ghost N
  | [] => []
  | (q, es) :: r => if p = q then es else dormantOf p r

/-- One observed operation: `prev`/`now` are the attribute trees before/after, `ok` whether the call
    returned without an exception.  Returns the violated clause (if any) and the new state.

    Modify of an unmodified path `p`: remember the value at `p`, as it is and with the still-outstanding
    modifications strictly below `p` undone (those are subsumed by `p` from now on and become dormant).
    Restore of `p`: if `p` is modified, the value at `p` must be the remembered one; everything at or
    below `p` stops being tracked (what was recorded below lived inside the value that just went away) — except
    that, when the value is back as it was (still holding the modifications subsumed by `p`), those are
    outstanding again.
    If `p` is not modified, nothing is demanded; modifications below `p` that came back stop being tracked. -/
def specStepM {N : Type} [DecidableEq N] (t : Track N) (prev : Dict N) (op : MOp N) (ok : Bool) (now : Dict N) :
    Option Clause × Track N :=
  if !ok then (none, t)
  else
    let g := t.ghost
    match op with
    | .modify p _ =>
      -- something changes strictly below / above a subsumer: its dormant entries are not known to come back
      let dorm := t.dormant.filter (fun d => !(strictBelow d.1 p) && !(strictBelow p d.1))
      match gLookup p g with
      | some _ => (none, { ghost := g, dormant := dorm })
      | none =>
        let below := g.filter (fun e => strictBelow p e.1)
        let undone := below.reverse.foldl (fun f e => putPath f e.1 e.2.2) prev
        (none, { ghost := g.filter (fun e => !strictBelow p e.1) ++ [(p, getPath prev p, getPath undone p)],
                 dormant := if below.isEmpty then dorm else dorm ++ [(p, below)] })
    | .restore p =>
      let dorm := t.dormant.filter (fun d => !(strictBelow d.1 p) && !(isPrefix p d.1))
      match gLookup p g with
      | some (asWas, undone) =>
        let back := if getPath now p = asWas then dormantOf p t.dormant else []
        ((if getPath now p = asWas ∨ getPath now p = undone then none else some Clause.restoreIdentity),
         { ghost := g.filter (fun e => !isPrefix p e.1) ++ back, dormant := dorm })
      | none =>
        -- `p` itself is not modified; the property does not say whether the modifications below it are restored
        -- along: those whose recorded value is back stop being tracked, the others stay outstanding
        (none, { ghost := g.filter (fun e => !(strictBelow p e.1 &&
          (decide (getPath now e.1 = e.2.1) || decide (getPath now e.1 = e.2.2)))), dormant := dorm })

/-- A whole observed case: initial tree and the steps `(op, ok, tree after)`.  First violated clause. -/
def specM {N : Type} [DecidableEq N] : Track N → Dict N → List (MOp N × Bool × Dict N) → Option Clause
  | _, _, [] => none
  | t, prev, (op, ok, now) :: rest =>
    match specStepM t prev op ok now with
    | (some c, _) => some c
    | (none, t') => specM t' now rest

/-! ## (2) stop / start -/

def specRoundtrip {N : Type} [DecidableEq N] (before after : JValue N) : Option Clause :=
  if before = after then none else some .stateRoundtrip

/-- State side of the restart (`before`/`after` = `Serialize(object, FAState)`).  The record written for the
    object is `{name, type, update = before}`, one level deeper than `before`; the JSON decoder documents a
    nesting limit of 1000 (json.cpp:276-283, C20) beyond which a document is refused, so nothing is demanded of
    state nested deeper than that. -/
def specRestartState {N : Type} [DecidableEq N] (before after : JValue N) : Option Clause :=
  if Icinga.C20.depth before + 1 > Icinga.C20.jsonMaxNestingDepth then none else specRoundtrip before after

def origAttrKey : Key := "__original_attributes".toList

/-- The outermost original entries: those with no other entry at a proper prefix of their path.  They
    say which attributes are modified and what their original values are; entries below another entry
    are bookkeeping that depends on the order of the modifications and is not compared. -/
def outermost {N : Type} (o : Dict N) : Dict N :=
  o.filter (fun e => !(o.any (fun e' => strictBelow (splitDots e'.1) (splitDots e.1))))

def origEntries {N : Type} : Option (JValue N) → Option (Dict N)
  | none => some []
  | some .null => some []
  | some (.obj kvs) => some kvs
  | some _ => none

/-- Config side of the restart (`before`/`after` = serialised config attributes plus the harness's
    `__original_attributes`): every config attribute has the identical value, and the same outermost
    attributes are recorded as modified with the same original values. -/
def specRestartConfig {N : Type} [DecidableEq N] (before after : JValue N) : Option Clause :=
  match before, after with
  | .obj kb, .obj ka =>
    let fb := dRemove origAttrKey kb
    let fa := dRemove origAttrKey ka
    match origEntries (dGet? origAttrKey kb), origEntries (dGet? origAttrKey ka) with
    | some ob, some oa =>
      if fb = fa ∧ (outermost oa).all (fun e => (outermost ob).contains e) ∧
          (outermost ob).all (fun e => (outermost oa).contains e) then none
      else some .stateRoundtrip
    | _, _ => some .stateRoundtrip
  | _, _ => if before = after then none else some .stateRoundtrip

/-! ### The attributes the statement names

  "All runtime state (states, attempts, check results, acknowledgements, downtime triggers, notification
  bookkeeping, next check times)": the list is pinned here, per reflection type, independently of the
  attribute flags of the code.  Two clauses use it: `specInventory` (every pinned attribute is a `[state]`
  attribute of its type in the running binary — otherwise DumpObjects does not write it, whatever a comparison
  of two `Serialize(…, FAState)` views says) and `specRestartPinned` (the value each pinned attribute has when
  read through its getter is the same after the restart). -/

def pinnedCheckable : List Key := [
  "next_check", "check_attempt", "state_raw", "state_type", "last_state_raw", "last_hard_state_raw", "last_state_type",
  "last_reachable", "last_check_result", "last_state_change", "last_hard_state_change", "last_state_unreachable",
  "previous_state_change", "force_next_check", "acknowledgement", "acknowledgement_expiry", "acknowledgement_last_change",
  "force_next_notification", "flapping", "flapping_current", "flapping_last_change", "suppressed_notifications",
  "state_before_suppression", "executions"].map String.toList

def pinnedTable : List (Key × List Key) := [
  ("Host".toList, pinnedCheckable ++ ["last_state_up", "last_state_down"].map String.toList),
  ("Service".toList, pinnedCheckable ++ ["last_state_ok", "last_state_warning", "last_state_critical", "last_state_unknown"].map String.toList),
  ("Notification".toList, ["notified_problem_users", "no_more_notifications", "stashed_notifications", "last_notification",
     "next_notification", "notification_number", "last_problem_notification", "suppressed_notifications",
     "last_notified_state_per_user"].map String.toList),
  ("Downtime".toList, ["trigger_time", "triggers", "remove_time"].map String.toList),
  ("User".toList, ["last_notification"].map String.toList),
  ("CheckResult".toList, ["schedule_start", "schedule_end", "execution_start", "execution_end", "command", "exit_status", "state",
     "previous_hard_state", "output", "performance_data", "active", "check_source", "scheduling_source", "ttl", "vars_before",
     "vars_after"].map String.toList)]

/-- The pinned attributes of a reflection type (none for a type the statement does not name). -/
def pinnedState (t : Key) : List Key :=
  match pinnedTable.lookup t with
  | some l => l
  | none => []

/-- `FAState` (lib/base/type.hpp:21). -/
def faState : Nat := 4

def hasFlag (flags bit : Nat) : Bool := flags / bit % 2 == 1

/-- `inv` = the fields of reflection type `t` with their attribute bits as the running binary reports them
    (`Type::GetFieldInfo`).  Every pinned attribute must be there and carry `FAState`. -/
def specInventory (t : Key) (inv : List (Key × Nat)) : Option Clause :=
  if (pinnedState t).all (fun a => match inv.lookup a with
      | some fl => hasFlag fl faState
      | none => false) then none
  else some .stateInventory

/-- `before`/`after` = the object's attributes read one by one through their getters (no attribute mask)
    before the shutdown and after the start-up: every pinned attribute of type `t` is in the record and has the
    identical value.  The record is the getter view (Serial.lean): a typed object nested in a value (`CheckResult`, a
    `PerfdataValue` inside `performance_data`) carries the member `"@object": true`, so an object that comes back as a
    dictionary with the same members is a different value.  (As for `specRestartState`, nothing is demanded beyond the
    decoder's nesting limit.) -/
def specRestartPinned {N : Type} [DecidableEq N] (t : Key) (before after : Dict N) : Option Clause :=
  if Icinga.C20.depth (JValue.obj before) + 1 > Icinga.C20.jsonMaxNestingDepth then none
  else if (pinnedState t).all (fun a => match dGet? a before with
      | some v => decide (dGet? a after = some v)
      | none => false) then none
  else some .stateRoundtrip

/-- The file the shutdown wrote must load at the next start. -/
def specModattrLoad (loaded : Bool) : Option Clause := if loaded then none else some .modattrLoad

/-! ## (3) kill during a write -/

/-- What the real loader found at the target path. -/
inductive Found
  | old      -- exactly the previous version
  | new      -- exactly the version being written
  | absent   -- no file
  | other    -- anything else (truncated, mixed, unparsable)
  deriving Repr, DecidableEq

def Found.ofString? : String → Option Found
  | "old" => some .old | "new" => some .new | "absent" => some .absent | "other" => some .other
  | _ => none

/-- `oldExisted`: a previous version was on disk; `completed`: the write ran to the end (no kill). -/
def specCrash (oldExisted completed : Bool) (f : Found) : Option Clause :=
  match f with
  | .new => none
  | .old => if completed then some .writeLost else none
  | .absent => if oldExisted then some .crashOldOrNew else if completed then some .writeLost else none
  | .other => some .crashOldOrNew

end Icinga.C14

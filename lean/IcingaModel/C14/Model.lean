/-
  C14 (a) — runtime modification and restoration of configuration attributes: executable
  transcription of `ConfigObject::ModifyAttribute` (lib/base/configobject.cpp:91-203) and
  `ConfigObject::RestoreAttribute` (configobject.cpp:205-316).  Core Lean only.

  Values are the JSON-like trees of C20 (`JValue N`, numbers abstract).  A `Dictionary` is a
  `std::map<String, Value>`: an association list kept sorted by key (byte order of the UTF-8 text =
  code point order).  Both functions work on deep clones (`Value::Clone`, dictionary.cpp:234-249,
  array.cpp:259-269) and install the result with `SetField`, so value semantics are exact; an
  exception leaves the attribute tree untouched.

  `original_attributes` (configobject.ti:87) is a Dictionary keyed by the *joined* attribute string
  ("vars.a.b").  The model keys it by the token list the code obtains with `Split(".")` and keeps the
  list ordered by the joined string, which is the iteration order of configobject.cpp:261.

  Not modelled: `FANoUserModify`/non-config fields (:105-108; every modelled field is a modifiable
  config field), `ValidateField` (:193-194; the generator produces well-typed values), the version
  bump (:198-199, :314-315), signals.
-/
import IcingaModel.C20.Json

namespace Icinga.C14

open Icinga.C20 (JValue)

abbrev Key := List Char
abbrev Path := List Key
abbrev Value (N : Type) := JValue N
abbrev Dict (N : Type) := List (Key × JValue N)
abbrev Orig (N : Type) := List (Path × JValue N)

/-! ## Decidable equality of values (the C20 tree type derives none) -/

mutual
def decEqV {N : Type} [DecidableEq N] : (a b : JValue N) → Decidable (a = b)
  | .null, .null => isTrue rfl
  | .bool x, .bool y => if h : x = y then isTrue (by rw [h]) else isFalse (by intro e; cases e; exact h rfl)
  | .num x, .num y => if h : x = y then isTrue (by rw [h]) else isFalse (by intro e; cases e; exact h rfl)
  | .str x, .str y => if h : x = y then isTrue (by rw [h]) else isFalse (by intro e; cases e; exact h rfl)
  | .arr x, .arr y => match decEqL x y with
    | isTrue h => isTrue (by rw [h])
    | isFalse h => isFalse (by intro e; cases e; exact h rfl)
  | .obj x, .obj y => match decEqM x y with
    | isTrue h => isTrue (by rw [h])
    | isFalse h => isFalse (by intro e; cases e; exact h rfl)
  | .null, .bool _ | .null, .num _ | .null, .str _ | .null, .arr _ | .null, .obj _ => isFalse (by intro e; cases e)
  | .bool _, .null | .bool _, .num _ | .bool _, .str _ | .bool _, .arr _ | .bool _, .obj _ => isFalse (by intro e; cases e)
  | .num _, .null | .num _, .bool _ | .num _, .str _ | .num _, .arr _ | .num _, .obj _ => isFalse (by intro e; cases e)
  | .str _, .null | .str _, .bool _ | .str _, .num _ | .str _, .arr _ | .str _, .obj _ => isFalse (by intro e; cases e)
  | .arr _, .null | .arr _, .bool _ | .arr _, .num _ | .arr _, .str _ | .arr _, .obj _ => isFalse (by intro e; cases e)
  | .obj _, .null | .obj _, .bool _ | .obj _, .num _ | .obj _, .str _ | .obj _, .arr _ => isFalse (by intro e; cases e)
def decEqL {N : Type} [DecidableEq N] : (a b : List (JValue N)) → Decidable (a = b)
  | [], [] => isTrue rfl
  | [], _ :: _ => isFalse (by intro e; cases e)
  | _ :: _, [] => isFalse (by intro e; cases e)
  | x :: xs, y :: ys => match decEqV x y, decEqL xs ys with
    | isTrue h1, isTrue h2 => isTrue (by rw [h1, h2])
    | isFalse h, _ => isFalse (by intro e; cases e; exact h rfl)
    | _, isFalse h => isFalse (by intro e; cases e; exact h rfl)
def decEqM {N : Type} [DecidableEq N] : (a b : List (List Char × JValue N)) → Decidable (a = b)
  | [], [] => isTrue rfl
  | [], _ :: _ => isFalse (by intro e; cases e)
  | _ :: _, [] => isFalse (by intro e; cases e)
  | (k, x) :: xs, (l, y) :: ys =>
    if hk : k = l then
      match decEqV x y, decEqM xs ys with
      | isTrue h1, isTrue h2 => isTrue (by rw [hk, h1, h2])
      | isFalse h, _ => isFalse (by intro e; cases e; exact h rfl)
      | _, isFalse h => isFalse (by intro e; cases e; exact h rfl)
    else isFalse (by intro e; cases e; exact hk rfl)
end

instance {N : Type} [DecidableEq N] : DecidableEq (JValue N) := decEqV

/-! ## Strings, keys, paths -/

/-- `std::string::compare` (`String::operator<`, used by `std::map<String, Value>`): lexicographic
    on bytes; on valid UTF-8 that is lexicographic on code points. -/
def keyLt : Key → Key → Bool
  | [], [] => false
  | [], _ :: _ => true
  | _ :: _, [] => false
  | a :: as, b :: bs => if a.toNat < b.toNat then true else if a = b then keyLt as bs else false

/-- `String::Split(".")` (boost::algorithm::split, no token compression): the empty string yields
    one empty token, "a..b" yields ["a", "", "b"]. -/
def splitDotsAux : List Char → Key → List Key
  | [], cur => [cur.reverse]
  | c :: cs, cur => if c = '.' then cur.reverse :: splitDotsAux cs [] else splitDotsAux cs (c :: cur)

def splitDots (s : List Char) : Path := splitDotsAux s []

/-- The attribute string of a token list: tokens joined by ".". -/
def joinPath : Path → List Char
  | [] => []
  | [k] => k
  | k :: ks => k ++ '.' :: joinPath ks

/-- configobject.cpp:264-276: `tokens` is a (token-wise) prefix of `originalTokens`. -/
def isPrefix : Path → Path → Bool
  | [], _ => true
  | _ :: _, [] => false
  | a :: as, b :: bs => a = b && isPrefix as bs

/-! ## Dictionaries (`std::map<String, Value>`) -/

def dGet? {N : Type} (k : Key) : Dict N → Option (JValue N)
  | [] => none
  | (k', v) :: r => if k = k' then some v else dGet? k r

def dHas {N : Type} (k : Key) : Dict N → Bool
  | [] => false
  | (k', _) :: r => k = k' || dHas k r

/-- Assignment to an existing key: the value changes, the position does not. -/
def dReplace {N : Type} (k : Key) (v : JValue N) : Dict N → Dict N
  | [] => []
  | (k', v') :: r => if k = k' then (k, v) :: r else (k', v') :: dReplace k v r

/-- Insertion of a new key at its place in key order. -/
def dInsert {N : Type} (k : Key) (v : JValue N) : Dict N → Dict N
  | [] => [(k, v)]
  | (k', v') :: r => if keyLt k k' then (k, v) :: (k', v') :: r else (k', v') :: dInsert k v r

/-- `Dictionary::Set` (dictionary.cpp:64-74, `m_Data[key] = value`).  On key-sorted duplicate-free
    lists — the only ones a `Dictionary` can be — this is `std::map::operator[]` assignment. -/
def dSet {N : Type} (k : Key) (v : JValue N) (d : Dict N) : Dict N :=
  if dHas k d then dReplace k v d else dInsert k v d

def dRemove {N : Type} (k : Key) (d : Dict N) : Dict N := d.filter (fun e => !(e.1 = k))

/-! ## original_attributes -/

def oGet? {N : Type} (p : Path) : Orig N → Option (JValue N)
  | [] => none
  | (q, v) :: r => if p = q then some v else oGet? p r

def oHas {N : Type} (p : Path) : Orig N → Bool
  | [] => false
  | (q, _) :: r => p = q || oHas p r

def oInsert {N : Type} (p : Path) (v : JValue N) : Orig N → Orig N
  | [] => [(p, v)]
  | (q, w) :: r => if keyLt (joinPath p) (joinPath q) then (p, v) :: (q, w) :: r else (q, w) :: oInsert p v r

/-- `if (!original_attributes->Contains(key)) original_attributes->Set(key, value)`
    (configobject.cpp:163-164, 173-174, 177-178, 186-188): the first recorded value wins. -/
def oAdd {N : Type} (p : Path) (v : JValue N) (o : Orig N) : Orig N :=
  if oHas p o then o else oInsert p v o

/-! ## The object -/

/-- The modifiable config fields of one object (field name ↦ value, e.g. `vars`, `notes`) and its
    `original_attributes` (`none` = the null pointer before the first modification). -/
structure Obj (N : Type) where
  fields : Dict N
  original : Option (Orig N)

instance {N : Type} [DecidableEq N] : DecidableEq (Obj N) := fun a b =>
  match a, b with
  | ⟨f1, o1⟩, ⟨f2, o2⟩ =>
    if h : f1 = f2 ∧ o1 = o2 then isTrue (by rw [h.1, h.2]) else isFalse (by intro e; cases e; exact h ⟨rfl, rfl⟩)

inductive Err
  | noField      -- GetFieldInfo(-1): "Invalid field ID." (unknown first token)
  | notDict      -- "Value must be a dictionary." (:131, :145, :236, :250)
  | nonExistent  -- "Cannot restore non-existent object attribute" (:230, :244)
  deriving Repr, DecidableEq

instance {α : Type} [DecidableEq α] : DecidableEq (Except Err α) := fun a b =>
  match a, b with
  | .ok x, .ok y => if h : x = y then isTrue (by rw [h]) else isFalse (by intro e; cases e; exact h rfl)
  | .error x, .error y => if h : x = y then isTrue (by rw [h]) else isFalse (by intro e; cases e; exact h rfl)
  | .ok _, .error _ => isFalse (by intro e; cases e)
  | .error _, .ok _ => isFalse (by intro e; cases e)

def Err.toNat : Err → Nat
  | .noField => 1 | .notDict => 2 | .nonExistent => 3

/-- `Value::IsEmpty` (value.cpp:114-117): Empty or the empty string. -/
def isEmptyVal {N : Type} : JValue N → Bool
  | .null => true
  | .str [] => true
  | _ => false

def isDict {N : Type} : JValue N → Bool
  | .obj _ => true
  | _ => false

/-- Value at a token path below a value (`none` = some key on the way is absent or a non-dictionary
    is in the way). -/
def getIn {N : Type} : Path → JValue N → Option (JValue N)
  | [], v => some v
  | k :: ks, .obj kvs =>
    match dGet? k kvs with
    | none => none
    | some c => getIn ks c
  | _ :: _, _ => none

/-- Value of the attribute `p` of an object's field map. -/
def getPath {N : Type} (fields : Dict N) : Path → Option (JValue N)
  | [] => none
  | f :: rest =>
    match dGet? f fields with
    | none => none
    | some v => getIn rest v

/-- configobject.cpp:93, 108-113: the original-attributes dictionary, created empty on first use. -/
def origOf {N : Type} (o : Obj N) : Orig N :=
  match o.original with
  | some g => g
  | none => []

/-! ## ModifyAttribute -/

/-- configobject.cpp:155-179 (`field.Attributes & FAConfig`): what is remembered about the value
    `oldV` found at `attr` before it is overwritten with `v`.  A dictionary is flattened one level
    (its children are remembered under `attr.<key>`, the keys of a new dictionary value under
    `attr.<key>` as Empty) and `attr` itself is *not* recorded; any other old value — including the
    Empty that `Dictionary::Get` returns for a missing key — is recorded under `attr`.
    The key strings are split again on restore (:262), hence `splitDots`. -/
def recordOriginal {N : Type} (attr : Path) (oldV v : JValue N) (orig : Orig N) : Orig N :=
  match oldV with
  | .obj okvs =>
    let orig1 := okvs.foldl (fun acc e => oAdd (attr ++ splitDots e.1) e.2 acc) orig          -- :161-165
    match v with
    | .obj vkvs => vkvs.foldl (fun acc e => oAdd (attr ++ splitDots e.1) JValue.null acc) orig1   -- :168-176
    | _ => orig1
  | _ => oAdd attr oldV orig                                                                   -- :177-178

/-- configobject.cpp:129-181 on the clone: walk `toks` below `cur` (`pre` = the tokens consumed so
    far), creating missing intermediate dictionaries (:138-141), and set the last key. -/
def setDeep {N : Type} : Path → Path → JValue N → JValue N → Orig N → Except Err (JValue N × Orig N)
  | _, [], _, _, _ => .error .notDict               -- unreachable: called with at least one token
  | pre, [k], cur, v, orig =>
    match cur with
    | .obj kvs =>
      let oldV := match dGet? k kvs with             -- :153 `dict->Get(key)`: Empty when missing
        | some c => c
        | none => JValue.null
      .ok (.obj (dSet k v kvs), recordOriginal (pre ++ [k]) oldV v orig)                       -- :155-181
    | _ => .error .notDict                           -- :144-145
  | pre, k :: k2 :: ks, cur, v, orig =>
    match cur with
    | .obj kvs =>
      let child := match dGet? k kvs with            -- :138-141
        | some c => c
        | none => JValue.obj []
      match setDeep (pre ++ [k]) (k2 :: ks) child v orig with
      | .error e => .error e
      | .ok (c', orig') => .ok (.obj (dSet k c' kvs), orig')
    | _ => .error .notDict                           -- :130-131

/-- `ConfigObject::ModifyAttribute(attr, value)` with `p = attr.Split(".")`. -/
def modify {N : Type} (o : Obj N) (p : Path) (v : JValue N) : Except Err (Obj N) :=
  match p with
  | [] => .error .noField                            -- unreachable: Split never returns an empty vector
  | f :: rest =>
    match dGet? f o.fields with
    | none => .error .noField                        -- :102-103
    | some old =>
      let orig := origOf o                           -- :108-113
      match rest with
      | [] => .ok { fields := dSet f v o.fields, original := some (oAdd [f] old orig) }        -- :183-190, :196
      | k :: ks =>
        let root := if isEmptyVal old then JValue.obj [] else old                              -- :119-125
        match setDeep [f] (k :: ks) root v orig with
        | .error e => .error e
        | .ok (nv, orig') => .ok { fields := dSet f nv o.fields, original := some orig' }      -- :196

/-! ## RestoreAttribute -/

/-- configobject.cpp:278-298: store `val` under the relative token path `rel` inside the dictionary
    `kvs`, replacing whatever is not a dictionary on the way by a fresh one (:289-292). -/
def setForce {N : Type} : Path → JValue N → Dict N → Dict N
  | [], _, kvs => kvs                                -- unreachable: `rel` has at least the last token
  | [k], val, kvs => dSet k val kvs                  -- :298
  | k :: k2 :: ks, val, kvs =>
    let sub : Dict N := match dGet? k kvs with
      | some (.obj s) => s
      | _ => []
    dSet k (.obj (setForce (k2 :: ks) val sub)) kvs

/-- configobject.cpp:232-301 on the clone: walk down to the dictionary holding the last token
    (every intermediate key must exist, :243-244) and apply the matching original entries `rels`
    (paths relative to that dictionary) in their order. -/
def restoreDeep {N : Type} : Path → JValue N → List (Path × JValue N) → Except Err (JValue N)
  | [], _, _ => .error .nonExistent                  -- unreachable
  | [_], cur, rels =>
    match cur with
    | .obj kvs => .ok (.obj (rels.foldl (fun acc e => setForce e.1 e.2 acc) kvs))
    | _ => .error .notDict                           -- :249-250
  | k :: k2 :: ks, cur, rels =>
    match cur with
    | .obj kvs =>
      match dGet? k kvs with
      | none => .error .nonExistent                  -- :243-244
      | some c =>
        match restoreDeep (k2 :: ks) c rels with
        | .error e => .error e
        | .ok c' => .ok (.obj (dSet k c' kvs))
    | _ => .error .notDict                           -- :235-236

/-- `ConfigObject::RestoreAttribute(attr)` with `p = attr.Split(".")`. -/
def restore {N : Type} (o : Obj N) (p : Path) : Except Err (Obj N) :=
  match p with
  | [] => .error .noField
  | f :: rest =>
    match dGet? f o.fields with
    | none => .error .noField                        -- :213-215
    | some cur =>
      match o.original with
      | none => .ok o                                -- :219-220
      | some orig =>
        match rest with
        | [] =>                                      -- :307-317
          match oGet? [f] orig with
          | none => .ok o                            -- :309-310 nothing to restore for an unmodified attribute
          | some oldV =>
            .ok { fields := dSet f oldV o.fields, original := some (orig.filter (fun e => !(e.1 = [f]))) }
        | k :: ks =>
          if isEmptyVal cur then .error .nonExistent                                           -- :229-230
          else
            let matched := orig.filter (fun e => isPrefix p e.1)                                -- :261-276
            let rels := matched.map (fun e => (e.1.drop (p.length - 1), e.2))                   -- :285
            match restoreDeep (k :: ks) cur rels with
            | .error e => .error e
            | .ok nv =>
              .ok { fields := dSet f nv o.fields,
                    original := some (orig.filter (fun e => !(isPrefix p e.1))) }              -- :303-304, :311

/-! ## DumpModifiedAttributes and its replay at start-up -/

/-- configobject.cpp:645-656: walk the intermediate tokens as far as they lead through dictionaries
    (`break` on a non-dictionary or a missing key; the value reached so far is kept). -/
def walkDump {N : Type} : Path → JValue N → JValue N
  | [], cur => cur
  | k :: ks, cur =>
    match cur with
    | .obj kvs =>
      match dGet? k kvs with
      | some c => walkDump ks c
      | none => cur                                  -- :652-653
    | _ => cur                                       -- :646-647 (a throw before commit 999361f)

/-- configobject.cpp:645-671 below the field value: the value currently stored under the entry's last
    token in the dictionary the walk ends in; `none` = the entry is skipped because that is no longer a
    dictionary (:658-661, an exception aborting the whole dump before commit 999361f) or no longer has
    the key (:666-668; written as a modification to Empty before commit 1d70162). -/
def dumpIn {N : Type} (toks : Path) (cv : JValue N) : Option (JValue N) :=
  match walkDump toks.dropLast cv, toks.getLast? with
  | .obj kvs, some last => dGet? last kvs
  | _, _ => none

/-- configobject.cpp:625-676 for one original entry: the current value at its path, which is what
    modified-attributes.conf records. -/
def dumpEntry {N : Type} (fields : Dict N) (p : Path) : Option (Path × JValue N) :=
  match p with
  | [] => none
  | [f] =>
    match dGet? f fields with
    | some v => some (p, v)                          -- :672-673
    | none => none
  | f :: k :: ks =>
    match dGet? f fields with
    | none => none
    | some cv =>
      match dumpIn (k :: ks) cv with
      | some v => some (p, v)
      | none => none

/-- `ConfigObject::DumpModifiedAttributes` (configobject.cpp:610-672): one `(attr, current value)` per
    original entry, in key order — the `modify_attribute` calls of modified-attributes.conf
    (icingaapplication.cpp:131-158). -/
def dumpModified {N : Type} (o : Obj N) : List (Path × JValue N) :=
  (origOf o).filterMap (fun e => dumpEntry o.fields e.1)

/-- The replay at start-up (configitem.cpp:648-664): the script calls `modify_attribute` for each
    entry on the freshly loaded object; an exception ends the evaluation of the script (:659-661). -/
def replayModified {N : Type} : Obj N → List (Path × JValue N) → Obj N
  | o, [] => o
  | o, (p, v) :: r =>
    match modify o p v with
    | .ok o' => replayModified o' r
    | .error _ => o

/-- `ConfigObject::IsAttributeModified` (configobject.cpp:318-326). -/
def isModified {N : Type} (o : Obj N) (p : Path) : Bool :=
  match o.original with
  | none => false
  | some orig => oHas p orig

end Icinga.C14

/-
  C13 — the property as properties.jsonl states it.

  `Entitled` is the sentence "the message comes from an authenticated, configured endpoint whose zone
  is entitled to it", as a proposition over an arbitrary zone forest (`Below` is the reflexive-
  transitive closure of `parent`, no fuel, no bound).  `entitledB` is the same sentence as an executable
  predicate, and `specStep` evaluates it on ONE OBSERVED message: (method, context, what the harness
  saw change).  Nothing here looks at `accepts`.

  The *sender* is the connection's endpoint, i.e. the identity the TLS layer authenticated — not the
  `originZone` field, which is an unauthenticated claim inside the message body.
-/
import IcingaModel.C13.Model

namespace Icinga.C13

/-- `a` is `z` or lies below it in the zone tree. -/
inductive Below (f : Forest) : Zone → Zone → Prop
  | refl (a : Zone) : Below f a a
  | step {a p z : Zone} : f.parent a = some p → Below f p z → Below f a z

/-- How the property's sentence classifies the methods. -/
inductive MClass
  /-- "state and event updates only for objects in the sender's own zone or below it" -/
  | stateUpdate
  /-- "… check results additionally from the object's command endpoint" -/
  | checkResult
  /-- result of a command execution: the execution ran on an endpoint of the sender's zone or below it
      (the analogue of the command-endpoint rule for `event::ExecutedCommand`) -/
  | execResult
  /-- "zone-internal bookkeeping only from the receiver's own zone" -/
  | zoneInternal
  /-- "configuration files, runtime objects … only from the receiver's own zone or a zone above it and
      only when accept_config … is enabled" -/
  | config
  /-- "… command execution only from the receiver's own zone or a zone above it and only when
      accept_commands is enabled"; a command that names another node as its target is not executed by the
      receiver but relayed towards that node ("a message that is refused … is not relayed further"): the
      same zone condition, `accept_commands` concerns the executing node only -/
  | command
  /-- the node's own certificate and CA file: from the receiver's own zone or a zone above it -/
  | certUpdate
  /-- facts about the connection itself recorded on the sender's own Endpoint object (version,
      capabilities, log position, heartbeat): any authenticated, configured endpoint -/
  | session
  /-- "anonymous connections can do nothing but request a certificate" -/
  | certRequest
  deriving DecidableEq, Repr

def Method.cls : Method → MClass
  | .checkResult => .checkResult
  | .setNextCheck | .setLastCheckStarted | .setNextNotification | .setForceNextCheck
  | .setForceNextNotification | .setAcknowledgement | .clearAcknowledgement | .updateExecutions
  | .setRemovalInfo => .stateUpdate
  | .executedCommand => .execResult
  | .setStateBeforeSuppression | .setSuppressedNotifications | .setSuppressedNotificationTypes
  | .updateLastNotifiedStatePerUser | .clearLastNotifiedStatePerUser | .sendNotifications
  | .notificationSentUser | .notificationSentToAllUsers => .zoneInternal
  | .configUpdate | .configUpdateObject | .configDeleteObject => .config
  | .executeCommand => .command
  | .updateCertificate => .certUpdate
  | .hello | .setLogPosition | .heartbeat => .session
  | .requestCertificate => .certRequest

/-- The object (zone attribute `objZone`, unset = the receiver's zone) is in zone `s` or below it; objects
    of a global zone belong to every zone. -/
def ObjWithin (f : Forest) (localZone s : Zone) (objZone : Option Zone) : Prop :=
  let oz := match objZone with | some z => z | none => localZone
  f.isGlobal oz = true ∨ Below f oz s

/-- What a sender in zone `s` is entitled to, per class. -/
def EntitledZone (f : Forest) (cls : MClass) (s : Zone) (c : Ctx) : Prop :=
  match cls with
  | .stateUpdate => ObjWithin f c.localZone s c.objZone
  | .checkResult => ObjWithin f c.localZone s c.objZone ∨ c.senderIsCommandEndpoint = true
  | .execResult => ∃ ez, c.execEndpointZone = some ez ∧ Below f ez s
  | .zoneInternal => s = c.localZone
  | .config => Below f c.localZone s ∧ c.acceptConfig = true
  | .command => Below f c.localZone s ∧ (c.forwardZone.isSome = true ∨ c.acceptCommands = true)
  | .certUpdate => Below f c.localZone s
  | .session => True
  | .certRequest => True

/-- **The property.**  Either the method is the certificate request, or the connection is authenticated,
    its identity is a configured endpoint, and that endpoint's zone is entitled to the message. -/
def Entitled (f : Forest) (m : Method) (c : Ctx) : Prop :=
  m.cls = .certRequest ∨
  (c.authenticated = true ∧ ∃ s, c.endpointZone = some s ∧ EntitledZone f m.cls s c)

/-! ### The same, executable (for the driver) -/

def belowB (f : Forest) : Nat → Zone → Zone → Bool
  | 0, _, _ => false
  | n + 1, a, z =>
    a == z || (match f.parent a with
               | none => false
               | some p => belowB f n p z)

/-- Walk length used by the driver; the zone trees of the correspondence runs have depth ≤ 3. -/
def specDepth : Nat := 64

def objWithinB (f : Forest) (localZone s : Zone) (objZone : Option Zone) : Bool :=
  let oz := match objZone with | some z => z | none => localZone
  f.isGlobal oz || belowB f specDepth oz s

def entitledZoneB (f : Forest) (cls : MClass) (s : Zone) (c : Ctx) : Bool :=
  match cls with
  | .stateUpdate => objWithinB f c.localZone s c.objZone
  | .checkResult => objWithinB f c.localZone s c.objZone || c.senderIsCommandEndpoint
  | .execResult => match c.execEndpointZone with
    | none => false
    | some ez => belowB f specDepth ez s
  | .zoneInternal => s == c.localZone
  | .config => belowB f specDepth c.localZone s && c.acceptConfig
  | .command => belowB f specDepth c.localZone s && (c.forwardZone.isSome || c.acceptCommands)
  | .certUpdate => belowB f specDepth c.localZone s
  | .session => true
  | .certRequest => true

def entitledB (f : Forest) (m : Method) (c : Ctx) : Bool :=
  m.cls == .certRequest ||
  (c.authenticated && (match c.endpointZone with
                       | none => false
                       | some s => entitledZoneB f m.cls s c))

/-! `Obs` (what the harness observed for one message: objects / files / relayed / executed / foreign) is declared in
    Model.lean because the model produces one too (`observe`); the specification reads nothing else of the model. -/

/-- **The class F-C13a** (known finding, see IcingaProofs/C13.lean).  A state/event update, check result or execution
    result from an authenticated endpoint of the receiver's OWN zone is judged by the code not against the sender's
    zone but against the zone the message itself names in `originZone` — or against nothing when the field is absent
    or names no zone.  The class is: own-zone sender, update class, and the claim is absent or names a zone that would
    itself be entitled.  A message whose claimed zone is NOT entitled lies outside (the code refuses it). -/
def inFC13a (f : Forest) (m : Method) (c : Ctx) : Bool :=
  (m.cls == .stateUpdate || m.cls == .checkResult || m.cls == .execResult) &&
  c.authenticated && c.endpointZone == some c.localZone &&
  (match c.originZone with
   | none => true
   | some z => entitledZoneB f m.cls z c)

inductive Clause
  | anonymousOnlyCertificate | appliedOnlyIfEntitled | sessionOnlyOwnEndpoint
  | endpointOnlyIfAuthenticated | judgedBySendersZone
  deriving Repr, DecidableEq

def Clause.name : Clause → String
  | .anonymousOnlyCertificate => "anonymous_only_certificate"
  | .appliedOnlyIfEntitled => "applied_only_if_entitled"
  | .sessionOnlyOwnEndpoint => "session_only_own_endpoint"
  | .endpointOnlyIfAuthenticated => "endpoint_only_if_authenticated"
  | .judgedBySendersZone => "judged_by_senders_zone"

/-- The property on one observed message: whatever was applied, was applied for an entitled sender;
    a connection without authenticated, configured endpoint achieved nothing unless the method is the
    certificate request.  (A refused message is by definition one that is not applied; "refused ⇒ no
    change, no relay" is the contrapositive of the first clause.) -/
def specStep (f : Forest) (m : Method) (c : Ctx) (o : Obs) : Option Clause :=
  if o.applied && !(c.authenticated && c.endpointZone.isSome) && m.cls != .certRequest then
    some .anonymousOnlyCertificate
  else if o.applied && !entitledB f m c then some .appliedOnlyIfEntitled
  -- the class `session` is entitled to nothing but the record of its own connection: whatever such a message
  -- changes is the sender's own Endpoint object — no other object, no file, no relay, no execution
  else if m.cls == .session && (o.foreign || o.files || o.relayed || o.executed) then some .sessionOnlyOwnEndpoint
  else none

/-- What every handler is told about the sender of a message — the `MessageOrigin` that
    `JsonRpcConnection::MessageHandler` builds — as a probe method registered like any other sees it. -/
structure OriginObs where
  /-- `origin->FromClient->GetEndpoint()` is set -/
  hasEndpoint : Bool
  /-- `origin->FromZone` -/
  fromZone : Option Zone
  deriving Repr, DecidableEq

/-- "… only if it comes from an authenticated, configured endpoint whose zone is entitled to it", read for what the
    handlers are handed: they are told of an endpoint only on an authenticated connection whose identity is a configured
    endpoint; without one there is no zone to be entitled; and a sender of ANOTHER zone is judged by ITS zone, whatever
    the message body says.  (For a sender of the receiver's own zone the statement fixes nothing here: F-C13a.) -/
def specOrigin (c : Ctx) (o : OriginObs) : Option Clause :=
  if o.hasEndpoint && !(c.authenticated && c.endpointZone.isSome) then some .endpointOnlyIfAuthenticated
  else
    match (if c.authenticated then c.endpointZone else none) with
    | none => if o.fromZone.isSome then some .judgedBySendersZone else none
    | some ez => if ez != c.localZone && o.fromZone != some ez then some .judgedBySendersZone else none

/-- The property on a whole observed trace (one receiver, messages in order): index and clause of the first
    message that violates it. -/
def specTrace (f : Forest) : List (Method × Ctx × Obs) → Nat → Option (Nat × Clause)
  | [], _ => none
  | (m, c, o) :: rest, i =>
    match specStep f m c o with
    | some cl => some (i, cl)
    | none => specTrace f rest (i + 1)

end Icinga.C13
